------------------------------ MODULE ConfigSim ------------------------------
(***************************************************************************)
(* Seeded random sampling of the admissible configuration space beyond the *)
(* fixed size classes: `tlc -simulate` on this module walks                *)
(*    pick a workload -> pick a platform class admissible for it ->        *)
(*    pick a size tuple from the workload's whole domain Gen(w)            *)
(* (TLC chooses uniformly among the successors, reproducibly for a given   *)
(* -seed); every third state is one case for the Go driver.  The           *)
(* invariant checks that the generator and the predicate form of the       *)
(* domain agree on every sample.                                           *)
(***************************************************************************)
EXTENDS Config
CONSTANT Scope
VARIABLES phase, w, c, p

NoClass == [mode |-> "none", gpu |-> "none", arch |-> "none", n |-> 0, dist |-> "none", umem |-> 0]
Init == phase = "w" /\ w = "none" /\ c = NoClass /\ p = <<>>

ClassesFor(v) == {k \in Classes : ClassOK(v, k) /\ (k.mode = "timing" /\ Scope = "acceptance" => Acceptance(v, k))}
SizesFor(v, k) == {q \in Gen(v) : Adm(v, q, k, Scope)}

PickW == phase = "w" /\ \E v \in Workloads : w' = v /\ phase' = "c" /\ c' = NoClass /\ p' = <<>>
PickC == phase = "c" /\ \E k \in ClassesFor(w) : c' = k /\ phase' = "p" /\ UNCHANGED <<w, p>>
PickP == phase = "p" /\ p' = RandomElement(SizesFor(w, c)) /\ phase' = "w" /\ UNCHANGED <<w, c>>
Next == PickW \/ PickC \/ PickP
Spec == Init /\ [][Next]_<<phase, w, c, p>>

GenInDom == (phase = "w" /\ w # "none") => InDom(w, p) /\ Adm(w, p, c, Scope)
=============================================================================
