SPECIFICATION Spec
CONSTANTS
  NGpu = 2
  Prog <- MCProgSeq
  NWG = 3
  Deviations = {}
INVARIANTS ExactlyOnce AtMostOnce NoEarlyRsp
CHECK_DEADLOCK FALSE
