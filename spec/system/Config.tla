------------------------------- MODULE Config -------------------------------
(***************************************************************************)
(* The admissible configuration space of the shipped workloads             *)
(* (C01, C02, C18 system part).                                            *)
(*                                                                         *)
(* A configuration is  [w, p, c]:  workload name, tuple of size            *)
(* parameters (meaning given by Names[w]) and a platform class             *)
(*   c = [mode, gpu, arch, n, dist, umem]                                  *)
(*     mode  "emu" | "timing"                                              *)
(*     gpu   "none" (emulation) | "r9nano" | "mi300a"                      *)
(*     arch  "gcn3" | "cdna3"        (-arch, selects the kernel binary)    *)
(*     n     1 | 2 | 4               GPU set {1}, {1,2}, {1,2,3,4}         *)
(*     dist  "plain" (-gpus) | "unified" (-unified-gpus)                   *)
(*     umem  0 | 1                   (-use-unified-memory)                 *)
(*                                                                         *)
(* Dom(w) is the set of size tuples the workload's host code and kernels   *)
(* admit (divisibility rules, powers of two, minimum sizes; read off       *)
(* amd/benchmarks), Div(w,p,n)     the additional rule when the workload    *)
(* itself splits the work over n GPUs, Acceptance(w,c) the platform        *)
(* classes of amd/tests/acceptance/cases.go (timing is only claimed        *)
(* there).  TLC checks the sanity ASSUMEs below and exports the covering   *)
(* sets (module ConfigCover) and seeded random samples (ConfigSim) that    *)
(* the Go driver harness/cmd/sysrun replays.                               *)
(***************************************************************************)
EXTENDS Integers, Sequences, FiniteSets, TLC

Pow2(lo, hi) == {2^k : k \in lo..hi}
Mult(k, lo, hi) == {k * i : i \in lo..hi}

Workloads == {"aes", "argreuse", "atax", "bfs", "bicg", "bitonicsort", "concurrentkernel", "concurrentworkload", "conv2d",
              "fastwalshtransform", "fft", "fir", "floydwarshall", "im2col", "kmeans", "matrixmultiplication",
              "matrixtranspose", "memcopy", "nbody", "nw", "overlapcopy", "pagerank", "relu", "simpleconvolution", "spmv",
              "stencil2d", "vectoradd", "xor"}

\* not runnable here: lenet, minerva, vgg16 need the MNIST / ImageNet data sets, which the repository does not ship
NotRunnable == {"lenet", "minerva", "vgg16"}

Names == [aes |-> <<"length">>, argreuse |-> <<"length", "launches", "smask">>, atax |-> <<"x", "y">>, bfs |-> <<"node", "degree">>, bicg |-> <<"x", "y">>,
          bitonicsort |-> <<"length", "asc">>, concurrentkernel |-> <<"firlength", "bslength">>,
          concurrentworkload |-> <<"firlength", "bslength">>,
          conv2d |-> <<"N", "C", "H", "W", "oc", "kh", "kw", "padx", "pady", "stridex", "stridey">>,
          fastwalshtransform |-> <<"length">>, fft |-> <<"bytes", "passes">>, fir |-> <<"length", "taps">>,
          floydwarshall |-> <<"node", "iter">>,
          im2col |-> <<"N", "C", "H", "W", "kh", "kw", "padx", "pady", "stridex", "stridey", "dilatex", "dilatey">>,
          kmeans |-> <<"points", "clusters", "features", "maxiter">>, matrixmultiplication |-> <<"x", "y", "z">>,
          matrixtranspose |-> <<"width">>, memcopy |-> <<"bytes">>, nbody |-> <<"particles", "iter">>,
          nw |-> <<"length">>, overlapcopy |-> <<"length", "taps", "chunks">>, pagerank |-> <<"node", "sparsitypm", "iterations">>, relu |-> <<"length">>,
          simpleconvolution |-> <<"width", "height", "mask">>, spmv |-> <<"dim", "sparsitypm">>,
          stencil2d |-> <<"row", "col", "iter">>, vectoradd |-> <<"width", "height">>, xor |-> <<>>]

(***************************************************************************)
(* Size domains (bounded above only to keep runs cheap), as a generator    *)
(* (used for sampling, module ConfigSim) and as a predicate (InDom below;  *)
(* TLC cannot decide membership in a set of mapped tuples without          *)
(* enumerating it).  ConfigSim checks Gen(w) \subseteq InDom on every      *)
(* sample.                                                                 *)
(***************************************************************************)
Gen(w) ==
  CASE w = "aes" -> {<<l>> : l \in Mult(16, 1, 320)}                       \* whole 16-byte blocks; no bounds check in the kernel
    [] w = "argreuse" -> {<<l, k, m>> : l \in 64..1024, k \in 2..6, m \in 0..127}      \* harness program (sysrun/argreuse.go)
    [] w = "atax" -> {<<x, x>> : x \in 1..320}                             \* host code sizes x[] by NX but the device copy by NY
    [] w = "bfs" -> {<<n, d>> : n \in 8..1500, d \in 1..4}
    [] w = "bicg" -> {<<x, y>> : x \in 1..320, y \in 1..320}
    [] w = "bitonicsort" -> {<<l, a>> : l \in Pow2(2, 11), a \in {0, 1}}   \* numStages = floor(log2 n); no bounds check
    [] w = "concurrentkernel" -> {<<f, b>> : f \in Mult(256, 1, 40), b \in Pow2(2, 7)}
    [] w = "concurrentworkload" -> {<<f, b>> : f \in Mult(512, 1, 20), b \in Pow2(2, 7)}
    [] w = "conv2d" -> {<<n, c, hw, hw, oc, k, k, pd, pd, s, s>> :
                          n \in 1..2, c \in 1..2, hw \in 4..12, oc \in 1..3, k \in {1, 3}, pd \in {0, 1}, s \in {1, 2}}
    [] w = "fastwalshtransform" -> {<<l>> : l \in Pow2(1, 12)}
    [] w = "fft" -> {<<b, ps>> : b \in Mult(8192, 1, 4), ps \in 1..2}       \* one work-group per pair of 512-point transforms
    [] w = "fir" -> {<<l, t>> : l \in 1..4200, t \in 1..32}
    [] w = "floydwarshall" -> {<<n, i>> : n \in Mult(8, 1, 6), i \in 0..48} \* block size 8; other sizes are rounded up with a wrong stride
    [] w = "im2col" -> {<<n, c, hw, hw, k, k, pd, pd, s, s, dl, dl>> :
                          n \in 1..2, c \in 1..2, hw \in 4..12, k \in {1, 3}, pd \in {0, 1}, s \in {1, 2}, dl \in {1, 2}}
    [] w = "kmeans" -> {<<pt, cl, f, it>> : pt \in 8..300, cl \in 2..5, f \in 1..8, it \in 1..3}
    [] w = "matrixmultiplication" -> {<<x, y, z>> : x \in Mult(32, 1, 3), y \in Mult(32, 1, 4), z \in Mult(32, 1, 3)}
    [] w = "matrixtranspose" -> {<<wd>> : wd \in Mult(64, 1, 4)}
    [] w = "memcopy" -> {<<b>> : b \in 1..70000}
    [] w = "nbody" -> {<<pt, it>> : pt \in 1..600, it \in 1..3}             \* clamped to a multiple of 256 (>= 256) by Run
    [] w = "nw" -> {<<l>> : l \in Mult(64, 1, 3)}
    [] w = "overlapcopy" -> {<<l, t, c>> : l \in Mult(256, 1, 32), t \in 1..64, c \in 1..8}   \* harness program (sysrun/overlap.go)
    [] w = "pagerank" -> {<<n, s, it>> : n \in 2..64, s \in Mult(50, 2, 20), it \in 1..3}
    [] w = "relu" -> {<<l>> : l \in 1..4200}
    [] w = "simpleconvolution" -> {<<wd, h, m>> : wd \in 2..100, h \in 2..100, m \in {1, 3, 5}}
    [] w = "spmv" -> {<<d, s>> : d \in 16..300, s \in Mult(10, 1, 30)}
    [] w = "stencil2d" -> {<<r, c, it>> : r \in Mult(16, 1, 4), c \in Mult(64, 1, 3), it \in 1..2}
    [] w = "vectoradd" -> {<<wd, h>> : wd \in 1..4096, h \in 1..3}
    [] w = "xor" -> {<<>>}


(***************************************************************************)
(* Work-group counts and the share boundaries of the unified device.       *)
(* Driver.distributeWGToGPUs gives every GPU of a unified device           *)
(*     share = CUs per GPU * ceil(work-groups / total CUs)                 *)
(* consecutive work-groups (flattened ids), the last GPUs possibly fewer   *)
(* or none.  A work-group count t is a *boundary count* for n GPUs of cu   *)
(* compute units each when it lies within one of a multiple of the share   *)
(* it induces: t = k*share(t) + d, k in 1..n, d in {-1,0,1} - the counts at *)
(* which a GPU gets its last / exactly one / no work-group.  The sizes are *)
(* derived from the CU count of the platform (CUPerGPU), not listed.       *)
(***************************************************************************)
MaxBoundaryWG == 4 * 120 + 120 + 1        \* largest boundary count used: 4 stock mi300a GPUs
CeilDiv(a, b) == (a + b - 1) \div b

IsPow2(n) == \E k \in 0..16 : n = 2^k
In(v, lo, hi) == v >= lo /\ v <= hi
InMult(v, k, lo, hi) == v % k = 0 /\ In(v \div k, lo, hi)
InDom(w, p) ==
  /\ Len(p) = Len(Names[w])
  /\ CASE w = "aes" -> InMult(p[1], 16, 1, MaxBoundaryWG * 64)
       [] w = "argreuse" -> In(p[1], 64, 1024) /\ In(p[2], 2, 6) /\ In(p[3], 0, 127)
       [] w = "atax" -> In(p[1], 1, 320) /\ p[2] = p[1]
       [] w = "bfs" -> In(p[1], 8, 1500) /\ In(p[2], 1, 4)
       [] w = "bicg" -> In(p[1], 1, 320) /\ In(p[2], 1, 320)
       [] w = "bitonicsort" -> IsPow2(p[1]) /\ In(p[1], 4, 2048) /\ p[2] \in {0, 1}
       [] w = "concurrentkernel" -> InMult(p[1], 256, 1, 40) /\ IsPow2(p[2]) /\ In(p[2], 4, 128)
       [] w = "concurrentworkload" -> InMult(p[1], 512, 1, 20) /\ IsPow2(p[2]) /\ In(p[2], 4, 128)
       [] w = "conv2d" -> /\ In(p[1], 1, 2) /\ In(p[2], 1, 2) /\ In(p[3], 4, 12) /\ p[4] = p[3] /\ In(p[5], 1, 3)
                          /\ p[6] \in {1, 3} /\ p[7] = p[6] /\ p[8] \in {0, 1} /\ p[9] = p[8] /\ p[10] \in {1, 2} /\ p[11] = p[10]
       [] w = "fastwalshtransform" -> IsPow2(p[1]) /\ In(p[1], 2, 4096)
       [] w = "fft" -> InMult(p[1], 8192, 1, 4) /\ In(p[2], 1, 2)
       [] w = "fir" -> In(p[1], 1, MaxBoundaryWG * 256) /\ In(p[2], 1, 32)
       [] w = "floydwarshall" -> InMult(p[1], 8, 1, 6) /\ In(p[2], 0, 48)
       [] w = "im2col" -> /\ In(p[1], 1, 2) /\ In(p[2], 1, 2) /\ In(p[3], 4, 12) /\ p[4] = p[3] /\ p[5] \in {1, 3} /\ p[6] = p[5]
                          /\ p[7] \in {0, 1} /\ p[8] = p[7] /\ p[9] \in {1, 2} /\ p[10] = p[9] /\ p[11] \in {1, 2} /\ p[12] = p[11]
       [] w = "kmeans" -> In(p[1], 8, 300) /\ In(p[2], 2, 5) /\ In(p[3], 1, 8) /\ In(p[4], 1, 3)
       [] w = "matrixmultiplication" -> InMult(p[1], 32, 1, 3) /\ InMult(p[2], 32, 1, 4) /\ InMult(p[3], 32, 1, 3)
       [] w = "matrixtranspose" -> InMult(p[1], 64, 1, 4)
       [] w = "memcopy" -> In(p[1], 1, 70000)
       [] w = "nbody" -> In(p[1], 1, 600) /\ In(p[2], 1, 3)
       [] w = "nw" -> InMult(p[1], 64, 1, 3)
       [] w = "overlapcopy" -> InMult(p[1], 256, 1, 32) /\ In(p[2], 1, 64) /\ In(p[3], 1, 8)
       [] w = "pagerank" -> In(p[1], 2, 64) /\ InMult(p[2], 50, 2, 20) /\ In(p[3], 1, 3)
       [] w = "relu" -> In(p[1], 1, MaxBoundaryWG * 64)
       [] w = "simpleconvolution" -> In(p[1], 2, 100) /\ In(p[2], 2, 100) /\ p[3] \in {1, 3, 5}
       [] w = "spmv" -> In(p[1], 16, 300) /\ InMult(p[2], 10, 1, 30)
       [] w = "stencil2d" -> InMult(p[1], 16, 1, 4) /\ InMult(p[2], 64, 1, 3) /\ In(p[3], 1, 2)
       [] w = "vectoradd" -> In(p[1], 1, MaxBoundaryWG * 64) /\ In(p[2], 1, 3)
       [] w = "xor" -> TRUE

\* extra constraints inside the product domains
DomOK(w, p) ==
  CASE w = "conv2d" -> p[3] + 2 * p[8] >= p[6]
    [] w = "im2col" -> p[3] + 2 * p[7] >= p[11] * (p[5] - 1) + 1
    [] w = "kmeans" -> p[2] <= p[1]
    [] w = "floydwarshall" -> p[2] <= p[1]
    [] w = "bfs" -> p[1] > p[2] + 1
    [] OTHER -> TRUE

(***************************************************************************)
(* The workload splits its work over n GPUs itself (plain mode): extra     *)
(* divisibility.  Workloads not listed run on one GPU of the set.          *)
(***************************************************************************)
Div(w, p, n) ==
  CASE w = "aes" -> (p[1] \div 16) % n = 0
    [] w = "bitonicsort" -> (p[1] \div 2) \div n >= 1
    [] w = "fir" -> p[1] % n = 0
    [] w = "kmeans" -> p[1] % n = 0
    [] w = "matrixmultiplication" -> p[2] % (32 * n) = 0
    [] w = "matrixtranspose" -> p[1] % (64 * n) = 0
    [] w = "relu" -> p[1] % n = 0
    [] w = "simpleconvolution" -> (((p[1] + p[3] - 1) * (p[2] + p[3] - 1)) \div n) * n >= p[1] * p[2]
    [] w = "vectoradd" -> (p[1] * p[2]) % n = 0
    [] OTHER -> TRUE

\* compute units per GPU as registered with the driver (DeviceProperties.CUCount)
CUPerGPU(mode, gpu, cus, sas) ==
  IF cus * sas > 0 THEN cus * sas
  ELSE CASE mode = "emu" -> 64                    \* emusystem.Builder: CUCount 64
         [] gpu = "r9nano" -> 4 * 16               \* timingconfig: numCUPerSA * numSAPerGPU
         [] gpu = "mi300a" -> 6 * 20               \* mi300a.NumCUPerShaderArray * NumShaderArray

\* one-dimensional grids whose work-group count is a simple function of the size tuple
BoundaryWorkloads == {"fir", "relu", "vectoradd", "aes"}
WGCount(w, p) ==
  CASE w = "fir" -> CeilDiv(p[1], 256)
    [] w = "relu" -> CeilDiv(p[1], 64)
    [] w = "vectoradd" -> CeilDiv(p[1] * p[2], 64)
    [] w = "aes" -> CeilDiv(p[1] \div 16, 64)
\* a size tuple with exactly t work-groups (relu: the last one partial)
SizeWithWG(w, t) ==
  CASE w = "fir" -> <<256 * t, 16>>
    [] w = "relu" -> <<64 * t - 1>>
    [] w = "vectoradd" -> <<64 * t, 1>>
    [] w = "aes" -> <<1024 * t>>

Share(n, cu, t) == cu * CeilDiv(t, n * cu)
BoundaryCounts(n, cu) ==
  {t \in 1..(n * cu + cu + 1) : \E k \in 1..n, d \in {-1, 0, 1} : t = k * Share(n, cu, t) + d}
\* work-groups the i-th GPU (1-based) of the unified device must run
ShareOf(n, cu, t, i) == LET s == Share(n, cu, t)
                            lo == (i - 1) * s
                            hi == IF i * s < t THEN i * s ELSE t
                        IN IF hi > lo THEN hi - lo ELSE 0

ASSUME \A w \in BoundaryWorkloads : \A t \in {1, 2, 65, 129, 257, MaxBoundaryWG} :
          InDom(w, SizeWithWG(w, t)) /\ WGCount(w, SizeWithWG(w, t)) = t
\* the counts at which the last work-group is alone on its GPU are boundary counts (65 = 64 + 1 on two 64-CU GPUs, ...)
ASSUME 65 \in BoundaryCounts(2, 64) /\ 129 \in BoundaryCounts(2, 64) /\ {65, 129, 193, 257} \subseteq BoundaryCounts(4, 64)
ASSUME ShareOf(2, 64, 65, 2) = 1 /\ ShareOf(2, 64, 64, 2) = 0 /\ ShareOf(4, 64, 193, 4) = 1 /\ ShareOf(4, 2, 9, 3) = 1

(***************************************************************************)
(* Kernels with dynamically sized local memory (driver.LocalPtr arguments: *)
(* the LDS size of a work-group is only known from the dispatch packet).   *)
(* On a timing platform with very few compute units several of their       *)
(* work-groups are resident on one CU at the same time and must get        *)
(* disjoint LDS windows; emulation gives every work-group a private LDS.   *)
(***************************************************************************)
LocalMemWorkloads == {"matrixtranspose", "nw", "pagerank", "stencil2d", "fft", "nbody", "matrixmultiplication"}
\* work-groups of the largest launch
LocalMemWGs(w, p) ==
  CASE w = "matrixtranspose" -> (p[1] \div 64) * (p[1] \div 64)
    [] w = "nw" -> p[1] \div 64
    [] w = "pagerank" -> p[1]
    [] w = "stencil2d" -> (p[1] \div 16) * (p[2] \div 64)
    [] w = "fft" -> p[1] \div 4096
    [] w = "nbody" -> (IF p[1] < 256 THEN 256 ELSE p[1]) \div 256
    [] w = "matrixmultiplication" -> (p[3] \div 32) * (p[2] \div 32)
\* reduced platforms on which work-groups share a compute unit: <<CUs per shader array, shader arrays>>
SharedCUPlatforms == {<<1, 1>>, <<1, 2>>}

\* SelectGPU refuses more than one GPU
SingleGPU == {"bfs", "nw", "conv2d", "im2col", "memcopy", "xor", "overlapcopy"}
\* every queue would run the whole transform on the same buffer: not a multi-GPU program
NotMultiGPU == {"fastwalshtransform"}
\* the gfx942 kernels take no global offset: only these do not depend on it in plain multi-GPU mode
\* (cases.go: "Multi-GPU support via unified GPU mode" for CDNA3)
NoOffsetSplit == {"atax", "bicg", "fft", "floydwarshall", "nbody", "pagerank", "spmv", "stencil2d", "matrixtranspose"}
NoUnifiedMem == {"xor", "concurrentkernel", "concurrentworkload", "overlapcopy", "argreuse"}

Archs(w) ==
  CASE w = "vectoradd" -> {"cdna3"}                                         \* only a gfx942 binary is shipped
    [] w \in {"xor", "memcopy", "concurrentkernel", "concurrentworkload", "overlapcopy", "argreuse"} -> {"gcn3"}
    [] OTHER -> {"gcn3", "cdna3"}

Classes == [mode : {"emu", "timing"}, gpu : {"none", "r9nano", "mi300a"}, arch : {"gcn3", "cdna3"},
            n : {1, 2, 4}, dist : {"plain", "unified"}, umem : {0, 1}]

(***************************************************************************)
(* amd/tests/acceptance/cases.go (entries that are not commented out).     *)
(***************************************************************************)
Full20 == {"atax", "bicg", "fir", "aes", "kmeans", "pagerank", "matrixmultiplication", "matrixtranspose",
           "simpleconvolution", "floydwarshall", "relu", "stencil2d", "fft", "nbody"}

Acceptance(w, c) ==
  \/ /\ w \in Full20 /\ c.arch = "gcn3" /\ c.gpu \in {"none", "r9nano"}
  \/ /\ w = "bfs" /\ c.arch = "gcn3" /\ c.gpu \in {"none", "r9nano"} /\ (c.n = 1 \/ c.dist = "unified")
  \/ /\ w = "spmv" /\ c.arch = "gcn3" /\ c.gpu \in {"none", "r9nano"} /\ c.umem = 0
  \/ /\ w = "vectoradd" /\ c.arch = "cdna3" /\ c.umem = 0
     /\ \/ c.mode = "emu" /\ c.n = 1
        \/ c.mode = "timing" /\ c.gpu = "mi300a" /\ (c.n = 1 \/ c.dist = "unified")
  \/ /\ w = "stencil2d" /\ c.arch = "cdna3" /\ c.mode = "emu" /\ c.umem = 0 /\ (c.n = 1 \/ c.dist = "unified")
  \/ /\ w \in {"bfs", "nw", "spmv", "fft"} /\ c.arch = "cdna3" /\ c.mode = "emu" /\ c.n = 1 /\ c.umem = 0

(***************************************************************************)
(* Admissibility.  Scope "acceptance": timing only where cases.go lists    *)
(* the class (C01).  Scope "all": any timing class whose platform exists   *)
(* (C02 compares the two modes on single-queue programs).                  *)
(***************************************************************************)
ClassOK(w, c) ==
  /\ c.arch \in Archs(w)
  /\ (c.dist = "unified" => c.n > 1)
  /\ (c.mode = "emu" <=> c.gpu = "none")
  /\ (c.mode = "timing" => (c.gpu = "r9nano" /\ c.arch = "gcn3") \/ (c.gpu = "mi300a" /\ c.arch = "cdna3"))
  /\ (c.umem = 1 => w \notin NoUnifiedMem)
  /\ (w = "concurrentkernel" => c.n = 1)
  /\ (w = "concurrentworkload" => c.n = 4 /\ c.dist = "plain")
  /\ (c.n > 1 /\ c.dist = "plain" =>
        /\ w \notin SingleGPU /\ w \notin NotMultiGPU
        /\ (c.arch = "cdna3" => w \in NoOffsetSplit \cup {"concurrentworkload"}))

Adm(w, p, c, scope) ==
  /\ InDom(w, p) /\ DomOK(w, p)
  /\ ClassOK(w, c)
  /\ (c.n > 1 /\ c.dist = "plain" => Div(w, p, c.n))
  /\ (c.mode = "timing" /\ scope = "acceptance" => Acceptance(w, c))

(***************************************************************************)
(* Size classes: the representatives replayed in every tier.  Each is in   *)
(* the domain (checked below); where the workload admits it one class is   *)
(* not a multiple of the work-group size / not a power of two.             *)
(***************************************************************************)
SizeClasses(w) ==
  CASE w = "aes" -> <<<<1024>>, <<1040>>, <<2112>>, <<4096>>>>
    [] w = "argreuse" -> <<<<512, 4, 14>>, <<300, 3, 4>>, <<1024, 5, 10>>>>
    [] w = "atax" -> <<<<64, 64>>, <<100, 100>>, <<256, 256>>, <<300, 300>>>>
    [] w = "bfs" -> <<<<64, 3>>, <<100, 2>>, <<1025, 3>>>>
    [] w = "bicg" -> <<<<64, 64>>, <<100, 60>>, <<257, 130>>>>
    [] w = "bitonicsort" -> <<<<64, 1>>, <<256, 1>>, <<128, 0>>, <<1024, 1>>>>
    [] w = "concurrentkernel" -> <<<<1024, 64>>, <<10240, 64>>>>
    [] w = "concurrentworkload" -> <<<<1024, 64>>, <<10240, 64>>>>
    [] w = "conv2d" -> <<<<1, 1, 8, 8, 3, 3, 3, 0, 0, 1, 1>>, <<2, 2, 9, 9, 2, 3, 3, 1, 1, 2, 2>>, <<1, 2, 12, 12, 3, 1, 1, 0, 0, 1, 1>>>>
    [] w = "fastwalshtransform" -> <<<<256>>, <<512>>, <<2048>>, <<64>>>>
    [] w = "fft" -> <<<<8192, 1>>, <<16384, 1>>, <<8192, 2>>>>
    [] w = "fir" -> <<<<1024, 16>>, <<1000, 16>>, <<2048, 8>>, <<4100, 5>>>>
    [] w = "floydwarshall" -> <<<<16, 0>>, <<24, 0>>, <<32, 5>>>>
    [] w = "im2col" -> <<<<1, 1, 8, 8, 3, 3, 0, 0, 1, 1, 1, 1>>, <<2, 2, 9, 9, 3, 3, 1, 1, 2, 2, 1, 1>>, <<1, 2, 12, 12, 3, 3, 1, 1, 1, 1, 2, 2>>>>
    [] w = "kmeans" -> <<<<128, 3, 4, 3>>, <<100, 2, 3, 2>>, <<256, 5, 8, 2>>>>
    [] w = "matrixmultiplication" -> <<<<32, 32, 32>>, <<32, 32, 64>>, <<32, 128, 32>>, <<64, 128, 32>>, <<32, 128, 64>>>>
    [] w = "matrixtranspose" -> <<<<64>>, <<128>>, <<256>>>>
    [] w = "memcopy" -> <<<<100>>, <<4096>>, <<65636>>>>
    [] w = "nbody" -> <<<<256, 1>>, <<512, 1>>, <<300, 2>>>>
    [] w = "nw" -> <<<<64>>, <<128>>>>
    [] w = "overlapcopy" -> <<<<4096, 32, 8>>, <<2048, 16, 4>>, <<4096, 48, 3>>>>
    [] w = "pagerank" -> <<<<16, 500, 2>>, <<20, 300, 3>>, <<64, 500, 2>>>>
    [] w = "relu" -> <<<<1024>>, <<1000>>, <<4100>>>>
    [] w = "simpleconvolution" -> <<<<62, 62, 3>>, <<30, 50, 3>>, <<64, 64, 5>>, <<33, 17, 1>>>>
    [] w = "spmv" -> <<<<128, 10>>, <<100, 50>>, <<256, 20>>>>
    [] w = "stencil2d" -> <<<<64, 64, 1>>, <<16, 128, 1>>, <<32, 64, 2>>>>
    [] w = "vectoradd" -> <<<<256, 1>>, <<100, 3>>, <<1024, 2>>, <<4096, 1>>>>
    [] w = "xor" -> <<<<>>>>

SeqSet(s) == {s[i] : i \in 1..Len(s)}

\* ----------------------------------------------------------------- sanity
ASSUME \A w \in Workloads : DOMAIN Names = Workloads /\ \A p \in SeqSet(SizeClasses(w)) : InDom(w, p) /\ DomOK(w, p)
\* every workload can run in emulation on one GPU with every size class
ASSUME \A w \in Workloads \ {"concurrentworkload"} : \A p \in SeqSet(SizeClasses(w)) : \E a \in Archs(w) :
          Adm(w, p, [mode |-> "emu", gpu |-> "none", arch |-> a, n |-> 1, dist |-> "plain", umem |-> 0], "acceptance")
\* every platform class of the acceptance matrix is reachable with at least one size class
AcceptanceClasses(w) == {c \in Classes : ClassOK(w, c) /\ Acceptance(w, c)}
ASSUME \A w \in Workloads : \A c \in AcceptanceClasses(w) : \E p \in SeqSet(SizeClasses(w)) : Adm(w, p, c, "acceptance")
=============================================================================
