------------------------------ MODULE SysTrace ------------------------------
(***************************************************************************)
(* System-level trace specification (DESIGN.md section 12): is the event   *)
(* log of one whole-platform run (harness/cmd/sysrun -sys-trace) a         *)
(* behaviour of the rules that tie the subsystems together?                *)
(*                                                                         *)
(*   CmdStart(q, c, kind) / CmdEnd(c)   driver command of queue q          *)
(*   Launch(g, id, c, nwg, own)         LaunchKernelReq delivered to the   *)
(*                                      command processor of GPU g for     *)
(*                                      command c; own = the flattened     *)
(*                                      work-group ids this GPU must run   *)
(*                                      (the request's filter evaluated on *)
(*                                      every id of the grid), as intervals*)
(*   MapWG(g, id, wg, m)                MapWGReq m sent to a compute unit  *)
(*   WGDone(g, ms)                      WGCompletionMsg for requests ms    *)
(*   LaunchRsp(g, id)                   LaunchKernelRsp sent to the driver *)
(*   FlushReq/FlushRsp(g), CopyReq(g, dir)/CopyRsp(g)                      *)
(*   Quiesce                            run over, engine idle              *)
(*                                                                         *)
(* Every event has an action that is enabled by the event kind alone; the  *)
(* action records in `err` the first rule the event breaks, and one        *)
(* invariant per rule makes TLC name it.  Hang / Panic lines have no       *)
(* action at all.                                                          *)
(***************************************************************************)
EXTENDS Integers, Sequences, FiniteSets, TLC, TraceLib, Json

TraceLog == ndJsonDeserialize("trace.ndjson")
N == Len(TraceLog)

VARIABLES l,        \* position in TraceLog
          running,  \* set of <<queue, command>>: the command a queue is executing
          cmd,      \* command id -> [kind, q]   (every command seen so far)
          lch,      \* launch id -> [g, c, nwg, own, mapped, ndone, open]
          pend,     \* MapWGReq id -> <<launch id, work-group id>> (mapped, not yet completed)
          clean,    \* set of GPUs whose caches were flushed after the last kernel anywhere
          flushing, \* set of GPUs with a flush in progress that started with no kernel in flight
          cfg,      \* [timing, multictx] of the run being validated
          err
vars == <<l, running, cmd, lch, pend, clean, flushing, cfg, err>>

ASSUME HWInit

Ev == TraceLog[l]
Is(e) == l <= N /\ Ev.e = e /\ l' = l + 1

Ivl(own) == UNION {own[i][1]..(own[i][2] - 1) : i \in 1..Len(own)}
IvlSize(own) == LET f[i \in 0..Len(own)] == IF i = 0 THEN 0 ELSE f[i - 1] + (own[i][2] - own[i][1]) IN f[Len(own)]
OpenLaunches == {i \in DOMAIN lch : lch[i].open}
LaunchesOf(c) == {i \in DOMAIN lch : lch[i].c = c}
SumOwn(S) == LET RECURSIVE s(_)
                 s(T) == IF T = {} THEN 0 ELSE LET i == CHOOSE i \in T : TRUE IN IvlSize(lch[i].own) + s(T \ {i})
             IN s(S)
IsLaunchKind(k) == k \in {"Launch", "LaunchUnified"}
IsCopyKind(k) == k \in {"H2D", "D2H", "D2D"}

First(tests) == LET bad == {i \in 1..Len(tests) : ~tests[i][1]}
                IN IF bad = {} THEN "ok" ELSE tests[CHOOSE i \in bad : \A j \in bad : i <= j][2]
Fail(tests) == err' = (IF err # "ok" THEN err ELSE First(tests))

Fresh == /\ running = {} /\ cmd = <<>> /\ lch = <<>> /\ pend = <<>> /\ clean = {} /\ flushing = {}
TInit == l = 1 /\ Fresh /\ cfg = [timing |-> 0, multictx |-> 0] /\ err = "ok"

TReset ==
  /\ Is("Reset")
  /\ running' = {} /\ cmd' = <<>> /\ lch' = <<>> /\ pend' = <<>> /\ clean' = {} /\ flushing' = {}
  /\ cfg' = [timing |-> Ev.timing, multictx |-> Ev.multictx]
  /\ err' = err

\* In emulation the copy commands are carried out by the magic-copy middleware within the tick that starts them
\* and no end is traced: they never occupy the queue.
Instant(k) == cfg.timing = 0 /\ IsCopyKind(k)

TCmdStart ==
  /\ Is("CmdStart")
  /\ Fail(<< <<\A r \in running : r[1] # Ev.q, "queue_runs_two_commands">>,
             <<Ev.c \notin DOMAIN cmd, "command_started_twice">> >>)
  /\ cmd' = (Ev.c :> [kind |-> Ev.kind, q |-> Ev.q]) @@ cmd
  /\ running' = IF Instant(Ev.kind) THEN running ELSE running \cup {<<Ev.q, Ev.c>>}
  /\ UNCHANGED <<lch, pend, clean, flushing, cfg>>

TCmdEnd ==
  /\ Is("CmdEnd")
  /\ LET known == Ev.c \in DOMAIN cmd
         mine == LaunchesOf(Ev.c)
         nwgs == {lch[i].nwg : i \in mine}
         covered == UNION {Ivl(lch[i].own) : i \in mine}
     IN Fail(<< <<known /\ \E r \in running : r[2] = Ev.c, "end_of_command_not_running">>,
                <<\A i \in mine : ~lch[i].open, "command_ended_with_kernel_in_flight">>,
                <<known => (IsLaunchKind(cmd[Ev.c].kind) => mine # {}), "launch_command_without_launch">>,
                <<mine # {} => Cardinality(nwgs) = 1, "launches_of_command_disagree_on_grid">>,
                \* the per-GPU shares partition the grid: every work-group id exactly once
                <<mine # {} => \A n \in nwgs : covered = 0..(n - 1), "grid_not_covered">>,
                <<mine # {} => \A n \in nwgs : SumOwn(mine) = n, "work_group_owned_twice">> >>)
  /\ running' = {r \in running : r[2] # Ev.c}
  /\ UNCHANGED <<cmd, lch, pend, clean, flushing, cfg>>

TLaunch ==
  /\ Is("Launch")
  /\ Fail(<< <<Ev.id \notin DOMAIN lch, "launch_id_reused">>,
             <<Ev.c \in DOMAIN cmd /\ IsLaunchKind(cmd[Ev.c].kind) /\ (\E r \in running : r[2] = Ev.c), "launch_outside_its_command">>,
             <<\A i \in OpenLaunches : ~(lch[i].c = Ev.c /\ lch[i].g = Ev.g), "two_launches_of_command_on_one_gpu">>,
             <<Ivl(Ev.own) \subseteq 0..(Ev.nwg - 1), "launch_share_outside_grid">>,
             <<\A i \in LaunchesOf(Ev.c) : Ivl(lch[i].own) \cap Ivl(Ev.own) = {}, "work_group_owned_twice">> >>)
  /\ lch' = (Ev.id :> [g |-> Ev.g, c |-> Ev.c, nwg |-> Ev.nwg, own |-> Ev.own, mapped |-> {}, ndone |-> 0, open |-> TRUE]) @@ lch
  /\ clean' = {} /\ flushing' = {}
  /\ UNCHANGED <<running, cmd, pend, cfg>>

TMapWG ==
  /\ Is("MapWG")
  /\ LET known == Ev.id \in DOMAIN lch IN
     /\ Fail(<< <<known /\ lch[Ev.id].open /\ lch[Ev.id].g = Ev.g, "map_outside_launch">>,
                <<known => Ev.wg \in Ivl(lch[Ev.id].own), "work_group_not_in_share_of_gpu">>,
                <<known => Ev.wg \notin lch[Ev.id].mapped, "work_group_mapped_twice">>,
                <<Ev.m \notin DOMAIN pend, "map_request_id_reused">>,
                <<Ev.nwf >= 1 /\ Ev.items >= 1 /\ Ev.items <= 64 * Ev.nwf, "work_group_wavefront_count">> >>)
     /\ lch' = IF known THEN [lch EXCEPT ![Ev.id].mapped = @ \cup {Ev.wg}] ELSE lch
     /\ pend' = (Ev.m :> <<Ev.id, Ev.wg>>) @@ pend
  /\ UNCHANGED <<running, cmd, clean, flushing, cfg>>

TWGDone ==
  /\ Is("WGDone")
  /\ LET ms == {Ev.ms[i] : i \in 1..Len(Ev.ms)}
         ok == {m \in ms : m \in DOMAIN pend}
         hit(i) == Cardinality({m \in ok : pend[m][1] = i})
     IN
     /\ Fail(<< <<ms \subseteq DOMAIN pend, "completion_of_unmapped_work_group">>,
                <<Cardinality(ms) = Len(Ev.ms), "completion_listed_twice">>,
                <<\A m \in ok : pend[m][1] \in DOMAIN lch /\ lch[pend[m][1]].open /\ lch[pend[m][1]].g = Ev.g, "completion_for_closed_launch">> >>)
     /\ lch' = [i \in DOMAIN lch |-> [lch[i] EXCEPT !.ndone = @ + hit(i)]]
     /\ pend' = [m \in DOMAIN pend \ ms |-> pend[m]]
  /\ UNCHANGED <<running, cmd, clean, flushing, cfg>>

TLaunchRsp ==
  /\ Is("LaunchRsp")
  /\ LET known == Ev.id \in DOMAIN lch IN
     /\ Fail(<< <<known /\ lch[Ev.id].open /\ lch[Ev.id].g = Ev.g, "response_without_launch">>,
                <<known => lch[Ev.id].mapped = Ivl(lch[Ev.id].own), "kernel_reported_done_before_all_work_groups_mapped">>,
                <<known => lch[Ev.id].ndone = Cardinality(lch[Ev.id].mapped)
                           /\ \A m \in DOMAIN pend : pend[m][1] # Ev.id, "kernel_reported_done_before_all_work_groups_completed">> >>)
     /\ lch' = IF known THEN [lch EXCEPT ![Ev.id].open = FALSE] ELSE lch
  /\ UNCHANGED <<running, cmd, pend, clean, flushing, cfg>>

TFlushReq ==
  /\ Is("FlushReq")
  /\ err' = err
  /\ flushing' = IF OpenLaunches = {} THEN flushing \cup {Ev.g} ELSE flushing \ {Ev.g}
  /\ UNCHANGED <<running, cmd, lch, pend, clean, cfg>>

TFlushRsp ==
  /\ Is("FlushRsp")
  /\ err' = err
  /\ clean' = IF Ev.g \in flushing THEN clean \cup {Ev.g} ELSE clean
  /\ flushing' = flushing \ {Ev.g}
  /\ UNCHANGED <<running, cmd, lch, pend, cfg>>

\* A device-to-host copy reads DRAM: the caches of that GPU must have been written back after the last kernel.
TCopyReq ==
  /\ Is("CopyReq")
  /\ Fail(<< <<(Ev.dir = "d2h" /\ cfg.multictx = 0 /\ lch # <<>>) => Ev.g \in clean, "device_to_host_copy_without_flush">> >>)
  /\ UNCHANGED <<running, cmd, lch, pend, clean, flushing, cfg>>

TCopyRsp == Is("CopyRsp") /\ err' = err /\ UNCHANGED <<running, cmd, lch, pend, clean, flushing, cfg>>

\* run over: nothing may be left in flight
TQuiesce ==
  /\ Is("Quiesce")
  /\ Fail(<< <<running = {}, "command_never_completed">>,
             <<OpenLaunches = {}, "kernel_never_completed">>,
             <<DOMAIN pend = {}, "work_group_never_completed">> >>)
  /\ UNCHANGED <<running, cmd, lch, pend, clean, flushing, cfg>>

TNext == TReset \/ TCmdStart \/ TCmdEnd \/ TLaunch \/ TMapWG \/ TWGDone \/ TLaunchRsp
         \/ TFlushReq \/ TFlushRsp \/ TCopyReq \/ TCopyRsp \/ TQuiesce
TSpec == TInit /\ [][TNext]_vars

Rules == err = "ok"

Mark == HWNote(l)
Accepted == HWReport(N)
=============================================================================
