SPECIFICATION Spec
CONSTANTS
  NGpu = 2
  Prog <- MCProgSeq
  NWG = 3
  Deviations = {"early_rsp"}
INVARIANTS ExactlyOnce AtMostOnce NoEarlyRsp NoStaleRead
PROPERTY Terminates
