----------------------------- MODULE ArgCapture -----------------------------
(***************************************************************************)
(* What Driver.EnqueueLaunchKernel promises about kernel arguments          *)
(* (amd/driver/kernel.go: prepareLocalMemory copies the caller's struct,    *)
(* the copy is what the staged host-to-device copy serialises later):       *)
(*                                                                          *)
(*   Enqueue(q)     the host enqueues launch number `next` on queue q; the  *)
(*                  driver captures the VALUE the host's argument struct    *)
(*                  holds now                                               *)
(*   HostMutate(v)  the host changes its struct (a pointer field, a scalar  *)
(*                  field) - at any time, also while launches are pending   *)
(*   Execute(q)     the engine runs the oldest pending launch of queue q    *)
(*                  with the captured value                                 *)
(*                                                                          *)
(* Invariant ExecutedArgsAreEnqueuedArgs: every executed launch ran with    *)
(* the value the struct held when it was enqueued (history `atEnq`).        *)
(* Deviation "alias": the driver keeps a reference to the caller's struct   *)
(* and reads it when the launch is staged - the seeded defect               *)
(* C18d-kernarg-struct-aliased; TLC then violates the invariant.            *)
(* The sysrun program `argreuse` is one behaviour family of this model      *)
(* (Enqueue, HostMutate, Enqueue, ..., HostMutate, then only Execute) on    *)
(* one queue and on n queues; its host reference is the invariant.          *)
(* EnqueueMemCopyH2D makes no such promise on the unchanged tree (it keeps  *)
(* the caller's slice and serialises it when the command starts), so source *)
(* slices are outside this model.                                           *)
(***************************************************************************)
EXTENDS Integers, Sequences, FiniteSets, TLC

CONSTANTS NQueue, NLaunch, Vals, Deviations
\* Vals: values of the argument struct, e.g. [ptr |-> 1..3, taps |-> {2, 5}]

Queues == 1..NQueue
VARIABLES host,      \* current value of the host's one argument struct
          pending,   \* pending[q]: sequence of [id, arg] (arg = captured value)
          next,      \* next launch number
          atEnq,     \* history: launch id -> value of the struct at enqueue
          ran        \* launch id -> value the launch executed with
vars == <<host, pending, next, atEnq, ran>>

Init == /\ host \in Vals /\ pending = [q \in Queues |-> <<>>] /\ next = 1
        /\ atEnq = <<>> /\ ran = [i \in {} |-> host]

Enqueue(q) ==
  /\ next <= NLaunch
  /\ pending' = [pending EXCEPT ![q] = Append(@, [id |-> next, arg |-> host])]
  /\ atEnq' = Append(atEnq, host)
  /\ next' = next + 1
  /\ UNCHANGED <<host, ran>>

HostMutate(v) == v # host /\ host' = v /\ UNCHANGED <<pending, next, atEnq, ran>>

Execute(q) ==
  /\ pending[q] # <<>>
  /\ LET l == Head(pending[q])
         used == IF "alias" \in Deviations THEN host ELSE l.arg
     IN ran' = (l.id :> used) @@ ran
  /\ pending' = [pending EXCEPT ![q] = Tail(@)]
  /\ UNCHANGED <<host, next, atEnq>>

Next == \/ \E q \in Queues : Enqueue(q) \/ Execute(q)
        \/ \E v \in Vals : HostMutate(v)
Spec == Init /\ [][Next]_vars

ExecutedArgsAreEnqueuedArgs == \A i \in DOMAIN ran : ran[i] = atEnq[i]
\* launches of one queue run in enqueue order
FIFO == \A q \in Queues : \A i, j \in 1..Len(pending[q]) : i < j => pending[q][i].id < pending[q][j].id
=============================================================================
