SPECIFICATION Spec
CONSTANT Scope = "acceptance"
INVARIANT GenInDom
CHECK_DEADLOCK FALSE
