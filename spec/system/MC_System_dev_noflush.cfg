SPECIFICATION Spec
CONSTANTS
  NGpu = 2
  Prog <- MCProgSeq
  NWG = 3
  Deviations = {"no_flush"}
INVARIANTS ExactlyOnce AtMostOnce NoEarlyRsp NoStaleRead
PROPERTY Terminates
