SPECIFICATION Spec
CONSTANTS
  NGpu = 3
  Prog <- MCProgSeq
  NWG = 4
  Deviations = {}
INVARIANTS ExactlyOnce AtMostOnce NoEarlyRsp NoStaleRead
PROPERTY Terminates
