SPECIFICATION Spec
CONSTANTS
  NQueue = 2
  NLaunch = 3
  Vals <- MCVals
  Deviations = {}
INVARIANTS ExecutedArgsAreEnqueuedArgs FIFO
CHECK_DEADLOCK FALSE
