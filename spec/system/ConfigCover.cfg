INIT Init
NEXT Next
CONSTANTS
  Rot = 1
  Scope = "acceptance"
