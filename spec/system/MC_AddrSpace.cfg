SPECIFICATION Spec
CONSTANTS
  NCtx = 2
  NCU = 2
  NPages = 2
  Deviations = {}
INVARIANT Isolation
CHECK_DEADLOCK FALSE
