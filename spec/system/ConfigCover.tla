----------------------------- MODULE ConfigCover -----------------------------
(***************************************************************************)
(* Covering sets over Config, exported as ndjson case lists for the Go     *)
(* driver.  Rot rotates which size class / architecture / memory mode is   *)
(* paired with which platform class (the check passes its seed).           *)
(*                                                                         *)
(*   Full(scope)    every admissible (workload, size class, class)         *)
(*   Cover(scope)   every workload x every admissible platform class, one  *)
(*                  size class each (rotating) - TLC checks that every     *)
(*                  size class of every workload still occurs              *)
(*   Quick(scope)   every workload x every GPU arrangement (n, dist) in    *)
(*                  emulation with rotating (arch, umem, size); in timing  *)
(*                  the single-GPU class plus one rotating multi-GPU class *)
(***************************************************************************)
EXTENDS Config, Json, SequencesExt
CONSTANTS Rot, Scope
VARIABLE x

WorkloadSeq == <<"aes", "argreuse", "atax", "bfs", "bicg", "bitonicsort", "concurrentkernel", "concurrentworkload", "conv2d",
                "fastwalshtransform", "fft", "fir", "floydwarshall", "im2col", "kmeans", "matrixmultiplication",
                "matrixtranspose", "memcopy", "nbody", "nw", "overlapcopy", "pagerank", "relu", "simpleconvolution", "spmv",
                "stencil2d", "vectoradd", "xor">>
ASSUME SeqSet(WorkloadSeq) = Workloads
WIdx(w) == CHOOSE i \in 1..Len(WorkloadSeq) : WorkloadSeq[i] = w

Code(c) == (IF c.mode = "emu" THEN 0 ELSE 1000) + (IF c.dist = "plain" THEN 0 ELSE 400) + c.n * 10
           + (IF c.arch = "gcn3" THEN 0 ELSE 100) + c.umem + (IF c.gpu = "mi300a" THEN 200 ELSE 0)
Kth(S, k) == CHOOSE c \in S : Cardinality({d \in S : Code(d) < Code(c)}) = k % Cardinality(S)

OKClasses(w) == {c \in Classes : ClassOK(w, c)}
AdmClasses(w) == {c \in OKClasses(w) : \E p \in SeqSet(SizeClasses(w)) : Adm(w, p, c, Scope)}
CIdx(w, c) == Cardinality({d \in AdmClasses(w) : Code(d) < Code(c)})

\* first admissible size class at or after rotation offset k
PickSize(w, c, k) ==
  LET S == SizeClasses(w)
      n == Len(S)
      ok == {i \in 0..(n - 1) : Adm(w, S[((k + i) % n) + 1], c, Scope)}
      m == CHOOSE i \in ok : \A j \in ok : i <= j
  IN S[((k + m) % n) + 1]

Case(w, p, c) == [w |-> w, names |-> Names[w], p |-> p, c |-> c]

FullAdm == UNION {{k \in {Case(w, p, c) : p \in SeqSet(SizeClasses(w)), c \in OKClasses(w)} : Adm(k.w, k.p, k.c, Scope)} : w \in Workloads}

Rotated == UNION {{Case(w, PickSize(w, c, WIdx(w) + CIdx(w, c) + Rot), c) : c \in AdmClasses(w)} : w \in Workloads}
\* every size class at least once, in the cheapest class that admits it
BaseClasses(w, p) == {c \in AdmClasses(w) : c.mode = "emu" /\ c.umem = 0 /\ Adm(w, p, c, Scope)}
Base == UNION {{Case(w, p, Kth(BaseClasses(w, p), 0)) : p \in {q \in SeqSet(SizeClasses(w)) : BaseClasses(w, q) # {}}} : w \in Workloads}
Cover == Rotated \cup Base

Arrangements == {<<1, "plain">>, <<2, "plain">>, <<4, "plain">>, <<2, "unified">>, <<4, "unified">>}
QuickClasses(w) ==
  LET E(a) == {c \in AdmClasses(w) : c.mode = "emu" /\ c.n = a[1] /\ c.dist = a[2]}
      T1 == {c \in AdmClasses(w) : c.mode = "timing" /\ c.n = 1 /\ c.umem = 0}
      TM == {c \in AdmClasses(w) : c.mode = "timing" /\ ~(c.n = 1 /\ c.umem = 0)}
  IN UNION {IF E(a) = {} THEN {} ELSE {Kth(E(a), WIdx(w) + Rot + a[1])} : a \in Arrangements}
     \cup T1 \cup (IF TM = {} THEN {} ELSE {Kth(TM, WIdx(w) + Rot)})
Quick == UNION {{Case(w, PickSize(w, c, WIdx(w) + CIdx(w, c) + Rot), c) : c \in QuickClasses(w)} : w \in Workloads}

\* the rotation does not starve a size class: each occurs in Cover in some class
ASSUME \A w \in Workloads : \A p \in SeqSet(SizeClasses(w)) :
         (\E c \in Classes : Adm(w, p, c, Scope)) => \E k \in Cover : k.w = w /\ k.p = p
\* quick still touches every workload in both modes where timing is admissible, and every arrangement
ASSUME \A w \in Workloads : (\E k \in Quick : k.w = w /\ k.c.mode = "emu")
ASSUME \A w \in Workloads : (\E c \in AdmClasses(w) : c.mode = "timing") => \E k \in Quick : k.w = w /\ k.c.mode = "timing"
ASSUME Quick \subseteq Rotated /\ Rotated \subseteq Cover /\ Cover \subseteq FullAdm

ASSUME ndJsonSerialize("quick.ndjson", SetToSeq(Quick))
ASSUME ndJsonSerialize("cover.ndjson", SetToSeq(Cover))
ASSUME ndJsonSerialize("full.ndjson", SetToSeq(FullAdm))
ASSUME PrintT(<<"COUNTS", Cardinality(Quick), Cardinality(Cover), Cardinality(FullAdm)>>)

(***************************************************************************)
(* Unified-device runs at the share boundaries of distributeWGToGPUs       *)
(* (Config.BoundaryCounts): for every platform kind the work-group counts  *)
(* k*share-1, k*share, k*share+1 derived from its CU count, realised by    *)
(* the one-dimensional workloads whose work-group count is a function of   *)
(* the size.  BoundaryQuick keeps every (platform, n, count) with one      *)
(* workload in rotation; stock timing platforms only around the first      *)
(* boundary on two GPUs (they are expensive to build).                     *)
(***************************************************************************)
BPlatforms == {[mode |-> "emu", gpu |-> "none", cus |-> 0, sas |-> 0],
               [mode |-> "timing", gpu |-> "r9nano", cus |-> 1, sas |-> 2],
               [mode |-> "timing", gpu |-> "mi300a", cus |-> 1, sas |-> 2],
               [mode |-> "timing", gpu |-> "r9nano", cus |-> 0, sas |-> 0],
               [mode |-> "timing", gpu |-> "mi300a", cus |-> 0, sas |-> 0]}
BCU(pl) == CUPerGPU(pl.mode, pl.gpu, pl.cus, pl.sas)
BArchs(w, pl) == IF pl.gpu = "r9nano" THEN Archs(w) \cap {"gcn3"}
                 ELSE IF pl.gpu = "mi300a" THEN Archs(w) \cap {"cdna3"}
                 ELSE Archs(w)
BClass(pl, a, n) == [mode |-> pl.mode, gpu |-> pl.gpu, arch |-> a, n |-> n, dist |-> "unified", umem |-> 0]
BCounts(pl, n) == IF pl.mode = "timing" /\ pl.cus = 0
                  THEN {t \in BoundaryCounts(n, BCU(pl)) : n = 2 /\ t <= BCU(pl) + 1 /\ t >= BCU(pl) - 1}
                  ELSE BoundaryCounts(n, BCU(pl))
BCase(w, a, pl, n, t) ==
  [w |-> w, names |-> Names[w], p |-> SizeWithWG(w, t), c |-> BClass(pl, a, n),
   knobs |-> IF pl.cus > 0 THEN "cus=1,sas=2" ELSE "", cu |-> BCU(pl), wgs |-> t,
   last_gpu_share |-> ShareOf(n, BCU(pl), t, n), boundary |-> TRUE]
BWorkloadSeq == <<"aes", "fir", "relu", "vectoradd">>
BoundaryAll ==
  UNION {UNION {UNION {{BCase(w, a, pl, n, t) : t \in {u \in BCounts(pl, n) : Adm(w, SizeWithWG(w, u), BClass(pl, a, n), Scope)}}
                        : a \in BArchs(w, pl)} : n \in {2, 4}} : w \in BoundaryWorkloads, pl \in BPlatforms}
\* one workload per (platform, architecture family, n, count), in rotation
BEligible(pl, n, t) == {k \in BoundaryAll : k.c.mode = pl.mode /\ k.c.gpu = pl.gpu /\ k.cu = BCU(pl) /\ k.c.n = n /\ k.wgs = t
                                               \* the quick tier realises large counts with the workloads that have 64 elements per work-group
                                               /\ (t > 129 => k.w \in {"relu", "vectoradd"})}
BKey(k) == (CHOOSE i \in 1..4 : BWorkloadSeq[i] = k.w) * 2 + (IF k.c.arch = "gcn3" THEN 0 ELSE 1)
BPick(S, r) == CHOOSE k \in S : Cardinality({j \in S : BKey(j) < BKey(k)}) = r % Cardinality(S)
BoundaryQuick ==
  UNION {UNION {{BPick(BEligible(pl, n, t), t + n + Rot) : t \in {u \in BCounts(pl, n) : BEligible(pl, n, u) # {}}}
                : n \in {2, 4}} : pl \in BPlatforms}

ASSUME SeqSet(BWorkloadSeq) = BoundaryWorkloads
ASSUME BoundaryQuick \subseteq BoundaryAll
\* every boundary count of every platform kind is run in the quick tier, in particular the counts at which the last
\* work-group is alone on its GPU
ASSUME \A pl \in BPlatforms, n \in {2, 4} : \A t \in BCounts(pl, n) :
          BEligible(pl, n, t) # {} => \E k \in BoundaryQuick : k.cu = BCU(pl) /\ k.c.mode = pl.mode /\ k.c.n = n /\ k.wgs = t
ASSUME \E k \in BoundaryQuick : k.c.mode = "emu" /\ k.c.n = 2 /\ k.wgs = 65 /\ k.last_gpu_share = 1
ASSUME \E k \in BoundaryQuick : k.c.mode = "emu" /\ k.c.n = 4 /\ k.wgs = 193 /\ k.last_gpu_share = 1
ASSUME \E k \in BoundaryQuick : k.c.mode = "emu" /\ k.c.n = 2 /\ k.wgs = 64 /\ k.last_gpu_share = 0

ASSUME ndJsonSerialize("boundary_quick.ndjson", SetToSeq(BoundaryQuick))
ASSUME ndJsonSerialize("boundary_all.ndjson", SetToSeq(BoundaryAll))
ASSUME PrintT(<<"BOUNDARY", Cardinality(BoundaryQuick), Cardinality(BoundaryAll)>>)

(***************************************************************************)
(* Work-groups sharing a compute unit: every local-memory workload with at *)
(* least two work-groups on the reduced timing platforms                   *)
(* (Config.SharedCUPlatforms).  Quick: matrixtranspose (rotating size      *)
(* class) and one more workload in rotation on the single-CU platform.     *)
(***************************************************************************)
SCase(w, p, a, pl) ==
  [w |-> w, names |-> Names[w], p |-> p,
   c |-> [mode |-> "timing", gpu |-> IF a = "gcn3" THEN "r9nano" ELSE "mi300a", arch |-> a, n |-> 1, dist |-> "plain", umem |-> 0],
   knobs |-> IF pl = <<1, 1>> THEN "cus=1,sas=1" ELSE "cus=1,sas=2", shared_cu |-> TRUE, wgs |-> LocalMemWGs(w, p)]
SharedCUAll ==
  UNION {{SCase(w, p, a, pl) : p \in {q \in SeqSet(SizeClasses(w)) : LocalMemWGs(w, q) >= 2}, a \in Archs(w), pl \in SharedCUPlatforms}
         : w \in LocalMemWorkloads}
SOne == {k \in SharedCUAll : k.knobs = "cus=1,sas=1" /\ k.c.arch = "gcn3"}
SharedCUQuick ==
  LET MT == {k \in SOne : k.w = "matrixtranspose"}
      Rest == {k \in SOne : k.w \in {"nw", "pagerank", "stencil2d", "nbody"}}
  IN {CHOOSE k \in MT : \A j \in MT : (k.wgs + Rot) % 3 <= (j.wgs + Rot) % 3 \/ k = j}
     \cup {CHOOSE k \in Rest : \A j \in Rest : ((WIdx(k.w) + Rot) % 5) * 1000 + k.wgs <= ((WIdx(j.w) + Rot) % 5) * 1000 + j.wgs}
ASSUME \E k \in SharedCUQuick : k.w = "matrixtranspose" /\ k.wgs >= 2 /\ k.c.arch = "gcn3"
ASSUME SharedCUQuick \subseteq SharedCUAll
ASSUME ndJsonSerialize("sharedcu_quick.ndjson", SetToSeq(SharedCUQuick))
ASSUME ndJsonSerialize("sharedcu_all.ndjson", SetToSeq(SharedCUAll))
ASSUME PrintT(<<"SHAREDCU", Cardinality(SharedCUQuick), Cardinality(SharedCUAll)>>)

(***************************************************************************)
(* Emulation on the parallel engine (-parallel; every acceptance case of   *)
(* cases.go exists in a parallel variant): work-groups of one kernel run   *)
(* on different emulated CUs in different goroutines, so per-work-group    *)
(* state (LDS) must not be shared between CUs.  Local-memory workloads     *)
(* with at least two work-groups, each repeated (a race need not show in   *)
(* one run).  Quick: stencil2d and pagerank (gcn3), the size class with    *)
(* the most work-groups, three repetitions.                                *)
(***************************************************************************)
PCase(w, p, a, r) ==
  [w |-> w, names |-> Names[w], p |-> p,
   c |-> [mode |-> "emu", gpu |-> "none", arch |-> a, n |-> 1, dist |-> "plain", umem |-> 0],
   parallel |-> TRUE, rep |-> r, wgs |-> LocalMemWGs(w, p)]
ParallelAll ==
  UNION {{PCase(w, p, a, r) : p \in {q \in SeqSet(SizeClasses(w)) : LocalMemWGs(w, q) >= 2}, a \in Archs(w), r \in 1..3}
         : w \in LocalMemWorkloads}
MostWGs(w) == CHOOSE p \in SeqSet(SizeClasses(w)) : \A q \in SeqSet(SizeClasses(w)) : LocalMemWGs(w, q) <= LocalMemWGs(w, p)
ParallelQuick == {PCase(w, MostWGs(w), "gcn3", r) : w \in {"stencil2d", "pagerank"}, r \in 1..3}
ASSUME ParallelQuick \subseteq ParallelAll
ASSUME ndJsonSerialize("parallel_quick.ndjson", SetToSeq(ParallelQuick))
ASSUME ndJsonSerialize("parallel_all.ndjson", SetToSeq(ParallelAll))
ASSUME PrintT(<<"PARALLEL", Cardinality(ParallelQuick), Cardinality(ParallelAll)>>)

(***************************************************************************)
(* Two instances of one workload in two driver contexts (two PIDs) on one  *)
(* GPU, same sizes: identical allocation histories, so both address spaces *)
(* use the same virtual addresses (sysrun program `twins`, model            *)
(* AddrSpace.tla).  The size is derived from the CU count of the platform  *)
(* so that the dispatches of both instances wrap around the compute units  *)
(* (work-groups per instance = CUs + 1; matrixtranspose: the smallest      *)
(* square grid with at least as many work-groups as CUs): a CU that ran a  *)
(* work-group of instance A then runs one of instance B.  Sequentially and  *)
(* concurrently (two application goroutines), emulation (64 CUs) and the   *)
(* small timing platforms (2 CUs).                                         *)
(***************************************************************************)
TwinNames == <<"which", "size", "conc">>
TwinWhich == [fir |-> 1, relu |-> 2, matrixtranspose |-> 3, vectoradd |-> 4]
TwinSize(w, cu) ==
  CASE w = "fir" -> 256 * (cu + 1)
    [] w = "relu" -> 64 * (cu + 1) - 1
    [] w = "vectoradd" -> 64 * (cu + 1)
    [] w = "matrixtranspose" -> 64 * (CHOOSE k \in 1..16 : k * k >= cu /\ \A j \in 1..16 : j * j >= cu => k <= j)
TwinPlatforms == {pl \in BPlatforms : pl.mode = "emu" \/ pl.cus > 0}
TCase(w, a, pl, conc) ==
  [w |-> "twins", names |-> TwinNames, p |-> <<TwinWhich[w], TwinSize(w, BCU(pl)), conc>>,
   c |-> [mode |-> pl.mode, gpu |-> pl.gpu, arch |-> a, n |-> 1, dist |-> "plain", umem |-> 0],
   knobs |-> IF pl.cus > 0 THEN "cus=1,sas=2" ELSE "", twins |-> w, host_concurrent |-> (conc = 1), cu |-> BCU(pl)]
TwinsAll == UNION {{TCase(w, a, pl, conc) : a \in BArchs(w, pl), conc \in {0, 1}}
                   : w \in {"fir", "relu", "matrixtranspose", "vectoradd"}, pl \in TwinPlatforms}
ASSUME \A k \in TwinsAll : k.p[2] >= 64
ASSUME \E k \in TwinsAll : k.twins = "fir" /\ k.c.mode = "emu" /\ k.p[2] = 256 * 65
ASSUME ndJsonSerialize("twins_all.ndjson", SetToSeq(TwinsAll))
ASSUME PrintT(<<"TWINS", Cardinality(TwinsAll)>>)

Init == x = 0
Next == UNCHANGED x
=============================================================================
