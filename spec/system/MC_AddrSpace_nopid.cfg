SPECIFICATION Spec
CONSTANTS
  NCtx = 2
  NCU = 2
  NPages = 2
  Deviations = {"cache_without_pid"}
INVARIANT Isolation
CHECK_DEADLOCK FALSE
