---------------------------- MODULE MC_DecodeSeq ----------------------------
EXTENDS DecodeSeq
\* one or two descriptions per format and size class (4 bytes, 4 + literal, SDWA, 8 bytes),
\* obtained by decoding hand-assembled field values
D(fm, fv, x) == Decode(AsmFields(fm, fv, x), CDNA3)
Lit == <<4660, 22136>>
MCDescs == {
  D("sop2", [ssrc0 |-> 1, ssrc1 |-> 2, sdst |-> 3, op |-> 0], <<0, 0>>),
  D("sop2", [ssrc0 |-> 255, ssrc1 |-> 2, sdst |-> 106, op |-> 13], Lit),
  D("sopk", [simm16 |-> 4660, sdst |-> 5, op |-> 0], <<0, 0>>),
  D("sop1", [ssrc0 |-> 255, sdst |-> 4, op |-> 0], Lit),
  D("sopc", [ssrc0 |-> 1, ssrc1 |-> 129, op |-> 0], <<0, 0>>),
  D("sopp", [simm16 |-> 3952, op |-> 12], <<0, 0>>),
  D("sopp", [simm16 |-> 0, op |-> 1], <<0, 0>>),
  D("smem", [sbase |-> 2, sdata |-> 8, glc |-> 0, imm |-> 1, offset |-> 16, op |-> 1], <<0, 0>>),
  D("vop2", [src0 |-> 257, vsrc1 |-> 2, vdst |-> 3, op |-> 1], <<0, 0>>),
  D("vop2", [src0 |-> 255, vsrc1 |-> 2, vdst |-> 3, op |-> 1], Lit),
  D("vop2", [src0 |-> 257, vsrc1 |-> 2, vdst |-> 3, op |-> 24], Lit),
  D("vop2", [src0 |-> 249, vsrc1 |-> 2, vdst |-> 3, op |-> 52], <<1541, 1537>>),
  D("vop1", [src0 |-> 128, vdst |-> 3, op |-> 1], <<0, 0>>),
  D("vopc", [src0 |-> 255, vsrc1 |-> 2, op |-> 202], Lit),
  D("vop3a", [vdst |-> 3, abs |-> 1, opsel |-> 0, clamp |-> 0, src0 |-> 257, src1 |-> 258, src2 |-> 259,
              omod |-> 0, neg |-> 2, op |-> 449], <<0, 0>>),
  D("vop3b", [vdst |-> 3, sdst |-> 106, clamp |-> 0, src0 |-> 257, src1 |-> 258, src2 |-> 106,
              omod |-> 0, neg |-> 0, op |-> 284], <<0, 0>>),
  D("ds", [offset0 |-> 16, offset1 |-> 1, gds |-> 0, addr |-> 1, data0 |-> 2, data1 |-> 0, vdst |-> 0, op |-> 13], <<0, 0>>),
  D("flat", [offset |-> 8188, glc |-> 1, slc |-> 0, tfe |-> 0, addr |-> 2, data |-> 0, saddr |-> 127, vdst |-> 5,
             op |-> 20], <<0, 0>>) }
ASSUME \A d \in MCDescs : d.k = "inst"
=============================================================================
