SPECIFICATION TSpec
CONSTANTS
  Deviations = {}
CONSTRAINT Mark
POSTCONDITION Accepted
CHECK_DEADLOCK FALSE
