---------------------------- MODULE DecodeTrace ----------------------------
(***************************************************************************)
(* Trace specification for C04: every line of the driver's log is one call *)
(* of the real insts.Disassembler.Decode (self-contained: mode, bytes,      *)
(* canonicalised outcome) and must be what Decode.tla says:                 *)
(*   Dec    stand-alone call: outcome = Decode(b); two independent decoder  *)
(*          instances agreed (ag); re-decoding b[:size] and b[:size]++junk  *)
(*          gave the same instruction (sx); when the bytes came from        *)
(*          Encode(d) of a TLC behaviour, outcome = d (want)                *)
(*   KStart/KDec/KEnd  sequential decoding of a program (a shipped kernel   *)
(*          or a TLC-assembled program): KDec happens at the spec's pc, pc   *)
(*          advances by the size, KEnd only when pc = length of the code     *)
(*   Reset  start of the next sub-trace                                     *)
(*                                                                         *)
(* Deviations: named as-implemented departures from the property.  A line   *)
(* that the strict rules refuse but a deviation in the configured set       *)
(* explains is accepted and reported (PrintT "DEVIATION"); the check turns   *)
(* every such report into a known finding or a violation.  A line nothing    *)
(* explains stops the trace (high-water mark).                               *)
(***************************************************************************)
EXTENDS Decode, TraceLib, Json

CONSTANT Deviations

TraceLog == ndJsonDeserialize("trace.ndjson")
N == Len(TraceLog)

VARIABLES l,      \* position in TraceLog
          mode,   \* "idle" | "seq" | "aborted"
          pc,     \* sequential decoding: offset of the next instruction
          klen    \* sequential decoding: length of the code
tvars == <<l, mode, pc, klen>>

ASSUME HWInit

Ev == TraceLog[l]
Is(e) == l <= N /\ Ev.e = e /\ l' = l + 1

\* ----------------------------------------------- comparing outcome and spec
Got(r) == IF r.k = "panic" THEN "panic_" \o r.pk ELSE r.k
Why(E) == IF E.k = "und" THEN E.why ELSE "inst"
GDS == 15   \* position of the GDS flag in the modifier tuple
DST == 4    \* position of the destination in the operand tuple

\* two descriptions are the same instruction
SameDesc(a, b) ==
  /\ a.k = "inst" /\ b.k = "inst"
  /\ a.f = b.f /\ a.op = b.op /\ a.nm = b.nm /\ a.eu = b.eu /\ a.sz = b.sz /\ a.o = b.o /\ a.m = b.m

\* The set of named deviations needed to explain outcome r of a line against the
\* spec's answer E; {} = conforms; "reject" = nothing explains it.
InstDevs(rec, E) ==
  LET r == rec.r IN
  IF ~(r.f = E.f /\ r.op = E.op /\ r.nm = E.nm /\ r.eu = E.eu /\ Len(r.m) = Len(E.m) /\ Len(r.o) = Len(E.o))
  THEN {"reject"}
  ELSE
    LET szd  == IF r.sz = E.sz THEN {}
                \* as implemented: every operand of code 255 (and the K of v_madmk/v_madak) adds 4 bytes
                ELSE IF E.sz = 8 /\ r.sz = 12 /\ Cardinality({i \in 1..3 : E.o[i][1] = "lit"}) >= 2
                     THEN {"literal_twice"} ELSE {"reject"}
        gdsd == IF r.m[GDS] = E.m[GDS] THEN {}
                \* as implemented: extractBit(w, 16) = w & 16, i.e. bit 4 of offset0
                ELSE IF E.f = "ds" /\ r.m[GDS] = (E.m[7] \div 16) % 2 THEN {"ds_gds_bit4"} ELSE {"reject"}
        md   == IF \A i \in 1..Len(E.m) : i # GDS => r.m[i] = E.m[i] THEN {} ELSE {"reject"}
        dstd == IF r.o[DST] = E.o[DST] THEN {}
                \* as implemented: DSTWidth = 0 in decodetable.go for these DS reads
                ELSE IF E.f = "ds" /\ E.op \in {56, 57, 58, 59, 60, 120, 254} /\ r.o[DST] = None
                     THEN {"ds_read_no_dst"} ELSE {"reject"}
        \* as implemented: a scalar register named by index is looked up as Regs[S0+index],
        \* which is some other (or no) register once index > 101
        lin(i) == /\ (E.f = "smem" /\ i \in {9, 10}) \/ (E.f = "vop2" /\ E.m[18] = 1 /\ i \in {1, 2})
                  /\ E.o[i][1] = "reg" /\ E.o[i][2] >= 102 /\ E.o[i][2] <= 127
                  /\ r.o[i][1] \in {"reg", "nilreg"} /\ r.o[i][3] = E.o[i][3]
        od   == IF \A i \in 1..Len(E.o) : i # DST => r.o[i] = E.o[i] THEN {}
                ELSE IF \A i \in 1..Len(E.o) : (i # DST /\ r.o[i] # E.o[i]) => lin(i) THEN {"sreg_linear"}
                ELSE {"reject"}
        \* InstPrinter.Print must accept every decoded instruction
        prd  == IF dstd # {} \/ od # {} THEN {}      \* a deviating operand prints differently
                ELSE IF r.pr = 1 /\ (Disasm(E) = Unprintable \/ r.ps = Disasm(E)) THEN {} ELSE {"reject"}
        \* b[:size] and b[:size] ++ junk decode to the same instruction
        sxd  == IF ~Has(rec, "sx") \/ rec.sx = 1 THEN {}
                ELSE IF szd = {"literal_twice"} /\ r.sz > Len(rec.b) THEN {} ELSE {"reject"}
    IN szd \cup gdsd \cup md \cup dstd \cup od \cup prd \cup sxd

UndDevs(rec, E) ==
  LET r == rec.r
      g == Got(r)
  IN IF r.k = "err" \/ (E.ni /\ g = "panic_notimpl") THEN {}     \* reported as undecodable
     ELSE CASE E.why = "short" /\ g = "panic_bounds"   -> {"short_panic"}
            [] E.why = "operand" /\ g = "panic_nil"    -> {"operand_panic"}
            [] E.why = "operand" /\ g = "inst" /\ (\E i \in 1..Len(r.o) : r.o[i][1] = "none")
                                                       -> {"operand_inst"}
            [] E.why = "sdwa_k" /\ g = "inst" /\ r.sz = 12  -> {"sdwa_k_inst"}
            [] E.why = "sdwa_sel" /\ g = "inst"        -> {"sdwa_sel_inst"}
            [] E.why = "operand" /\ g = "inst" /\ r.f \in {"smem", "vop2"}
                                                       -> {"sreg_linear"}
            [] E.why = "sreg_range" /\ g = "inst"      -> {"sreg_range_inst"}
            [] E.why = "vop3_lit" /\ g = "inst"        -> {"vop3_lit_inst"}
            [] OTHER                                   -> {"reject"}

\* when the bytes came from Encode(d) of a TLC behaviour, the spec's answer is d
WantOK(rec, E) == Has(rec, "want") => SameDesc(rec.want, E)

Devs(rec, E) ==
  LET D == IF rec.ag # 1 \/ ~WantOK(rec, E) THEN {"reject"}       \* decoder instances must agree
           ELSE IF E.k = "und" THEN UndDevs(rec, E)
           ELSE IF rec.r.k = "inst" THEN InstDevs(rec, E)
           ELSE {"reject"}
  IN IF "reject" \in D /\ "explore" \in Deviations THEN {"explore"} ELSE D

\* a line is accepted iff every deviation it needs is a configured one; each use is reported
Accept(rec, E) ==
  LET D == Devs(rec, E) IN
  /\ D \subseteq Deviations
  /\ \A d \in D : PrintT(<<"DEVIATION", l, d, Why(E), Got(rec.r), IF E.k = "inst" THEN E.f ELSE "-">>)
  /\ ("explore" \in D => PrintT(<<"EXPECTED", l, [e |-> E, text |-> IF E.k = "inst" THEN Disasm(E) ELSE ""]>>))

\* ------------------------------------------------------------------ actions
TInit == l = 1 /\ mode = "idle" /\ pc = 0 /\ klen = 0

TDec ==
  /\ Is("Dec") /\ mode = "idle"
  /\ Accept(Ev, Decode(Ev.b, Ev.c = 1))
  /\ UNCHANGED <<mode, pc, klen>>

TKStart ==
  /\ Is("KStart") /\ mode = "idle"
  /\ mode' = "seq" /\ pc' = 0 /\ klen' = Ev.len

TKDec ==
  /\ Is("KDec") /\ mode = "seq" /\ Ev.pc = pc /\ pc < klen
  /\ LET E == Decode(Ev.b, Ev.c = 1)
     IN /\ Accept(Ev, E)
        /\ IF Ev.r.k = "inst" /\ E.k = "inst"
           THEN /\ pc' = pc + E.sz /\ pc' <= klen                  \* sizes tile the code
                /\ UNCHANGED <<mode, klen>>
           ELSE \* the program contains something the decoder does not support:
                \* sequential decoding cannot consume the code
                /\ "seq_undecodable" \in Deviations
                /\ PrintT(<<"DEVIATION", l, "seq_undecodable", Why(E), Got(Ev.r), "-">>)
                /\ mode' = "aborted" /\ UNCHANGED <<pc, klen>>

TKEnd ==
  /\ Is("KEnd") /\ mode = "seq" /\ Ev.pc = pc /\ pc = klen
  /\ mode' = "idle" /\ UNCHANGED <<pc, klen>>

TReset ==
  /\ Is("Reset") /\ mode \in {"idle", "aborted"}
  /\ mode' = "idle" /\ pc' = 0 /\ klen' = 0

TNext == TDec \/ TKStart \/ TKDec \/ TKEnd \/ TReset
TSpec == TInit /\ [][TNext]_tvars

Mark == HWNote(l)
Accepted == HWReport(N)
=============================================================================
