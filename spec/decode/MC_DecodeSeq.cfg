SPECIFICATION Spec
CONSTANTS
  Descs <- MCDescs
  MaxProg = 2
  CDNA3 = FALSE
INVARIANTS Tiling NeverStuck PartialFetch
PROPERTY Consumed
CHECK_DEADLOCK FALSE
