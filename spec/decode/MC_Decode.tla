----------------------------- MODULE MC_Decode -----------------------------
(***************************************************************************)
(* Exhaustive check of the decode/encode functions over a structured word   *)
(* space: every table row with a few operand fields, a few rows with every  *)
(* interesting operand code (boundaries of each class of the operand-code   *)
(* map, reserved codes, literal, SDWA, DPP), literal / SDWA dwords, both    *)
(* FLAT addressing modes, words of no format.  One initial state per word   *)
(* (format, field values, second dword, mode); the invariants - evaluated   *)
(* once the word has been handed to the decoder - are the property:         *)
(*   Total       Decode answers "inst" or "und" for every word and prefix   *)
(*   RoundTrip   Decode(Encode(d)) = d and |Encode(d)| = size               *)
(*   Sized       a result never claims more bytes than the buffer holds     *)
(*   Suffix      bytes beyond the reported size do not influence the result *)
(*   Prefix      a prefix that still decodes gives the same instruction     *)
(***************************************************************************)
EXTENDS Decode, TLC

CONSTANT Wide        \* TRUE: larger operand samples (thorough tier)

VARIABLES f,         \* format the word is assembled for ("raw": x is the whole first dword)
          fv,        \* field values
          x,         \* second dword of a 4-byte format (literal / SDWA dword / junk)
          c,         \* CDNA3 mode
          st         \* "new" | "done"
vars == <<f, fv, x, c, st>>

\* ------------------------------------------------------------ operand samples
S8   == {0, 1, 101, 102, 106, 107, 111, 112, 122, 124, 126, 127, 128, 192, 193, 208, 240, 248, 251, 253, 255}
S8r  == {123, 125, 209, 239, 249, 250, 254}                 \* reserved 8-bit codes
S9   == S8 \cup {256, 300, 511}
S8t  == {5, 255, 123}                                       \* tiny: a register, the literal, a reserved code
S9t  == {5, 255, 300, 250}
D7   == {0, 101, 106, 124, 127, 123}
V8   == {0, 7, 255}
X1   == {<<0, 0>>, <<4660, 22136>>, <<65535, 65535>>}       \* literal dwords
X1t  == {<<4660, 22136>>}
Z    == {<<0, 0>>}

\* all one-field-at-a-time variations of a base record, plus the base
Vary(base, alts) == {base} \cup UNION {{[base EXCEPT ![k] = v] : v \in alts[k]} : k \in DOMAIN alts}

\* SDWA dwords: selectors (incl. reserved 7 / 3), unsupported modifier bits, scalar-source bits
SdwaBase == [src0 |-> 9, dst_sel |-> 6, dst_u |-> 0, clamp |-> 0, src0_sel |-> 5, src0_sext |-> 0, src0_neg |-> 0,
             src0_abs |-> 0, src1_sel |-> 6, src1_sext |-> 0, src1_neg |-> 0, src1_abs |-> 0, s0 |-> 0, s1 |-> 0]
SdwaFV == Vary(SdwaBase, [src0 |-> {0, 255}, dst_sel |-> {0, 7}, dst_u |-> {1, 2, 3}, clamp |-> {1},
                          src0_sel |-> {0, 7}, src0_sext |-> {1}, src0_neg |-> {1}, src0_abs |-> {1},
                          src1_sel |-> {3, 7}, src1_sext |-> {1}, src1_neg |-> {1}, src1_abs |-> {1}, s1 |-> {1}])
          \cup Vary([SdwaBase EXCEPT !.s0 = 1], [src0 |-> {0, 101, 106, 123, 127, 128, 200}, s1 |-> {1}, dst_sel |-> {7}])
SdwaX == {AsmW("sdwa", 1, v) : v \in SdwaFV}

Pick(S, T) == IF Wide THEN S ELSE T
Ops(fm) == OpsOf(fm)
\* quick tier: every third row of the three largest tables (all rows are decoded by the real
\* decoder from spec-encoded bytes in every run anyway, see DecodeScen)
Thin(S) == IF Wide THEN S ELSE {o \in S : o % 3 = 0}
Few(fm, S) == S \cap OpsOf(fm)

V3Base == [vdst |-> 3, abs |-> 0, opsel |-> 0, clamp |-> 0, src0 |-> 5, src1 |-> 300, src2 |-> 128, omod |-> 0, neg |-> 0, op |-> 0]
V3Alts == [vdst |-> {0, 106, 123, 255}, abs |-> {5, 7}, opsel |-> {9, 15}, clamp |-> {1}, src0 |-> {255, 511, 250},
           src1 |-> {0, 209}, src2 |-> {255, 257, 123}, omod |-> {3}, neg |-> {6, 7}]

\* groups of words: format, set of field-value records, set of second dwords
G(fm, fvs, xs) == [f |-> fm, fvs |-> fvs, xs |-> xs]
Groups == {
  G("sop2", [ssrc0: S8t, ssrc1: S8t, sdst: {1}, op: Ops("sop2")], X1t),
  G("sop2", [ssrc0: S8 \cup S8r, ssrc1: Pick(S8 \cup S8r, {2, 255, 193}), sdst: D7, op: Few("sop2", {0, 13})], X1t),
  G("sopk", [simm16: {0, 65535, 4660}, sdst: D7, op: Ops("sopk") \cup {21, 31}], Z),
  G("sop1", [ssrc0: S8t, sdst: {1, 123}, op: Ops("sop1") \cup {50, 255}], X1t),
  G("sop1", [ssrc0: S8 \cup S8r, sdst: D7, op: Few("sop1", {0, 1, 7})], X1),
  G("sopc", [ssrc0: S8t, ssrc1: S8t, op: Ops("sopc") \cup {20, 127}], X1t),
  G("sopc", [ssrc0: S8 \cup S8r, ssrc1: Pick(S8 \cup S8r, {2, 255, 250}), op: Few("sopc", {0})], X1t),
  G("sopp", [simm16: {0, 65535, 3952, 127}, op: Ops("sopp") \cup {30, 127}], Z),
  G("smem", [sbase: {0, 51, 63}, sdata: {0, 106, 123}, glc: {0, 1}, imm: {0, 1},
             offset: {0, 101, 102, 125, 127, 128, 1048575},
             op: Pick(Ops("smem"), Few("smem", {0, 1, 2, 3, 4, 16, 32})) \cup {63}], Z),
  G("vop2", [src0: S9t, vsrc1: {0, 255}, vdst: {3}, op: Ops("vop2") \cup {60, 63}], X1t),
  G("vop2", [src0: S9 \cup S8r, vsrc1: V8, vdst: V8, op: Few("vop2", {1, 23, 24, 25})], X1t),
  G("vop2", [src0: {249}, vsrc1: {2, 101, 106, 200}, vdst: {3}, op: Few("vop2", {1, 23, 37, 52})], SdwaX),
  G("vop1", [src0: S9t \cup {249}, vdst: {3, 200}, op: Ops("vop1") \cup {77, 255}], X1t),
  G("vop1", [src0: S9 \cup S8r, vdst: V8 \cup {106, 123, 128}, op: Few("vop1", {1, 2, 4, 15})], X1t),
  G("vopc", [src0: S9t \cup {249}, vsrc1: {0, 255}, op: Thin(Ops("vopc")) \cup {0, 15}], X1t),
  G("vop3a", UNION {Vary([V3Base EXCEPT !.op = o], V3Alts) : o \in Thin(Ops("vop3a")) \cup {0, 499, 1023}}, Z),
  G("vop3a", [vdst: Pick({0, 255}, {255}), abs: {0}, opsel: Pick({0, 9}, {9}), clamp: {0}, src0: S9 \cup S8r,
              src1: Pick({1, 101, 102, 127, 128, 193, 209, 240, 255, 256}, {1, 255, 256}), src2: {240, 123, 255, 257},
              omod: {1}, neg: {1},
              op: Few("vop3a", {16, 200, 256, 449, 944, 945})], Z),
  G("vop3b", [vdst: {0, 255}, sdst: Pick({0, 106, 123, 127}, {106, 123, 127}), clamp: {0, 1}, src0: {5, 300, 255, 250},
              src1: {128}, src2: Pick({0, 106, 209}, {106, 209}), omod: {2}, neg: {0, 7}, op: Ops("vop3b")], Z),
  G("ds", [offset0: {0, 16, 255}, offset1: {0, 255}, gds: {0, 1}, addr: {255}, data0: {1}, data1: {2},
           vdst: {0, 255}, op: Thin(Ops("ds")) \cup {21}], Z),
  G("flat", [offset: {0, 4, 4095, 4096, 8191}, glc: Pick({0, 1}, {1}), slc: {0, 1}, tfe: {0, 1}, addr: Pick({0, 255}, {255}), data: {1},
             saddr: {0, 2, 127}, vdst: {0, 255},
             op: Few("flat", {16, 20, 21, 22, 23, 28, 31, 80}) \cup {0, 127}], Z),
  G("flat", [offset: {4, 8191}, glc: {1}, slc: {0}, tfe: {1}, addr: {255}, data: {1}, saddr: {0, 127}, vdst: {255},
             op: Ops("flat")], Z),
  \* words of no format / of formats without a decoder: x is the first dword
  G("raw", {[op |-> 0]}, {<<h, 0>> : h \in {52224, 54272, 58368, 60416, 62464, 65535, 51200, 57344, 59392, 61440, 50176}}) }

Init == /\ st = "new"
        /\ \E g \in Groups : f = g.f /\ fv \in g.fvs /\ x \in g.xs
        /\ c \in (IF f \in {"flat", "vop1"} THEN BOOLEAN ELSE {FALSE})   \* the mode matters to FLAT and to VOP1 opcode 56
Next == st = "new" /\ st' = "done" /\ UNCHANGED <<f, fv, x, c>>
Spec == Init /\ [][Next]_vars

\* the byte string handed to the decoder
w == IF f = "raw" THEN Bytes(x) \o Bytes(<<0, 0>>) ELSE AsmFields(f, fv, x)

\* ----------------------------------------------------------------- invariants
E == Decode(w, c)
Pre(n) == SubSeq(w, 1, n)
Junk == {<<255>>, <<249, 0, 255, 126, 255, 255, 255, 255>>}
WhyNames == {"short", "format", "opcode", "truncated", "operand", "sreg_range", "sdwa_mod", "sdwa_sel", "sdwa_k", "vop3_lit"}
Done == st = "done"

Total == Done => /\ E.k \in {"inst", "und"}
                 /\ E.k = "und" => E.why \in WhyNames
                 /\ \A n \in 0..Len(w) : Decode(Pre(n), c).k \in {"inst", "und"}
RoundTrip == Done /\ E.k = "inst" =>
               /\ Len(Encode(E)) = E.sz
               /\ Decode(Encode(E), c) = E
Sized == Done => \A n \in 0..Len(w) : LET T == Decode(Pre(n), c) IN T.k = "inst" => T.sz <= n
Suffix == Done /\ E.k = "inst" => \A j \in Junk : Decode(Pre(E.sz) \o j, c) = E
Prefix == Done => \A n \in 0..Len(w) : LET T == Decode(Pre(n), c) IN T.k = "inst" => T = E
Sizes == Done /\ E.k = "inst" => E.sz \in {4, 8}       \* the sizes the ISA knows
Printable == Done /\ E.k = "inst" => Len(Disasm(E)) >= 0    \* the disassembly text is defined

\* the same properties in one pass (shares the evaluations; used by the quick tier)
Cuts == {0, 3, 4, 7, 8} \cap (0..Len(w))
AllProps ==
  Done =>
    LET e == Decode(w, c) IN
    /\ e.k \in {"inst", "und"}
    /\ e.k = "und" => e.why \in WhyNames
    /\ \A n \in Cuts : LET T == Decode(Pre(n), c) IN
                          /\ T.k \in {"inst", "und"}
                          /\ T.k = "inst" => T.sz <= n /\ T = e
    /\ e.k = "inst" => /\ e.sz \in {4, 8}
                       /\ Len(Encode(e)) = e.sz /\ Decode(Encode(e), c) = e
                       /\ \A j \in Junk : Decode(Pre(e.sz) \o j, c) = e
                       /\ Len(Disasm(e)) >= 0                        \* the text is defined
=============================================================================
