----------------------------- MODULE MC_Decode -----------------------------
(***************************************************************************)
(* Exhaustive check of the decode/encode functions over a structured word   *)
(* space: every table row with a few operand fields, a few rows with every  *)
(* interesting operand code (boundaries of each class of the operand-code   *)
(* map, reserved codes, literal, SDWA, DPP), literal / SDWA dwords, both    *)
(* FLAT addressing modes.  One initial state per word; the invariants are   *)
(* the property:                                                           *)
(*   Total       Decode answers "inst" or "und" for every word and prefix   *)
(*   RoundTrip   Decode(Encode(d)) = d and |Encode(d)| = size               *)
(*   Sized       a result never claims more bytes than the buffer holds     *)
(*   Suffix      bytes beyond the reported size do not influence the result *)
(*   Prefix      a prefix that still decodes gives the same instruction     *)
(***************************************************************************)
EXTENDS Decode, TLC

CONSTANT Wide        \* TRUE: larger operand samples (thorough tier)

VARIABLES w,         \* the byte string handed to the decoder
          c,         \* CDNA3 mode
          st         \* "new" | "done"
vars == <<w, c, st>>

\* ------------------------------------------------------------ operand samples
S8   == {0, 1, 101, 102, 106, 107, 111, 112, 122, 124, 126, 127, 128, 192, 193, 208, 240, 248, 251, 253, 255}
S8r  == {123, 125, 209, 239, 249, 250, 254}                 \* reserved 8-bit codes
S9   == S8 \cup {256, 300, 511}
S8t  == {5, 255, 123}                                       \* tiny: a register, the literal, a reserved code
S9t  == {5, 255, 300, 250}
D7   == {0, 101, 106, 124, 127, 123}
V8   == {0, 7, 255}
X1   == {<<0, 0>>, <<4660, 22136>>, <<65535, 65535>>}       \* literal dwords
X1t  == {<<4660, 22136>>}
\* SDWA dwords: selectors (incl. reserved 7 / 3), unsupported modifier bits, scalar-source bits
SdwaX == {Bytes2W(AsmW("sdwa", 1, fv)) :
            fv \in [src0: {0, 9, 101, 106, 123, 200}, dst_sel: {0, 6, 7}, dst_u: {0, 2, 3}, clamp: {0, 1},
                    src0_sel: {0, 5, 7}, src0_sext: {0}, src0_neg: {0, 1}, src0_abs: {0}, src1_sel: {6, 7},
                    src1_sext: {0}, src1_neg: {0}, src1_abs: {0, 1}, s0: {0, 1}, s1: {0, 1}]}

Pick(S, T) == IF Wide THEN S ELSE T
Ops(f) == OpsOf(f)
Few(f, S) == S \cap OpsOf(f)

Words ==
  \* --- scalar formats
     {AsmFields("sop2", fv, x) : fv \in [ssrc0: S8t, ssrc1: S8t, sdst: {1}, op: Ops("sop2")], x \in X1t}
  \cup {AsmFields("sop2", fv, x) : fv \in [ssrc0: S8 \cup S8r, ssrc1: Pick(S8 \cup S8r, {2, 255, 193}), sdst: D7,
                                           op: Few("sop2", {0, 13})], x \in X1t}
  \cup {AsmFields("sopk", fv, <<0, 0>>) : fv \in [simm16: {0, 65535, 4660}, sdst: D7, op: Ops("sopk") \cup {21, 31}]}
  \cup {AsmFields("sop1", fv, x) : fv \in [ssrc0: S8t, sdst: {1, 123}, op: Ops("sop1") \cup {50, 255}], x \in X1t}
  \cup {AsmFields("sop1", fv, x) : fv \in [ssrc0: S8 \cup S8r, sdst: D7, op: Few("sop1", {0, 1, 7})], x \in X1}
  \cup {AsmFields("sopc", fv, x) : fv \in [ssrc0: S8t, ssrc1: S8t, op: Ops("sopc") \cup {20, 127}], x \in X1t}
  \cup {AsmFields("sopc", fv, x) : fv \in [ssrc0: S8 \cup S8r, ssrc1: Pick(S8 \cup S8r, {2, 255, 250}),
                                           op: Few("sopc", {0})], x \in X1t}
  \cup {AsmFields("sopp", fv, <<0, 0>>) : fv \in [simm16: {0, 65535, 3952, 127}, op: Ops("sopp") \cup {30, 127}]}
  \cup {AsmFields("smem", fv, <<0, 0>>) : fv \in [sbase: {0, 50, 51, 53, 63}, sdata: {0, 101, 106, 123, 127}, glc: {0, 1},
                                                  imm: {0, 1}, offset: {0, 101, 102, 124, 125, 127, 128, 1048575},
                                                  op: Pick(Ops("smem"), Few("smem", {0, 1, 2, 3, 4, 16, 32})) \cup {63}]}
  \* --- vector formats
  \cup {AsmFields("vop2", fv, x) : fv \in [src0: S9t, vsrc1: {0, 255}, vdst: {3}, op: Ops("vop2") \cup {60, 63}], x \in X1t}
  \cup {AsmFields("vop2", fv, x) : fv \in [src0: S9 \cup S8r, vsrc1: V8, vdst: V8, op: Few("vop2", {1, 23, 24, 25})], x \in X1t}
  \cup {AsmFields("vop2", fv, x) : fv \in [src0: {249}, vsrc1: {2, 101, 106, 200}, vdst: {3},
                                           op: Few("vop2", {1, 23, 37, 52})], x \in SdwaX}
  \cup {AsmFields("vop1", fv, x) : fv \in [src0: S9t \cup {249}, vdst: {3, 200}, op: Ops("vop1") \cup {77, 255}], x \in X1t}
  \cup {AsmFields("vop1", fv, x) : fv \in [src0: S9 \cup S8r, vdst: V8 \cup {106, 123, 128}, op: Few("vop1", {1, 2, 4, 15})], x \in X1t}
  \cup {AsmFields("vopc", fv, x) : fv \in [src0: S9t \cup {249}, vsrc1: {0, 255}, op: Ops("vopc") \cup {0, 15}], x \in X1t}
  \cup {AsmFields("vop3a", fv, <<0, 0>>) : fv \in [vdst: {0, 106, 255}, abs: {0, 5}, opsel: {0, 15}, clamp: {0, 1},
                                                   src0: {5, 300}, src1: {128, 511}, src2: {0, 255}, omod: {0, 3},
                                                   neg: {0, 6}, op: Ops("vop3a") \cup {0, 499, 1023}]}
  \cup {AsmFields("vop3a", fv, <<0, 0>>) : fv \in [vdst: {0, 123, 255}, abs: {0}, opsel: {0, 9}, clamp: {0}, src0: S9 \cup S8r,
                                                   src1: Pick(S9 \cup S8r, {1, 255, 209, 256}), src2: {240, 123, 255, 257},
                                                   omod: {1}, neg: {1}, op: Few("vop3a", {16, 200, 256, 449, 944, 945})]}
  \cup {AsmFields("vop3b", fv, <<0, 0>>) : fv \in [vdst: {0, 255}, sdst: {0, 106, 123, 127}, clamp: {0, 1},
                                                   src0: {5, 300, 255, 250}, src1: {128, 511}, src2: {0, 106, 209}, omod: {0, 2},
                                                   neg: {0, 7}, op: Ops("vop3b")]}
  \cup {AsmFields("ds", fv, <<0, 0>>) : fv \in [offset0: {0, 16, 255}, offset1: {0, 255}, gds: {0, 1}, addr: {0, 255},
                                                data0: {1}, data1: {2}, vdst: {0, 255}, op: Ops("ds") \cup {21}]}
  \cup {AsmFields("flat", fv, <<0, 0>>) : fv \in [offset: {0, 4, 4095, 4096, 8191}, glc: {0, 1}, slc: {0, 1}, tfe: {0, 1},
                                                  addr: {0, 255}, data: {1}, saddr: {0, 2, 127}, vdst: {0, 255},
                                                  op: Pick(Ops("flat"), Few("flat", {16, 20, 21, 22, 23, 28, 31, 80})) \cup {0, 127}]}
  \* --- words of no format / of formats without a decoder
  \cup {Bytes(<<h, 0>>) \o Bytes(<<0, 0>>) : h \in {52224, 54272, 58368, 60416, 62464, 65535, 51200, 57344, 59392, 61440, 50176}}

FlatWord(b) == Len(b) >= 4 /\ b[4] \div 4 = 55          \* 0xDC..0xDF prefix

Init == /\ w \in Words /\ st = "new"
        /\ c \in (IF FlatWord(w) THEN BOOLEAN ELSE {FALSE})
Next == st = "new" /\ st' = "done" /\ UNCHANGED <<w, c>>
Spec == Init /\ [][Next]_vars

\* ----------------------------------------------------------------- invariants
E == Decode(w, c)
Pre(n) == SubSeq(w, 1, n)
Junk == {<<255>>, <<0, 0, 0, 0>>, <<249, 0, 255, 126, 255, 255, 255, 255>>}
WhyNames == {"short", "format", "opcode", "truncated", "operand", "sreg_range", "sdwa_mod", "sdwa_sel", "sdwa_k", "vop3_lit"}

Total == /\ E.k \in {"inst", "und"}
         /\ E.k = "und" => E.why \in WhyNames
         /\ \A n \in 0..Len(w) : Decode(Pre(n), c).k \in {"inst", "und"}
RoundTrip == E.k = "inst" =>
               /\ Len(Encode(E)) = E.sz
               /\ Decode(Encode(E), c) = E
Sized == \A n \in 0..Len(w) : LET T == Decode(Pre(n), c) IN T.k = "inst" => T.sz <= n
Suffix == E.k = "inst" => \A j \in Junk : Decode(Pre(E.sz) \o j, c) = E
Prefix == \A n \in 0..Len(w) : LET T == Decode(Pre(n), c) IN T.k = "inst" => T = E
\* the sizes the ISA knows
Sizes == E.k = "inst" => E.sz \in {4, 8}
=============================================================================
