SPECIFICATION Spec
CONSTANTS
  Descs <- MCDescs
  MaxProg = 3
  CDNA3 = TRUE
INVARIANTS Tiling NeverStuck PartialFetch
PROPERTY Consumed
CHECK_DEADLOCK FALSE
