SPECIFICATION SSpec
CONSTANTS
  Descs = {}
  MaxProg = 10
  CDNA3 = FALSE
  Seed = 1
  Variants = 2
INVARIANTS Tiling NeverStuck
CHECK_DEADLOCK FALSE
