------------------------------- MODULE Decode -------------------------------
(***************************************************************************)
(* C04 - instruction decoding is total, deterministic and inverse to       *)
(* encoding.                                                               *)
(*                                                                         *)
(* Decode(b, cdna3) is the intended behaviour of insts.Disassembler.Decode *)
(* on the byte string b, written at the grain of the code:                 *)
(*   MatchFormat   - Disassembler.matchFormat over initFormatList's order  *)
(*                   (most specific mask first) + the VOP3a/VOP3b split    *)
(*   Lookup        - Disassembler.lookUp in the per-format opcode table    *)
(*                   (OpTable.tla, generated from the golden table)        *)
(*   Opnd          - insts.getOperand (operand code -> register/constant)  *)
(*   DecSOP2 ...   - Disassembler.decodeSOP2 ... decodeDS (field layout,   *)
(*                   operand widths, literal / SDWA size adjustment)       *)
(* The result is an instruction description, or Und(why, ni): "reported as *)
(* undecodable" (ni = the encoding uses modifiers for which an explicit    *)
(* not-implemented diagnostic is an acceptable report).                    *)
(*                                                                         *)
(* Encode(d) is the inverse direction, written from the ISA field layouts:  *)
(* description -> bytes.  The state machine at the end of the module is a   *)
(* sequential decoder (emu.ComputeUnit.runWfUntilBarrier /                 *)
(* Disassembler.Disassemble) over a program assembled by the environment;   *)
(* its invariants are the property: round trip, tiling, suffix independence.*)
(*                                                                         *)
(* Machine words are pairs of 16-bit limbs <<hi, lo>> (TLC integers are     *)
(* 32-bit); byte strings are sequences of 0..255.                           *)
(***************************************************************************)
EXTENDS Integers, Sequences, FiniteSets, TLC, OpTable

\* ------------------------------------------------------------------ bits
\* bits lo..hi (inclusive, hi-lo <= 19) of the dword w = <<hi limb, lo limb>>
Bits(w, lo, hi) ==
  IF hi <= 15 THEN (w[2] \div (2^lo)) % (2^(hi - lo + 1))
  ELSE IF lo >= 16 THEN (w[1] \div (2^(lo - 16))) % (2^(hi - lo + 1))
  ELSE (w[2] \div (2^lo)) + (w[1] % (2^(hi - 15))) * (2^(16 - lo))
Bit(w, i) == Bits(w, i, i)

\* k-th dword (k = 0, 1, 2) of the little-endian byte string b
DW(b, k) == <<b[4*k + 3] + 256 * b[4*k + 4], b[4*k + 1] + 256 * b[4*k + 2]>>

\* ------------------------------------------------------------ format table
\* amd/insts/format.go initFormatTable, in the order initFormatList gives it:
\* descending mask.  enc = high limb of Encoding, fix = number of leading bits
\* the mask fixes, sz = ByteSizeExLiteral, lo..hi = opcode field.
F(n, enc, fix, sz, lo, hi) == [n |-> n, enc |-> enc, fix |-> fix, sz |-> sz, lo |-> lo, hi |-> hi]
Formats == <<
  F("sop1",   48768, 9, 4,  8, 15),   \* 0xBE80
  F("sopc",   48896, 9, 4, 16, 22),   \* 0xBF00
  F("sopp",   49024, 9, 4, 16, 22),   \* 0xBF80
  F("vop1",   32256, 7, 4,  9, 16),   \* 0x7E00
  F("vopc",   31744, 7, 4, 17, 24),   \* 0x7C00
  F("smem",   49152, 6, 8, 18, 25),   \* 0xC000
  F("vop3a",  53248, 6, 8, 16, 25),   \* 0xD000 (VOP3b shares it, see FormatOf)
  F("vintrp", 51200, 6, 4, 16, 17),   \* 0xC800
  F("ds",     55296, 6, 8, 17, 24),   \* 0xD800
  F("mubuf",  57344, 6, 8, 18, 24),   \* 0xE000
  F("mtbuf",  59392, 6, 8, 15, 18),   \* 0xE800
  F("mimg",   61440, 6, 8, 18, 24),   \* 0xF000
  F("exp",    50176, 6, 8,  0,  0),   \* 0xC400
  F("flat",   56320, 6, 8, 18, 24),   \* 0xDC00
  F("sopk",   45056, 4, 4, 23, 27),   \* 0xB000
  F("sop2",   32768, 2, 4, 23, 29),   \* 0x8000
  F("vop2",       0, 1, 4, 25, 30) >> \* 0x0000
NF == Len(Formats)

Matches(f, w) == (w[1] \div (2^(16 - f.fix))) = (f.enc \div (2^(16 - f.fix)))
\* index of the first (most specific) matching format, 0 if none
MatchFormat(w) ==
  IF \E i \in 1..NF : Matches(Formats[i], w)
  THEN CHOOSE i \in 1..NF : Matches(Formats[i], w) /\ \A j \in 1..(i - 1) : ~Matches(Formats[j], w)
  ELSE 0

VOP3bOps == {281, 282, 283, 284, 285, 286, 480, 481, 488}    \* Disassembler.isVOP3bOpcode

\* ------------------------------------------------------------- operands
\* An operand is <<kind, a, b, c>>:
\*   <<"reg", code, width, 0>>   code = ISA operand code: 0..101 s#, 102..127 special
\*                               scalar registers, 251..253 vccz/execz/scc, 256..511 v#
\*   <<"int", value, width, 0>>  <<"float", code 240..248, width, 0>>  <<"lit", hi, lo, width>>
\* width = the register count the decoder attaches to the operand (insts.Operand.RegCount,
\* 0 and 1 both meaning one dword).  Constants carry it too: emu/timing ReadOperand sizes the
\* value it returns by it, and every decode must produce its own width - an operand object
\* shared between instructions would let one decode change what another one returned.
None == <<"none", 0, 0, 0>>
Bad  == <<"bad", 0, 0, 0>>
Reg(code, n) == <<"reg", code, n, 0>>
VReg(i, n) == Reg(256 + i, n)
IntOp(v) == <<"int", v, 1, 0>>
LitPlaceholder == <<"lit", 0, 0, 1>>

\* insts.getOperand: the operand-code map (reserved codes -> Bad)
Opnd(c) ==
  IF c <= 101 THEN Reg(c, 1)
  ELSE IF c <= 111 THEN Reg(c, 1)                 \* flat_scratch, xnack_mask, vcc, tba, tma
  ELSE IF c <= 122 THEN Reg(c, 1)                 \* ttmp0..10
  ELSE IF c = 124 \/ c = 126 \/ c = 127 THEN Reg(c, 1)   \* m0, exec_lo, exec_hi
  ELSE IF c >= 128 /\ c <= 192 THEN IntOp(c - 128)
  ELSE IF c >= 193 /\ c <= 208 THEN IntOp(192 - c)
  ELSE IF c >= 240 /\ c <= 248 THEN <<"float", c, 1, 0>>
  ELSE IF c >= 251 /\ c <= 253 THEN Reg(c, 1)
  ELSE IF c = 255 THEN LitPlaceholder
  ELSE IF c >= 256 /\ c <= 511 THEN Reg(c, 1)
  ELSE Bad

\* a scalar register named by a 7-bit scalar operand code (SMEM offset register, SDWA
\* scalar sources); OutOfRange when the field does not name a scalar register at all
OutOfRange == <<"range", 0, 0, 0>>
SSrc7(c) == IF c <= 127 THEN Opnd(c) ELSE OutOfRange
IsRange(o) == o[1] = "range"

IsLit(o) == o[1] = "lit"
IsBad(o) == o[1] = "bad"
\* set the width (register count) of an operand
W(o, n) == CASE o[1] \in {"reg", "int", "float"} -> <<o[1], o[2], n, 0>>
            [] o[1] = "lit" -> <<"lit", o[2], o[3], n>>
            [] OTHER -> o
\* fill in the literal dword
L(o, w1) == IF o[1] = "lit" THEN <<"lit", w1[1], w1[2], o[4]>> ELSE o
Wd(bits) == IF bits = 64 THEN 2 ELSE 1

\* ------------------------------------------------------------- results
Slots == <<"s0", "s1", "s2", "d", "sd", "ad", "da", "d1", "ba", "of", "im", "sa">>
NoOps == [s0 |-> None, s1 |-> None, s2 |-> None, d |-> None, sd |-> None, ad |-> None,
          da |-> None, d1 |-> None, ba |-> None, of |-> None, im |-> None, sa |-> None]
OT(o) == <<o.s0, o.s1, o.s2, o.d, o.sd, o.ad, o.da, o.d1, o.ba, o.of, o.im, o.sa>>

NoMods == [abs |-> 0, omod |-> 0, neg |-> 0, opsel |-> 0, opselhi |-> 0,
           off0 |-> <<0, 0>>, off1 |-> <<0, 0>>, slc |-> 0, glc |-> 0, tfe |-> 0, imm |-> 0,
           clamp |-> 0, gds |-> 0, vm |-> 0, lgkm |-> 0,
           sdwa |-> 0, dsel |-> -1, dun |-> 0, s0sel |-> -1, s1sel |-> -1,
           s0sext |-> 0, s0neg |-> 0, s0abs |-> 0, s1sext |-> 0, s1neg |-> 0, s1abs |-> 0,
           s2neg |-> 0, s2abs |-> 0]
MT(m) == <<m.abs, m.omod, m.neg, m.opsel, m.opselhi, m.off0[1], m.off0[2], m.off1[1], m.off1[2],
           m.slc, m.glc, m.tfe, m.imm, m.clamp, m.gds, m.vm, m.lgkm,
           m.sdwa, m.dsel, m.dun, m.s0sel, m.s1sel,
           m.s0sext, m.s0neg, m.s0abs, m.s1sext, m.s1neg, m.s1abs, m.s2neg, m.s2abs>>

Inst(f, op, row, sz, o, m) ==
  [k |-> "inst", f |-> f, op |-> op, nm |-> row.nm, eu |-> row.eu, sz |-> sz, o |-> OT(o), m |-> MT(m)]
\* reported as undecodable; why names the rule, ni = "not implemented" diagnostic acceptable
Und(why) == [k |-> "und", why |-> why, ni |-> FALSE]
UndNI(why) == [k |-> "und", why |-> why, ni |-> TRUE]

AnyBad(S) == \E o \in S : IsBad(o)

\* ------------------------------------------------------- per-format decoding
\* row = table row, op = opcode, w0/w1 = first/second dword (w1 = <<0,0>> when absent),
\* have8 = the buffer holds at least 8 bytes.

\* literal handling shared by the 4-byte formats: an instruction has at most one
\* literal dword, which every operand of code 255 refers to.
LitInst(f, op, row, o, m, haslit, have8, w1) ==
  IF haslit /\ ~have8 THEN Und("truncated")
  ELSE Inst(f, op, row, IF haslit THEN 8 ELSE 4,
            [o EXCEPT !.s0 = L(@, w1), !.s1 = L(@, w1), !.s2 = L(@, w1)], m)

DecSOP2(row, op, w0, w1, have8) ==
  LET n  == IF row.n64 THEN 2 ELSE 1
      s0 == Opnd(Bits(w0, 0, 7))
      s1 == Opnd(Bits(w0, 8, 15))
      d  == Opnd(Bits(w0, 16, 22))
  IN IF AnyBad({s0, s1, d}) THEN Und("operand")
     ELSE LitInst("sop2", op, row, [NoOps EXCEPT !.s0 = W(s0, n), !.s1 = W(s1, n), !.d = W(d, n)],
                  NoMods, IsLit(s0) \/ IsLit(s1), have8, w1)

DecSOPC(row, op, w0, w1, have8) ==
  LET s0 == Opnd(Bits(w0, 0, 7))
      s1 == Opnd(Bits(w0, 8, 15))
  IN IF AnyBad({s0, s1}) THEN Und("operand")
     ELSE LitInst("sopc", op, row, [NoOps EXCEPT !.s0 = s0, !.s1 = s1], NoMods,
                  IsLit(s0) \/ IsLit(s1), have8, w1)

DecSOP1(row, op, w0, w1, have8) ==
  LET s0 == Opnd(Bits(w0, 0, 7))
      d  == Opnd(Bits(w0, 16, 22))
  IN IF AnyBad({s0, d}) THEN Und("operand")
     ELSE LitInst("sop1", op, row, [NoOps EXCEPT !.s0 = W(s0, Wd(row.s0w)), !.d = W(d, Wd(row.dw))],
                  NoMods, IsLit(s0), have8, w1)

DecSOPK(row, op, w0) ==
  LET d == Opnd(Bits(w0, 16, 22))
  IN IF IsBad(d) THEN Und("operand")
     ELSE Inst("sopk", op, row, 4, [NoOps EXCEPT !.im = IntOp(Bits(w0, 0, 15)), !.d = d], NoMods)

DecSOPP(row, op, w0) ==
  Inst("sopp", op, row, 4, [NoOps EXCEPT !.im = IntOp(Bits(w0, 0, 15))],
       IF op = 12 THEN [NoMods EXCEPT !.vm = Bits(w0, 0, 3), !.lgkm = Bits(w0, 8, 12)] ELSE NoMods)

SMEMDataW(op) ==
  IF op \in {1, 9, 17, 25} THEN 2 ELSE IF op \in {2, 10, 18, 26} THEN 4
  ELSE IF op \in {3, 11, 19, 27} THEN 8 ELSE IF op \in {4, 12, 20, 28} THEN 16 ELSE 1

DecSMEM(row, op, w0, w1) ==
  LET imm == Bit(w0, 17)
      ba  == W(Opnd(2 * Bits(w0, 0, 5)), 2)              \* SGPR pair (or vcc, ttmp, ... pair)
      da  == Opnd(Bits(w0, 6, 12))
      off == Bits(w1, 0, 19)
      of  == IF imm = 1 THEN IntOp(off) ELSE SSrc7(off)   \* immediate byte offset or offset register
  IN IF AnyBad({da, ba, of}) THEN Und("operand")
     ELSE IF IsRange(of) THEN Und("sreg_range")
     ELSE Inst("smem", op, row, 8,
               [NoOps EXCEPT !.ba = ba, !.da = W(da, SMEMDataW(op)), !.of = of],
               [NoMods EXCEPT !.glc = Bit(w0, 16), !.imm = imm])

DecVOP1(row, op, w0, w1, have8, cdna3) ==
  LET s0 == Opnd(Bits(w0, 0, 8))
      vd == Bits(w0, 17, 24)
      d  == IF op = 2 THEN Opnd(vd) ELSE VReg(vd, 1)          \* v_readfirstlane_b32 writes an SGPR
      mov64 == cdna3 /\ op = 56                               \* CDNA3: opcode 56 is v_mov_b64
      ns == IF row.s0w = 64 \/ op = 15 \/ mov64 THEN 2 ELSE 1
      nd == IF row.dw = 64 \/ op \in {4, 16} \/ mov64 THEN 2 ELSE 1
  IN IF AnyBad({s0, d}) THEN Und("operand")                  \* includes SDWA (249) / DPP (250): unsupported
     ELSE LitInst("vop1", op, row, [NoOps EXCEPT !.s0 = W(s0, ns), !.d = W(d, nd)], NoMods,
                  IsLit(s0), have8, w1)

DecVOPC(row, op, w0, w1, have8) ==
  LET s0 == Opnd(Bits(w0, 0, 8))
  IN IF IsBad(s0) THEN Und("operand")
     ELSE LitInst("vopc", op, row, [NoOps EXCEPT !.s0 = W(s0, Wd(row.s0w)),      \* 64-bit compares read pairs
                                                 !.s1 = VReg(Bits(w0, 9, 16), Wd(row.s1w))], NoMods,
                  IsLit(s0), have8, w1)

VOP2KOps == {23, 24, 36, 37}       \* v_madmk / v_madak (f32, f16): a literal K follows
DecVOP2(row, op, w0, w1, have8) ==
  LET c0   == Bits(w0, 0, 8)
      v1   == Bits(w0, 9, 16)
      d    == VReg(Bits(w0, 17, 24), 1)
      kop  == op \in VOP2KOps
  IN IF c0 = 249 THEN                                    \* SDWA: the second dword carries src0 and selectors
       IF ~have8 THEN Und("truncated")
       ELSE LET unimpl == Bit(w1, 13) + Bit(w1, 19) + Bit(w1, 20) + Bit(w1, 21)
                          + Bit(w1, 27) + Bit(w1, 28) + Bit(w1, 29)    \* clamp, sext/neg/abs of src0, src1
                dsel == Bits(w1, 8, 10)   dun == Bits(w1, 11, 12)
                s0s  == Bits(w1, 16, 18)  s1s == Bits(w1, 24, 26)
                r0   == Bits(w1, 0, 7)
                s0   == IF Bit(w1, 30) = 1 THEN SSrc7(r0) ELSE VReg(r0, 1)
                s1   == IF Bit(w1, 31) = 1 THEN SSrc7(v1) ELSE VReg(v1, 1)
            IN IF unimpl > 0 THEN UndNI("sdwa_mod")
               ELSE IF dsel = 7 \/ dun = 3 \/ s0s = 7 \/ s1s = 7 THEN Und("sdwa_sel")
               ELSE IF kop THEN Und("sdwa_k")
               ELSE IF AnyBad({s0, s1}) THEN Und("operand")
               ELSE IF IsRange(s0) \/ IsRange(s1) THEN Und("sreg_range")
               ELSE Inst("vop2", op, row, 8, [NoOps EXCEPT !.s0 = s0, !.s1 = s1, !.d = d],
                         [NoMods EXCEPT !.sdwa = 1, !.dsel = dsel, !.dun = dun, !.s0sel = s0s, !.s1sel = s1s])
     ELSE LET s0 == Opnd(c0)
          IN IF IsBad(s0) THEN Und("operand")               \* includes DPP (250): unsupported
             ELSE LitInst("vop2", op, row,
                          [NoOps EXCEPT !.s0 = s0, !.s1 = VReg(v1, 1), !.d = d,
                                        !.s2 = IF kop THEN LitPlaceholder ELSE None],
                          [NoMods EXCEPT !.imm = IF kop THEN 1 ELSE 0],
                          IsLit(s0) \/ kop, have8, w1)

DecVOP3a(row, op, w0, w1) ==
  LET vd  == Bits(w0, 0, 7)
      d   == IF op <= 255 THEN Opnd(vd) ELSE VReg(vd, 1)     \* VOPC promoted to VOP3 writes an SGPR pair
      abs == Bits(w0, 8, 10)
      neg == Bits(w1, 29, 31)
      s0  == Opnd(Bits(w1, 0, 8))
      s1  == Opnd(Bits(w1, 9, 17))
      s2  == IF row.s2w # 0 THEN Opnd(Bits(w1, 18, 26)) ELSE None
      omod == Bits(w1, 27, 28)
      opsel == IF op = 944 THEN Bits(w0, 11, 13) ELSE IF op \in {945, 946} THEN Bits(w0, 11, 12) ELSE 0
      opselhi == IF op = 944 THEN omod + 4 * Bit(w0, 14) ELSE IF op \in {945, 946} THEN omod ELSE 0
  IN IF AnyBad({d, s0, s1, s2}) THEN Und("operand")
     ELSE IF IsLit(d) \/ IsLit(s0) \/ IsLit(s1) \/ IsLit(s2) THEN Und("vop3_lit")   \* no literal in 64-bit encodings
     ELSE Inst("vop3a", op, row, 8,
               [NoOps EXCEPT !.d = W(d, Wd(row.dw)), !.s0 = W(s0, Wd(row.s0w)), !.s1 = W(s1, Wd(row.s1w)),
                             !.s2 = W(s2, Wd(row.s2w))],
               [NoMods EXCEPT !.abs = abs, !.neg = neg, !.omod = omod, !.clamp = Bit(w0, 15),
                              !.s0abs = abs % 2, !.s1abs = (abs \div 2) % 2, !.s2abs = abs \div 4,
                              !.s0neg = neg % 2, !.s1neg = (neg \div 2) % 2, !.s2neg = neg \div 4,
                              !.opsel = opsel, !.opselhi = opselhi])

DecVOP3b(row, op, w0, w1) ==
  LET d  == IF op > 255 THEN VReg(Bits(w0, 0, 7), Wd(row.dw)) ELSE None
      sd == Opnd(Bits(w0, 8, 14))
      s0 == Opnd(Bits(w1, 0, 8))
      s1 == Opnd(Bits(w1, 9, 17))
      s2 == IF op > 255 /\ row.s2w > 0 THEN Opnd(Bits(w1, 18, 26)) ELSE None
  IN IF AnyBad({sd, s0, s1, s2}) THEN Und("operand")
     ELSE IF IsLit(s0) \/ IsLit(s1) \/ IsLit(s2) THEN Und("vop3_lit")
     ELSE Inst("vop3b", op, row, 8,
               [NoOps EXCEPT !.d = d, !.sd = W(sd, Wd(row.sdw)), !.s0 = W(s0, Wd(row.s0w)),
                             !.s1 = W(s1, Wd(row.s1w)), !.s2 = W(s2, Wd(row.s2w))],
               [NoMods EXCEPT !.clamp = Bit(w0, 15), !.omod = Bits(w1, 27, 28), !.neg = Bits(w1, 29, 31)])

WidthRC(bits) == IF bits = 64 THEN 2 ELSE IF bits = 96 THEN 3 ELSE IF bits = 128 THEN 4 ELSE 1
DSSplitOffsetOps == {14, 15, 46, 47, 55, 56, 78, 79, 110, 111, 119, 120}   \* two 8-bit offsets
DecDS(row, op, w0, w1) ==
  LET o0 == Bits(w0, 0, 7)
      o1 == Bits(w0, 8, 15)
      off0 == IF op \in DSSplitOffsetOps THEN o0 ELSE o0 + 256 * o1
  IN Inst("ds", op, row, 8,
          [NoOps EXCEPT !.ad = VReg(Bits(w1, 0, 7), 1),
                        !.da = IF row.s0w > 0 THEN VReg(Bits(w1, 8, 15), WidthRC(row.s0w)) ELSE None,
                        !.d1 = IF row.s1w > 0 THEN VReg(Bits(w1, 16, 23), WidthRC(row.s1w)) ELSE None,
                        !.d  = IF row.dw > 0 THEN VReg(Bits(w1, 24, 31), WidthRC(row.dw)) ELSE None],
          [NoMods EXCEPT !.off0 = <<0, off0>>, !.off1 = <<0, o1>>, !.gds = Bit(w0, 16)])

FlatW(op) ==
  IF op \in {21, 29} \cup (80..93) THEN 2 ELSE IF op \in {22, 30} THEN 3 ELSE IF op \in {23, 31} THEN 4 ELSE 1
DecFLAT(row, op, w0, w1, cdna3) ==
  LET raw == Bits(w0, 0, 12)                               \* signed 13-bit offset
      sa  == Bits(w1, 16, 22)                              \* 0x7F = off
      pair == IF cdna3 THEN sa = 127 ELSE sa = 127 \/ sa = 0   \* address is a VGPR pair
  IN Inst("flat", op, row, 8,
          [NoOps EXCEPT !.sa = IntOp(sa), !.ad = VReg(Bits(w1, 0, 7), IF pair THEN 2 ELSE 1),
                        !.d = VReg(Bits(w1, 24, 31), FlatW(op)), !.da = VReg(Bits(w1, 8, 15), FlatW(op))],
          [NoMods EXCEPT !.off0 = IF raw >= 4096 THEN <<65535, 57344 + raw>> ELSE <<0, raw>>,
                         !.slc = Bit(w0, 17), !.glc = Bit(w0, 16), !.tfe = Bit(w1, 23)])

\* --------------------------------------------------------------- Decode
Decode(b, cdna3) ==
  IF Len(b) < 4 THEN Und("short")
  ELSE
    LET w0 == DW(b, 0)
        fi == MatchFormat(w0)
    IN IF fi = 0 THEN Und("format")
       ELSE
         LET fm  == Formats[fi]
             op  == Bits(w0, fm.lo, fm.hi)
             fn  == IF fm.n = "vop3a" /\ op \in VOP3bOps THEN "vop3b" ELSE fm.n
             row == Lookup(fn, op)
             have8 == Len(b) >= 8
             w1  == IF have8 THEN DW(b, 1) ELSE <<0, 0>>
         IN IF row.nm = "" THEN Und("opcode")
            ELSE IF fm.sz > Len(b) THEN Und("truncated")
            ELSE CASE fn = "sop2"  -> DecSOP2(row, op, w0, w1, have8)
                   [] fn = "sopk"  -> DecSOPK(row, op, w0)
                   [] fn = "sop1"  -> DecSOP1(row, op, w0, w1, have8)
                   [] fn = "sopc"  -> DecSOPC(row, op, w0, w1, have8)
                   [] fn = "sopp"  -> DecSOPP(row, op, w0)
                   [] fn = "smem"  -> DecSMEM(row, op, w0, w1)
                   [] fn = "vop2"  -> DecVOP2(row, op, w0, w1, have8)
                   [] fn = "vop1"  -> DecVOP1(row, op, w0, w1, have8, cdna3)
                   [] fn = "vopc"  -> DecVOPC(row, op, w0, w1, have8)
                   [] fn = "vop3a" -> DecVOP3a(row, op, w0, w1)
                   [] fn = "vop3b" -> DecVOP3b(row, op, w0, w1)
                   [] fn = "ds"    -> DecDS(row, op, w0, w1)
                   [] fn = "flat"  -> DecFLAT(row, op, w0, w1, cdna3)

\* =========================================================================
\* Encode: description -> bytes, written from the ISA field layouts
\* =========================================================================
\* Layout[f]: <<field, dword, lo, hi>>.  Bits not listed are don't-care for the
\* decoder (reserved, or fields of modifiers mgpusim does not model); Encode
\* leaves them 0 and AsmPad fills them from a pad word.
Layout == [
  sop2  |-> << <<"ssrc0", 0, 0, 7>>, <<"ssrc1", 0, 8, 15>>, <<"sdst", 0, 16, 22>>, <<"op", 0, 23, 29>> >>,
  sopk  |-> << <<"simm16", 0, 0, 15>>, <<"sdst", 0, 16, 22>>, <<"op", 0, 23, 27>> >>,
  sop1  |-> << <<"ssrc0", 0, 0, 7>>, <<"op", 0, 8, 15>>, <<"sdst", 0, 16, 22>> >>,
  sopc  |-> << <<"ssrc0", 0, 0, 7>>, <<"ssrc1", 0, 8, 15>>, <<"op", 0, 16, 22>> >>,
  sopp  |-> << <<"simm16", 0, 0, 15>>, <<"op", 0, 16, 22>> >>,
  smem  |-> << <<"sbase", 0, 0, 5>>, <<"sdata", 0, 6, 12>>, <<"glc", 0, 16, 16>>, <<"imm", 0, 17, 17>>,
               <<"op", 0, 18, 25>>, <<"offset", 1, 0, 19>> >>,
  vop2  |-> << <<"src0", 0, 0, 8>>, <<"vsrc1", 0, 9, 16>>, <<"vdst", 0, 17, 24>>, <<"op", 0, 25, 30>> >>,
  vop1  |-> << <<"src0", 0, 0, 8>>, <<"op", 0, 9, 16>>, <<"vdst", 0, 17, 24>> >>,
  vopc  |-> << <<"src0", 0, 0, 8>>, <<"vsrc1", 0, 9, 16>>, <<"op", 0, 17, 24>> >>,
  vop3a |-> << <<"vdst", 0, 0, 7>>, <<"abs", 0, 8, 10>>, <<"opsel", 0, 11, 14>>, <<"clamp", 0, 15, 15>>,
               <<"op", 0, 16, 25>>, <<"src0", 1, 0, 8>>, <<"src1", 1, 9, 17>>, <<"src2", 1, 18, 26>>,
               <<"omod", 1, 27, 28>>, <<"neg", 1, 29, 31>> >>,
  vop3b |-> << <<"vdst", 0, 0, 7>>, <<"sdst", 0, 8, 14>>, <<"clamp", 0, 15, 15>>, <<"op", 0, 16, 25>>,
               <<"src0", 1, 0, 8>>, <<"src1", 1, 9, 17>>, <<"src2", 1, 18, 26>>,
               <<"omod", 1, 27, 28>>, <<"neg", 1, 29, 31>> >>,
  ds    |-> << <<"offset0", 0, 0, 7>>, <<"offset1", 0, 8, 15>>, <<"gds", 0, 16, 16>>, <<"op", 0, 17, 24>>,
               <<"addr", 1, 0, 7>>, <<"data0", 1, 8, 15>>, <<"data1", 1, 16, 23>>, <<"vdst", 1, 24, 31>> >>,
  flat  |-> << <<"offset", 0, 0, 12>>, <<"glc", 0, 16, 16>>, <<"slc", 0, 17, 17>>, <<"op", 0, 18, 24>>,
               <<"addr", 1, 0, 7>>, <<"data", 1, 8, 15>>, <<"saddr", 1, 16, 22>>, <<"tfe", 1, 23, 23>>,
               <<"vdst", 1, 24, 31>> >>,
  \* second dword of a VOP2 instruction whose src0 field is 249 (SDWA)
  sdwa  |-> << <<"src0", 1, 0, 7>>, <<"dst_sel", 1, 8, 10>>, <<"dst_u", 1, 11, 12>>, <<"clamp", 1, 13, 13>>,
               <<"src0_sel", 1, 16, 18>>, <<"src0_sext", 1, 19, 19>>, <<"src0_neg", 1, 20, 20>>,
               <<"src0_abs", 1, 21, 21>>, <<"src1_sel", 1, 24, 26>>, <<"src1_sext", 1, 27, 27>>,
               <<"src1_neg", 1, 28, 28>>, <<"src1_abs", 1, 29, 29>>, <<"s0", 1, 30, 30>>, <<"s1", 1, 31, 31>> >> ]

\* high limb of the encoding of a format (VOP3b shares VOP3a's)
EncHi(f) == LET n == IF f = "vop3b" THEN "vop3a" ELSE f
                i == CHOOSE j \in 1..NF : Formats[j].n = n
            IN Formats[i].enc
BaseSize(f) == LET n == IF f = "vop3b" THEN "vop3a" ELSE f
                   i == CHOOSE j \in 1..NF : Formats[j].n = n
               IN Formats[i].sz

\* contribution of value v placed at bit lo of a dword, as <<hi limb, lo limb>>
Place(v, lo) == IF lo >= 16 THEN <<v * (2^(lo - 16)), 0>>
                ELSE <<(v * (2^lo)) \div 65536, (v * (2^lo)) % 65536>>
Val(fv, name) == IF name \in DOMAIN fv THEN fv[name] ELSE 0

RECURSIVE SumFields(_, _, _, _)
SumFields(lay, k, fv, i) ==
  IF i > Len(lay) THEN <<0, 0>>
  ELSE LET e == lay[i]
           r == SumFields(lay, k, fv, i + 1)
           p == IF e[2] = k THEN Place(Val(fv, e[1]), e[3]) ELSE <<0, 0>>
       IN <<p[1] + r[1], p[2] + r[2]>>

\* dword k of format lay with field values fv
AsmW(lay, k, fv) == SumFields(Layout[lay], k, fv, 1)
Bytes(w) == <<w[2] % 256, w[2] \div 256, w[1] % 256, w[1] \div 256>>
Bytes2W(w) == w
W0(f, fv) == LET w == AsmW(f, 0, fv) IN <<w[1] + EncHi(f), w[2]>>

\* operand -> operand code (inverse of Opnd)
CodeOf(o) ==
  CASE o[1] = "reg"   -> o[2]
    [] o[1] = "int"   -> IF o[2] >= 0 THEN 128 + o[2] ELSE 192 - o[2]
    [] o[1] = "float" -> o[2]
    [] o[1] = "lit"   -> 255
    [] OTHER          -> 0
VIdx(o) == IF o[1] = "reg" THEN o[2] - 256 ELSE 0
IsV(o) == o[1] = "reg" /\ o[2] >= 256
LitOf(S) == LET o == CHOOSE x \in S : IsLit(x) IN <<o[2], o[3]>>
HasLit(S) == \E x \in S : IsLit(x)

\* field values of a description d (a Decode result of kind "inst")
FieldsOf(d) ==
  LET o == d.o  m == d.m  f == d.f  op == d.op IN
  CASE f = "sop2" -> [ssrc0 |-> CodeOf(o[1]), ssrc1 |-> CodeOf(o[2]), sdst |-> CodeOf(o[4]), op |-> op]
    [] f = "sopk" -> [simm16 |-> o[11][2], sdst |-> CodeOf(o[4]), op |-> op]
    [] f = "sop1" -> [ssrc0 |-> CodeOf(o[1]), sdst |-> CodeOf(o[4]), op |-> op]
    [] f = "sopc" -> [ssrc0 |-> CodeOf(o[1]), ssrc1 |-> CodeOf(o[2]), op |-> op]
    [] f = "sopp" -> [simm16 |-> o[11][2], op |-> op]
    [] f = "smem" -> [sbase |-> CodeOf(o[9]) \div 2, sdata |-> CodeOf(o[7]), glc |-> m[11], imm |-> m[13],
                      offset |-> IF m[13] = 1 THEN o[10][2] ELSE CodeOf(o[10]), op |-> op]
    [] f = "vop2" -> [src0 |-> IF m[18] = 1 THEN 249 ELSE CodeOf(o[1]),
                      vsrc1 |-> IF IsV(o[2]) THEN VIdx(o[2]) ELSE CodeOf(o[2]), vdst |-> VIdx(o[4]), op |-> op]
    [] f = "vop1" -> [src0 |-> CodeOf(o[1]), vdst |-> IF op = 2 THEN CodeOf(o[4]) ELSE VIdx(o[4]), op |-> op]
    [] f = "vopc" -> [src0 |-> CodeOf(o[1]), vsrc1 |-> VIdx(o[2]), op |-> op]
    [] f = "vop3a" -> [vdst |-> IF op <= 255 THEN CodeOf(o[4]) ELSE VIdx(o[4]), abs |-> m[1],
                       opsel |-> IF op = 944 THEN m[4] + 8 * (m[5] \div 4) ELSE m[4], clamp |-> m[14],
                       src0 |-> CodeOf(o[1]), src1 |-> CodeOf(o[2]), src2 |-> CodeOf(o[3]),
                       omod |-> m[2], neg |-> m[3], op |-> op]
    [] f = "vop3b" -> [vdst |-> VIdx(o[4]), sdst |-> CodeOf(o[5]), clamp |-> m[14],
                       src0 |-> CodeOf(o[1]), src1 |-> CodeOf(o[2]), src2 |-> CodeOf(o[3]),
                       omod |-> m[2], neg |-> m[3], op |-> op]
    [] f = "ds"   -> [offset0 |-> IF op \in DSSplitOffsetOps THEN m[7] ELSE m[7] % 256, offset1 |-> m[9],
                      gds |-> m[15], addr |-> VIdx(o[6]), data0 |-> VIdx(o[7]), data1 |-> VIdx(o[8]),
                      vdst |-> VIdx(o[4]), op |-> op]
    [] f = "flat" -> [offset |-> m[7] % 8192, glc |-> m[11], slc |-> m[10], tfe |-> m[12],
                      addr |-> VIdx(o[6]), data |-> VIdx(o[7]), saddr |-> o[12][2], vdst |-> VIdx(o[4]), op |-> op]

SdwaFieldsOf(d) ==
  LET o == d.o  m == d.m IN
  [src0 |-> IF IsV(o[1]) THEN VIdx(o[1]) ELSE CodeOf(o[1]), s0 |-> IF IsV(o[1]) THEN 0 ELSE 1,
   s1 |-> IF IsV(o[2]) THEN 0 ELSE 1, dst_sel |-> m[19], dst_u |-> m[20], src0_sel |-> m[21], src1_sel |-> m[22]]

\* the bytes of description d
Encode(d) ==
  LET f  == d.f
      w0 == W0(f, FieldsOf(d))
      srcs == {d.o[1], d.o[2], d.o[3]}
  IN IF BaseSize(f) = 8 THEN Bytes(w0) \o Bytes(AsmW(f, 1, FieldsOf(d)))
     ELSE IF f = "vop2" /\ d.m[18] = 1 THEN Bytes(w0) \o Bytes(AsmW("sdwa", 1, SdwaFieldsOf(d)))
     ELSE IF HasLit(srcs) THEN Bytes(w0) \o Bytes(LitOf(srcs))
     ELSE Bytes(w0)

\* Assemble raw field values (no description needed): dword 0 and 1 of format f
\* with field values fv, and x1 as the second dword of a 4-byte format
\* (literal / SDWA dword / junk).
AsmFields(f, fv, x1) ==
  IF BaseSize(f) = 8 THEN Bytes(W0(f, fv)) \o Bytes(AsmW(f, 1, fv))
  ELSE Bytes(W0(f, fv)) \o Bytes(x1)

\* =========================================================================
\* Print: the disassembly text of a description (insts.InstPrinter.Print and
\* insts.Operand.String; the LLVM-style text the repository's tests compare)
\* =========================================================================
HexDigit(n) == SubSeq("0123456789abcdef", n + 1, n + 1)
RECURSIVE Hex(_)
Hex(n) == IF n < 16 THEN HexDigit(n) ELSE Hex(n \div 16) \o HexDigit(n % 16)
Hex4(n) == HexDigit(n \div 4096) \o HexDigit((n \div 256) % 16) \o HexDigit((n \div 16) % 16) \o HexDigit(n % 16)
Hex32(hi, lo) == IF hi = 0 THEN Hex(lo) ELSE Hex(hi) \o Hex4(lo)

Unprintable == "?"         \* the text is not specified (register ranges of registers that have none)
SpecialName(c) ==
  CASE c = 102 -> "flatsratchlo" [] c = 103 -> "flatsratchhi" [] c = 104 -> "xnackmasklo" [] c = 105 -> "xnackmaskhi"
    [] c = 106 -> "vcclo" [] c = 107 -> "vcchi" [] c = 108 -> "tbalo" [] c = 109 -> "tbahi"
    [] c = 110 -> "tmalo" [] c = 111 -> "tmahi" [] c = 124 -> "m0" [] c = 126 -> "execlo" [] c = 127 -> "exechi"
    [] c = 251 -> "vccz" [] c = 252 -> "execz" [] c = 253 -> "scc"
    [] OTHER -> "timp" \o ToString(c - 112)
\* a register range: s[a:b], v[a:b], the 64-bit name of a lo half, otherwise unspecified
RangeName(c, n) ==
  IF c <= 101 THEN "s[" \o ToString(c) \o ":" \o ToString(c + n - 1) \o "]"
  ELSE IF c >= 256 THEN "v[" \o ToString(c - 256) \o ":" \o ToString(c - 256 + n - 1) \o "]"
  ELSE CASE c = 102 -> "flatsratch" [] c = 104 -> "xnackmask" [] c = 106 -> "vcc" [] c = 108 -> "tba"
         [] c = 110 -> "tma" [] c = 126 -> "exec" [] OTHER -> Unprintable
FloatText(c) ==
  CASE c = 240 -> "0.5" [] c = 241 -> "-0.500000" [] c = 242 -> "1.0" [] c = 243 -> "-1.0" [] c = 244 -> "2.000000"
    [] c = 245 -> "-2.000000" [] c = 246 -> "4.000000" [] c = 247 -> "-4.000000" [] OTHER -> "0.159155"
OpText(o) ==
  CASE o[1] = "reg"   -> IF o[3] > 1 THEN RangeName(o[2], o[3])
                         ELSE IF o[2] <= 101 THEN "s" \o ToString(o[2])
                         ELSE IF o[2] >= 256 THEN "v" \o ToString(o[2] - 256)
                         ELSE SpecialName(o[2])
    [] o[1] = "int"   -> ToString(o[2])
    [] o[1] = "float" -> FloatText(o[2])
    [] o[1] = "lit"   -> "0x" \o Hex32(o[2], o[3])
    [] OTHER          -> Unprintable
SelText(i) == CASE i = 0 -> "BYTE_0" [] i = 1 -> "BYTE_1" [] i = 2 -> "BYTE_2" [] i = 3 -> "BYTE_3"
                [] i = 4 -> "WORD_0" [] i = 5 -> "WORD_1" [] OTHER -> "DWORD"
UnusedText(i) == CASE i = 0 -> "UNUSED_PAD" [] i = 1 -> "UNUSED_SEXT" [] OTHER -> "UNUSED_PRESERVE"
ModText(o, neg, abs) ==
  (IF neg = 1 THEN "-" ELSE "") \o (IF abs = 1 THEN "|" ELSE "") \o OpText(o) \o (IF abs = 1 THEN "|" ELSE "")

PrintRaw(d) ==
  LET o == d.o  m == d.m  op == d.op  nm == d.nm  row == Lookup(d.f, d.op)
      s0 == OpText(o[1])  s1 == OpText(o[2])  s2 == OpText(o[3])  dst == OpText(o[4])
  IN
  CASE d.f = "sop2" -> nm \o " " \o dst \o ", " \o s0 \o ", " \o s1
    [] d.f = "sop1" -> nm \o " " \o dst \o ", " \o s0
    [] d.f = "vop1" -> nm \o " " \o dst \o ", " \o s0
    [] d.f = "sopc" -> nm \o " " \o s0 \o ", " \o s1
    [] d.f = "sopk" -> nm \o " " \o dst \o ", 0x" \o Hex(o[11][2])
    [] d.f = "sopp" -> IF op = 12
                       THEN nm \o (IF m[16] # 15 THEN " vmcnt(" \o ToString(m[16]) \o ")" ELSE "")
                               \o (IF m[17] # 15 THEN " lgkmcnt(" \o ToString(m[17]) \o ")" ELSE "")
                       ELSE IF op = 1 \/ op = 10 THEN nm
                       ELSE nm \o " " \o OpText(o[11])
    [] d.f = "smem" -> nm \o " " \o OpText(o[7]) \o ", " \o OpText(o[9]) \o ", 0x"
                          \o Hex(IF o[10][1] = "int" THEN o[10][2] % 65536 ELSE 0)
    [] d.f = "vopc" -> nm \o " " \o (IF row.cx THEN "exec" ELSE "vcc") \o ", " \o s0 \o ", " \o s1
    [] d.f = "vop2" ->
         LET body == (IF m[18] = 1 THEN row.alt ELSE nm) \o " " \o dst
                     \o (IF op \in 25..30 THEN ", vcc" ELSE "") \o ", " \o s0 \o ", " \o s1
                     \o (IF op \in {0, 28, 29} THEN ", vcc" ELSE IF op \in {24, 37} THEN ", " \o s2 ELSE "")
         IN IF m[18] = 1
            THEN body \o " dst_sel:" \o SelText(m[19]) \o " dst_unused:" \o UnusedText(m[20])
                      \o " src0_sel:" \o SelText(m[21]) \o " src1_sel:" \o SelText(m[22])
            ELSE body
    [] d.f = "vop3a" -> nm \o " " \o dst \o ", " \o ModText(o[1], m[24], m[25]) \o ", " \o ModText(o[2], m[27], m[28])
                           \o (IF o[3] = None THEN "" ELSE ", " \o ModText(o[3], m[29], m[30]))
    [] d.f = "vop3b" -> nm \o " " \o (IF o[4] = None THEN "" ELSE dst \o ", ") \o OpText(o[5]) \o ", " \o s0 \o ", " \o s1
                           \o (IF op # 281 /\ o[3] # None THEN ", " \o s2 ELSE "")
    [] d.f = "ds" ->
         nm \o " " \o (IF op \in {54, 55, 56, 57, 58, 59, 60, 118, 119, 120, 254, 255} THEN dst \o ", " ELSE "")
            \o OpText(o[6])
            \o (IF o[7] # None THEN ", " \o OpText(o[7]) ELSE "")
            \o (IF o[8] # None THEN ", " \o OpText(o[8]) ELSE "")
            \o (IF op \in {13, 54, 254, 255}
                THEN (IF m[7] > 0 THEN " offset:" \o ToString(m[7]) ELSE "")
                ELSE (IF m[7] > 0 THEN " offset0:" \o ToString(m[7]) ELSE "")
                     \o (IF m[9] > 0 THEN " offset1:" \o ToString(m[9]) ELSE ""))
    [] d.f = "flat" ->
         LET glob == o[12][2] = 127
             name == IF glob THEN row.alt ELSE nm
         IN IF op \in 16..23 THEN name \o " " \o dst \o ", " \o OpText(o[6]) \o (IF glob THEN ", off" ELSE "")
            ELSE IF op \in 24..31 THEN name \o " " \o OpText(o[6]) \o ", " \o OpText(o[7]) \o (IF glob THEN ", off" ELSE "")
            ELSE ""

\* the text, or Unprintable when some operand has no specified text
Disasm(d) ==
  IF \E i \in 1..Len(d.o) : d.o[i] # None /\ OpText(d.o[i]) = Unprintable
  THEN Unprintable ELSE PrintRaw(d)

=============================================================================
