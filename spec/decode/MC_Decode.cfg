SPECIFICATION Spec
CONSTANTS
  Wide = FALSE
INVARIANTS AllProps
CHECK_DEADLOCK FALSE
