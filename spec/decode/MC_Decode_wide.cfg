SPECIFICATION Spec
CONSTANTS
  Wide = TRUE
INVARIANTS Total RoundTrip Sized Suffix Prefix Sizes
CHECK_DEADLOCK FALSE
