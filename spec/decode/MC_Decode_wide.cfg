SPECIFICATION Spec
CONSTANTS
  Wide = TRUE
INVARIANTS Total RoundTrip Sized Suffix Prefix Sizes Printable
CHECK_DEADLOCK FALSE
