SPECIFICATION Spec
CONSTANTS
  Wide = TRUE
INVARIANTS AllProps
CHECK_DEADLOCK FALSE
