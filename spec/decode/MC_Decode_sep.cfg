SPECIFICATION Spec
CONSTANTS
  Wide = FALSE
INVARIANTS Total RoundTrip Sized Suffix Prefix Sizes
CHECK_DEADLOCK FALSE
