SPECIFICATION Spec
CONSTANTS
  Wide = FALSE
INVARIANTS Total RoundTrip Sized Suffix Prefix Sizes Printable
CHECK_DEADLOCK FALSE
