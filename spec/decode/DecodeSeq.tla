----------------------------- MODULE DecodeSeq -----------------------------
(***************************************************************************)
(* Sequential decoding of a program: the environment assembles a program    *)
(* (Emit appends Encode(d)), possibly followed by bytes that are not part   *)
(* of it, then the decoder walks it from offset 0 the way                   *)
(* emu.ComputeUnit.runWfUntilBarrier, cu.SchedulerImpl.DecodeNextInst and   *)
(* Disassembler.Disassemble do: decode at pc the rest of the buffer,        *)
(* advance by the reported size.                                            *)
(*   Tiling      the decoded instructions are exactly the emitted ones,     *)
(*               pc never passes the end of the code                        *)
(*   NeverStuck  every step of an assembled program decodes                 *)
(*   Consumed    (liveness, WF on Step) pc reaches the end of the code      *)
(* Fetch models the timing front end: the decoder may be shown only a       *)
(* prefix of the remaining code (instruction buffer not yet filled); it     *)
(* must then answer "undecodable" or the same instruction - never a         *)
(* different one.                                                           *)
(***************************************************************************)
EXTENDS Decode

CONSTANTS Descs,     \* instruction descriptions the environment may emit
          MaxProg,   \* program length bound
          CDNA3

VARIABLES prog,      \* emitted descriptions
          code,      \* their concatenated encodings
          pc,        \* decoder position
          out,       \* decoded descriptions
          phase      \* "asm" | "run" | "stuck"
vars == <<prog, code, pc, out, phase>>

Init == prog = <<>> /\ code = <<>> /\ pc = 0 /\ out = <<>> /\ phase = "asm"

Emit(d) == /\ phase = "asm" /\ Len(prog) < MaxProg
           /\ prog' = Append(prog, d) /\ code' = code \o Encode(d)
           /\ UNCHANGED <<pc, out, phase>>
Seal == phase = "asm" /\ prog # <<>> /\ phase' = "run" /\ UNCHANGED <<prog, code, pc, out>>

Rest == SubSeq(code, pc + 1, Len(code))
Step == /\ phase = "run" /\ pc < Len(code)
        /\ LET E == Decode(Rest, CDNA3) IN
             IF E.k = "inst"
             THEN pc' = pc + E.sz /\ out' = Append(out, E) /\ UNCHANGED <<prog, code, phase>>
             ELSE phase' = "stuck" /\ UNCHANGED <<prog, code, pc, out>>

Next == (\E d \in Descs : Emit(d)) \/ Seal \/ Step
Spec == Init /\ [][Next]_vars /\ WF_vars(Step)

Tiling == /\ pc <= Len(code)
          /\ Len(out) <= Len(prog)
          /\ \A i \in 1..Len(out) : out[i] = prog[i]
          /\ (phase = "run" /\ pc = Len(code)) => out = prog
NeverStuck == phase # "stuck"
\* a partially fetched instruction is either not decoded yet or decoded identically
PartialFetch == phase = "run" /\ pc < Len(code) =>
                  \A n \in 0..(Len(code) - pc) :
                     LET T == Decode(SubSeq(code, pc + 1, pc + n), CDNA3) IN
                     T.k = "inst" => T = Decode(Rest, CDNA3) /\ T.sz <= n
Consumed == (phase = "run") ~> (pc = Len(code))
=============================================================================
