SPECIFICATION TSpec
CONSTANTS
  Deviations = {"short_panic", "operand_panic", "operand_inst", "literal_twice", "sdwa_k_inst", "sdwa_sel_inst", "sreg_range_inst", "sreg_linear", "vop3_lit_inst", "ds_gds_bit4", "ds_read_no_dst", "seq_undecodable", "explore"}
CONSTRAINT Mark
POSTCONDITION Accepted
CHECK_DEADLOCK FALSE
