----------------------------- MODULE DecodeScen -----------------------------
(***************************************************************************)
(* Scenario export (spec -> code).                                          *)
(*  1. Row cover: for every row of the golden table, Variants descriptions   *)
(*     with pseudo-randomly chosen (Seed) valid operand fields; TLC writes   *)
(*     description + Encode(description) to rows.ndjson.  The real decoder   *)
(*     must return exactly the description for exactly these bytes.          *)
(*  2. Programs: `tlc -simulate` behaviours of DecodeSeq whose Emit steps    *)
(*     draw random descriptions; the final state's (code, prog) is replayed  *)
(*     through the real decoder sequentially.                                *)
(***************************************************************************)
EXTENDS DecodeSeq, TLC, Json

CONSTANTS Seed, Variants
VARIABLE act

\* ------------------------------------------------------------ valid operand codes
Src8 == <<0, 1, 5, 50, 100, 101, 102, 103, 104, 105, 106, 107, 108, 109, 110, 111, 112, 117, 122, 124, 126, 127,
          128, 129, 160, 192, 193, 200, 208, 240, 241, 242, 243, 244, 245, 246, 247, 248, 251, 252, 253, 255>>
Src8NoLit == SubSeq(Src8, 1, Len(Src8) - 1)
Src9 == Src8 \o <<256, 257, 300, 400, 511>>
Src9NoLit == Src8NoLit \o <<256, 257, 300, 400, 511>>
Dst7 == <<0, 1, 2, 50, 100, 101, 102, 106, 107, 124, 126, 127>>
V8 == <<0, 1, 2, 3, 100, 127, 128, 255>>
Imm16 == <<0, 1, 127, 3952, 4660, 32768, 65535>>
Off13 == <<0, 4, 64, 4095, 4096, 6000, 8191>>
Off20 == <<0, 4, 256, 65536, 1048575>>
SOff == <<0, 1, 50, 101>>
Dwords == <<<<0, 0>>, <<4660, 22136>>, <<65535, 65535>>, <<16256, 0>>, <<32768, 1>>>>

H(i, j, k) == (Seed * 7919 + i * 613 + j * 131 + k * 17) % 9973
P(seq, h) == seq[(h % Len(seq)) + 1]

\* field values for row (f, op), variant v
RowFields(f, op, v) ==
  LET h(k) == H(op, v, k) IN
  CASE f = "sop2" -> [ssrc0 |-> P(Src8, h(1)), ssrc1 |-> P(Src8NoLit, h(2)), sdst |-> P(Dst7, h(3)), op |-> op]
    [] f = "sopk" -> [simm16 |-> P(Imm16, h(1)), sdst |-> P(Dst7, h(2)), op |-> op]
    [] f = "sop1" -> [ssrc0 |-> P(Src8, h(1)), sdst |-> P(Dst7, h(2)), op |-> op]
    [] f = "sopc" -> [ssrc0 |-> P(Src8NoLit, h(1)), ssrc1 |-> P(Src8, h(2)), op |-> op]
    [] f = "sopp" -> [simm16 |-> P(Imm16, h(1)), op |-> op]
    [] f = "smem" -> [sbase |-> h(1) % 51, sdata |-> P(Dst7, h(2)), glc |-> h(3) % 2, imm |-> h(4) % 2,
                      offset |-> IF h(4) % 2 = 1 THEN P(Off20, h(5)) ELSE P(SOff, h(5)), op |-> op]
    [] f = "vop2" -> [src0 |-> IF op \in VOP2KOps THEN P(Src9NoLit, h(1)) ELSE P(Src9, h(1)),
                      vsrc1 |-> P(V8, h(2)), vdst |-> P(V8, h(3)), op |-> op]
    [] f = "vop1" -> [src0 |-> P(Src9, h(1)), vdst |-> IF op = 2 THEN P(Dst7, h(2)) ELSE P(V8, h(2)), op |-> op]
    [] f = "vopc" -> [src0 |-> P(Src9, h(1)), vsrc1 |-> P(V8, h(2)), op |-> op]
    [] f = "vop3a" -> [vdst |-> IF op <= 255 THEN P(Dst7, h(1)) ELSE P(V8, h(1)), abs |-> h(2) % 8,
                       opsel |-> h(3) % 16, clamp |-> h(4) % 2, src0 |-> P(Src9NoLit, h(5)),
                       src1 |-> P(Src9NoLit, h(6)), src2 |-> P(Src9NoLit, h(7)), omod |-> h(8) % 4,
                       neg |-> h(9) % 8, op |-> op]
    [] f = "vop3b" -> [vdst |-> P(V8, h(1)), sdst |-> P(Dst7, h(2)), clamp |-> h(3) % 2, src0 |-> P(Src9NoLit, h(4)),
                       src1 |-> P(Src9NoLit, h(5)), src2 |-> P(Src9NoLit, h(6)), omod |-> h(7) % 4,
                       neg |-> h(8) % 8, op |-> op]
    [] f = "ds"   -> [offset0 |-> h(1) % 256, offset1 |-> h(2) % 256, gds |-> h(3) % 2, addr |-> P(V8, h(4)),
                      data0 |-> P(V8, h(5)), data1 |-> P(V8, h(6)), vdst |-> P(V8, h(7)), op |-> op]
    [] f = "flat" -> [offset |-> P(Off13, h(1)), glc |-> h(2) % 2, slc |-> h(3) % 2, tfe |-> h(4) % 2,
                      addr |-> P(V8, h(5)), data |-> P(V8, h(6)), saddr |-> P(<<0, 2, 100, 127>>, h(7)),
                      vdst |-> P(V8, h(8)), op |-> op]

\* SDWA variants of VOP2 rows: supported selectors only
SdwaDword(op, v) ==
  LET h(k) == H(op, v, 20 + k) IN
  AsmW("sdwa", 1, [src0 |-> IF h(6) % 4 = 0 THEN P(Dst7, h(1)) ELSE h(1) % 256, dst_sel |-> h(2) % 7, dst_u |-> h(3) % 3,
                   src0_sel |-> h(4) % 7, src1_sel |-> h(5) % 7, s0 |-> IF h(6) % 4 = 0 THEN 1 ELSE 0, s1 |-> 0])

RowRec(f, op, v) ==
  IF Lookup(f, op).nm = "" THEN [k |-> "skip"]
  ELSE LET sdwa == f = "vop2" /\ op \notin VOP2KOps /\ v % 3 = 0
           fv == IF sdwa THEN [RowFields(f, op, v) EXCEPT !.src0 = 249] ELSE RowFields(f, op, v)
           x  == IF sdwa THEN SdwaDword(op, v) ELSE P(Dwords, H(op, v, 11))
           c  == IF f = "flat" \/ (f = "vop1" /\ op = 56) THEN H(op, v, 12) % 2 ELSE 0
           d  == Decode(AsmFields(f, fv, x), c = 1)
       IN IF d.k = "inst" THEN [k |-> "row", c |-> c, b |-> Encode(d), want |-> d]
          ELSE [k |-> "und", f |-> f, op |-> op, why |-> d.why]

FormatSeq == <<"sop2", "sopk", "sop1", "sopc", "sopp", "smem", "vop2", "vop1", "vopc", "vop3a", "vop3b", "ds", "flat">>
RowsOf(f) == [i \in 1..(Len(OpTab[f]) * Variants) |-> RowRec(f, (i - 1) \div Variants, (i - 1) % Variants)]
RECURSIVE AllRows(_)
AllRows(i) == IF i > Len(FormatSeq) THEN <<>> ELSE RowsOf(FormatSeq[i]) \o AllRows(i + 1)

ASSUME Variants = 0 \/ ndJsonSerialize("rows.ndjson", AllRows(1))

\* ---------------------------------------------------------------- history pairs
\* Decoding is a function of the bytes: it may depend neither on what the decoder (or any
\* other decoder instance) decoded before, nor may a later decode change an instruction that
\* was already returned.  HistPairs enumerates, for every inline constant code c and every
\* pair (use of c as a 64-bit operand, use of c as a 32-bit operand), the two descriptions and
\* their encodings; the driver decodes a, b on one instance, re-reads both returned
\* instructions, decodes b, a on another instance and re-reads again - every observation
\* must be the description written here.
U(f, fv, k) == [f |-> f, fv |-> fv, k |-> k]
V3(op) == [vdst |-> 4, abs |-> 0, opsel |-> 0, clamp |-> 0, src0 |-> 258, src1 |-> 260, src2 |-> 262, omod |-> 0, neg |-> 0, op |-> op]
V3b(op) == [vdst |-> 4, sdst |-> 106, clamp |-> 0, src0 |-> 258, src1 |-> 260, src2 |-> 262, omod |-> 0, neg |-> 0, op |-> op]
Use64 == << U("sop2", [ssrc0 |-> 2, ssrc1 |-> 4, sdst |-> 6, op |-> 13], "ssrc0"),      \* s_and_b64
            U("sop2", [ssrc0 |-> 2, ssrc1 |-> 4, sdst |-> 6, op |-> 13], "ssrc1"),
            U("sop1", [ssrc0 |-> 2, sdst |-> 6, op |-> 1], "ssrc0"),                     \* s_mov_b64
            U("vop1", [src0 |-> 258, vdst |-> 4, op |-> 15], "src0"),                    \* v_cvt_f32_f64
            U("vopc", [src0 |-> 258, vsrc1 |-> 4, op |-> 97], "src0"),                   \* v_cmp_lt_f64
            U("vop3a", V3(460), "src2"), U("vop3a", V3(640), "src0"), U("vop3a", V3(97), "src1"),   \* v_fma_f64, v_add_f64, v_cmp_lt_f64
            U("vop3b", V3b(481), "src1") >>                                               \* v_div_scale_f64
Use32 == << U("sop2", [ssrc0 |-> 2, ssrc1 |-> 4, sdst |-> 6, op |-> 0], "ssrc1"),       \* s_add_u32
            U("sop1", [ssrc0 |-> 2, sdst |-> 6, op |-> 0], "ssrc0"),                     \* s_mov_b32
            U("sopc", [ssrc0 |-> 2, ssrc1 |-> 4, op |-> 0], "ssrc0"),                    \* s_cmp_eq_i32
            U("vop1", [src0 |-> 258, vdst |-> 4, op |-> 1], "src0"),                     \* v_mov_b32
            U("vop2", [src0 |-> 258, vsrc1 |-> 1, vdst |-> 4, op |-> 1], "src0"),        \* v_add_f32
            U("vopc", [src0 |-> 258, vsrc1 |-> 4, op |-> 65], "src0"),                   \* v_cmp_lt_f32
            U("vop3a", V3(449), "src0"), U("vop3a", V3(449), "src2"),                    \* v_mad_f32
            U("vop3b", V3b(480), "src2") >>                                               \* v_div_scale_f32
ConstCodes == <<128, 129, 192, 193, 208, 240, 241, 242, 243, 244, 245, 246, 247, 248>>
UseDesc(u, c) == Decode(AsmFields(u.f, [u.fv EXCEPT ![u.k] = c], <<0, 0>>), FALSE)
HistRec(i, j, n) ==
  LET da == UseDesc(Use64[i], ConstCodes[n])
      db == UseDesc(Use32[j], ConstCodes[n])
  IN [k |-> IF da.k = "inst" /\ db.k = "inst" THEN "pair" ELSE "und", c |-> 0,
      a |-> IF da.k = "inst" THEN Encode(da) ELSE <<>>, wa |-> da,
      b |-> IF db.k = "inst" THEN Encode(db) ELSE <<>>, wb |-> db]
NP == Len(Use64) * Len(Use32)
HistPairs == [x \in 1..(NP * Len(ConstCodes)) |->
                LET y == (x - 1) % NP IN
                HistRec((y \div Len(Use32)) + 1, (y % Len(Use32)) + 1, ((x - 1) \div NP) + 1)]
ASSUME Variants = 0 \/ ndJsonSerialize("hist.ndjson", HistPairs)

\* ------------------------------------------------------------- random programs
ProgFormats == {"sop2", "sopk", "sop1", "sopc", "sopp", "smem", "vop2", "vop1", "vopc", "vop3a", "vop3b", "ds", "flat"}
SInit == Init /\ act = "Init"
EmitRandom ==
  \E f \in {RandomElement(ProgFormats)} :
  \E op \in {RandomElement(OpsOf(f))} :
  \E v \in {RandomElement(0..9972)} :
    LET r == RowRec(f, op, v) IN
    /\ r.k = "row" /\ r.c = 0
    /\ Emit(r.want) /\ act' = "Emit"
SNext == EmitRandom \/ (Len(prog) >= 6 /\ Seal /\ act' = "Seal") \/ (Step /\ act' = "Step")
SSpec == SInit /\ [][SNext]_<<vars, act>>
=============================================================================
