----------------------------- MODULE DecodeScen -----------------------------
(***************************************************************************)
(* Scenario export (spec -> code).                                          *)
(*  1. Row cover: for every row of the golden table, Variants descriptions   *)
(*     with pseudo-randomly chosen (Seed) valid operand fields; TLC writes   *)
(*     description + Encode(description) to rows.ndjson.  The real decoder   *)
(*     must return exactly the description for exactly these bytes.          *)
(*  2. Programs: `tlc -simulate` behaviours of DecodeSeq whose Emit steps    *)
(*     draw random descriptions; the final state's (code, prog) is replayed  *)
(*     through the real decoder sequentially.                                *)
(***************************************************************************)
EXTENDS DecodeSeq, TLC, Json

CONSTANTS Seed, Variants
VARIABLE act

\* ------------------------------------------------------------ valid operand codes
Src8 == <<0, 1, 5, 50, 100, 101, 102, 103, 104, 105, 106, 107, 108, 109, 110, 111, 112, 117, 122, 124, 126, 127,
          128, 129, 160, 192, 193, 200, 208, 240, 241, 242, 243, 244, 245, 246, 247, 248, 251, 252, 253, 255>>
Src8NoLit == SubSeq(Src8, 1, Len(Src8) - 1)
Src9 == Src8 \o <<256, 257, 300, 400, 511>>
Src9NoLit == Src8NoLit \o <<256, 257, 300, 400, 511>>
Dst7 == <<0, 1, 2, 50, 100, 101, 102, 106, 107, 124, 126, 127>>
V8 == <<0, 1, 2, 3, 100, 127, 128, 255>>
Imm16 == <<0, 1, 127, 3952, 4660, 32768, 65535>>
Off13 == <<0, 4, 64, 4095, 4096, 6000, 8191>>
Off20 == <<0, 4, 256, 65536, 1048575>>
SOff == <<0, 1, 50, 101>>
Dwords == <<<<0, 0>>, <<4660, 22136>>, <<65535, 65535>>, <<16256, 0>>, <<32768, 1>>>>

H(i, j, k) == (Seed * 7919 + i * 613 + j * 131 + k * 17) % 9973
P(seq, h) == seq[(h % Len(seq)) + 1]

\* field values for row (f, op), variant v
RowFields(f, op, v) ==
  LET h(k) == H(op, v, k) IN
  CASE f = "sop2" -> [ssrc0 |-> P(Src8, h(1)), ssrc1 |-> P(Src8NoLit, h(2)), sdst |-> P(Dst7, h(3)), op |-> op]
    [] f = "sopk" -> [simm16 |-> P(Imm16, h(1)), sdst |-> P(Dst7, h(2)), op |-> op]
    [] f = "sop1" -> [ssrc0 |-> P(Src8, h(1)), sdst |-> P(Dst7, h(2)), op |-> op]
    [] f = "sopc" -> [ssrc0 |-> P(Src8NoLit, h(1)), ssrc1 |-> P(Src8, h(2)), op |-> op]
    [] f = "sopp" -> [simm16 |-> P(Imm16, h(1)), op |-> op]
    [] f = "smem" -> [sbase |-> h(1) % 51, sdata |-> P(Dst7, h(2)), glc |-> h(3) % 2, imm |-> h(4) % 2,
                      offset |-> IF h(4) % 2 = 1 THEN P(Off20, h(5)) ELSE P(SOff, h(5)), op |-> op]
    [] f = "vop2" -> [src0 |-> IF op \in VOP2KOps THEN P(Src9NoLit, h(1)) ELSE P(Src9, h(1)),
                      vsrc1 |-> P(V8, h(2)), vdst |-> P(V8, h(3)), op |-> op]
    [] f = "vop1" -> [src0 |-> P(Src9, h(1)), vdst |-> IF op = 2 THEN P(Dst7, h(2)) ELSE P(V8, h(2)), op |-> op]
    [] f = "vopc" -> [src0 |-> P(Src9, h(1)), vsrc1 |-> P(V8, h(2)), op |-> op]
    [] f = "vop3a" -> [vdst |-> IF op <= 255 THEN P(Dst7, h(1)) ELSE P(V8, h(1)), abs |-> h(2) % 8,
                       opsel |-> h(3) % 16, clamp |-> h(4) % 2, src0 |-> P(Src9NoLit, h(5)),
                       src1 |-> P(Src9NoLit, h(6)), src2 |-> P(Src9NoLit, h(7)), omod |-> h(8) % 4,
                       neg |-> h(9) % 8, op |-> op]
    [] f = "vop3b" -> [vdst |-> P(V8, h(1)), sdst |-> P(Dst7, h(2)), clamp |-> h(3) % 2, src0 |-> P(Src9NoLit, h(4)),
                       src1 |-> P(Src9NoLit, h(5)), src2 |-> P(Src9NoLit, h(6)), omod |-> h(7) % 4,
                       neg |-> h(8) % 8, op |-> op]
    [] f = "ds"   -> [offset0 |-> h(1) % 256, offset1 |-> h(2) % 256, gds |-> h(3) % 2, addr |-> P(V8, h(4)),
                      data0 |-> P(V8, h(5)), data1 |-> P(V8, h(6)), vdst |-> P(V8, h(7)), op |-> op]
    [] f = "flat" -> [offset |-> P(Off13, h(1)), glc |-> h(2) % 2, slc |-> h(3) % 2, tfe |-> h(4) % 2,
                      addr |-> P(V8, h(5)), data |-> P(V8, h(6)), saddr |-> P(<<0, 2, 100, 127>>, h(7)),
                      vdst |-> P(V8, h(8)), op |-> op]

\* SDWA variants of VOP2 rows: supported selectors only
SdwaDword(op, v) ==
  LET h(k) == H(op, v, 20 + k) IN
  AsmW("sdwa", 1, [src0 |-> IF h(6) % 4 = 0 THEN P(Dst7, h(1)) ELSE h(1) % 256, dst_sel |-> h(2) % 7, dst_u |-> h(3) % 3,
                   src0_sel |-> h(4) % 7, src1_sel |-> h(5) % 7, s0 |-> IF h(6) % 4 = 0 THEN 1 ELSE 0, s1 |-> 0])

RowRec(f, op, v) ==
  IF Lookup(f, op).nm = "" THEN [k |-> "skip"]
  ELSE LET sdwa == f = "vop2" /\ op \notin VOP2KOps /\ v % 3 = 0
           fv == IF sdwa THEN [RowFields(f, op, v) EXCEPT !.src0 = 249] ELSE RowFields(f, op, v)
           x  == IF sdwa THEN SdwaDword(op, v) ELSE P(Dwords, H(op, v, 11))
           c  == IF f = "flat" \/ (f = "vop1" /\ op = 56) THEN H(op, v, 12) % 2 ELSE 0
           d  == Decode(AsmFields(f, fv, x), c = 1)
       IN IF d.k = "inst" THEN [k |-> "row", c |-> c, b |-> Encode(d), want |-> d]
          ELSE [k |-> "und", f |-> f, op |-> op, why |-> d.why]

FormatSeq == <<"sop2", "sopk", "sop1", "sopc", "sopp", "smem", "vop2", "vop1", "vopc", "vop3a", "vop3b", "ds", "flat">>
RowsOf(f) == [i \in 1..(Len(OpTab[f]) * Variants) |-> RowRec(f, (i - 1) \div Variants, (i - 1) % Variants)]
RECURSIVE AllRows(_)
AllRows(i) == IF i > Len(FormatSeq) THEN <<>> ELSE RowsOf(FormatSeq[i]) \o AllRows(i + 1)

ASSUME Variants = 0 \/ ndJsonSerialize("rows.ndjson", AllRows(1))

\* ------------------------------------------------------------- random programs
ProgFormats == {"sop2", "sopk", "sop1", "sopc", "sopp", "smem", "vop2", "vop1", "vopc", "vop3a", "vop3b", "ds", "flat"}
SInit == Init /\ act = "Init"
EmitRandom ==
  \E f \in {RandomElement(ProgFormats)} :
  \E op \in {RandomElement(OpsOf(f))} :
  \E v \in {RandomElement(0..9972)} :
    LET r == RowRec(f, op, v) IN
    /\ r.k = "row" /\ r.c = 0
    /\ Emit(r.want) /\ act' = "Emit"
SNext == EmitRandom \/ (Len(prog) >= 6 /\ Seal /\ act' = "Seal") \/ (Step /\ act' = "Step")
SSpec == SInit /\ [][SNext]_<<vars, act>>
=============================================================================
