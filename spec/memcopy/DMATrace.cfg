SPECIFICATION TSpec
CONSTANTS
  Line = 1
  NCaches = 0
  TrackWrites = FALSE
  MaxInFlight = 4
  MCReqs = {}
  MaxReq = 0
  MemSize = 1
INVARIANTS TCompleteOnce Bounded
CONSTRAINT Mark
POSTCONDITION Accepted
CHECK_DEADLOCK FALSE
