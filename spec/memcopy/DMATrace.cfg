SPECIFICATION TSpec
CONSTANTS
  Line = 1
  NCaches = 0
  MaxInFlight = 4
  MCReqs = {}
  MaxReq = 0
  MemSize = 1
INVARIANTS TCompleteOnceAfterAll TSubsExact D2HData Bounded
CONSTRAINT Mark
POSTCONDITION Accepted
CHECK_DEADLOCK FALSE
