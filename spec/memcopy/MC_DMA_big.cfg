SPECIFICATION Spec
CONSTANTS
  Line = 2
  NCaches = 2
  TrackWrites = TRUE
  MaxInFlight = 2
  MCReqs <- MCReqSet
  MaxReq = 3
  MemSize = 6
INVARIANTS SubsExact CompleteOnceAfterAll D2HData H2DData AllAnswered Bounded
CHECK_DEADLOCK FALSE
