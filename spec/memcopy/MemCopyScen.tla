---------------------------- MODULE MemCopyScen ----------------------------
(* MemCopy with a history variable naming the step taken: `tlc -simulate'   *)
(* yields behaviours whose commands and GPU answer orders become replay     *)
(* scenarios for the real driver (harness/cmd/c11 -mode api).               *)
EXTENDS MemCopy
VARIABLE act

MCPageDev2  == <<1, 2, 1>>
MCPhys      == <<2, 0, 1>>
MCSpare0    == <<>>
MCSpare2    == <<2, 1>>          \* two spare frames: one on GPU 2, one on GPU 1
MCBufs1     == <<[s |-> 0, n |-> 4, ctx |-> 1], [s |-> 4, n |-> 2, ctx |-> 1]>>
MCBufs2     == <<[s |-> 0, n |-> 2, ctx |-> 1], [s |-> 2, n |-> 2, ctx |-> 2], [s |-> 4, n |-> 2, ctx |-> 1]>>
MCRanges    == {<<0, 1>>, <<1, 1>>, <<1, 2>>, <<0, 4>>, <<1, 4>>, <<3, 3>>, <<2, 2>>, <<0, 6>>, <<4, 2>>, <<5, 1>>, <<2, 3>>}
\* (zero-length copies are exercised by MC_MemCopy_empty.cfg and the `zero-length' histories)
MCKWrites   == {{1}, {2, 3}, {5}, {0, 1}}
MCRangesK   == {<<4, 2>>, <<2, 2>>, <<0, 1>>, <<5, 1>>, <<1, 1>>, <<2, 4>>}
MCKWritesK  == {{2, 3}, {2}}

SInit == Init /\ act = [a |-> "Init"]
SNext ==
  \/ \E q \in Queues, c \in Ctxs, g \in GPUs, w \in KWrites :
        StartKern(q, c, g, w) /\ act' = [a |-> "Kern", q |-> q, c |-> c, g |-> g, w |-> w]
  \/ \E q \in Queues, k \in {"h2d", "d2h"}, c \in Ctxs, r \in Ranges :
        StartCopy(q, k, c, r[1], r[2]) /\ act' = [a |-> "Copy", q |-> q, k |-> k, c |-> c, va |-> r[1], n |-> r[2]]
  \/ Alloc /\ act' = [a |-> "Alloc"]
  \/ Release /\ act' = [a |-> "Release"]
  \/ \E q \in Queues : CompleteEmpty(q) /\ act' = [a |-> "CompleteEmpty"]
  \/ DrvSend /\ act' = [a |-> "DrvSend"]
  \/ \E g \in GPUs : GPUHandle(g) /\ act' = [a |-> "Handle", g |-> g, k |-> Head(chan[g]).k]
  \/ \E g \in GPUs : KernelFinish(g) /\ act' = [a |-> "KFinish", g |-> g]
  \/ \E g \in GPUs : DrvTake(g) /\ act' = [a |-> "Take", g |-> g]
  \/ \E p \in PAddr : Evict(p) /\ act' = [a |-> "Evict"]
SSpec == SInit /\ [][SNext]_<<vars, act>>
=============================================================================
