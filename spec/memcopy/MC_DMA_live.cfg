SPECIFICATION FairSpec
CONSTANTS
  Line = 2
  NCaches = 1
  TrackWrites = TRUE
  MaxInFlight = 1
  MCReqs <- MCReqSetQ
  MaxReq = 2
  MemSize = 6
PROPERTIES Progress
CHECK_DEADLOCK FALSE
