--------------------------- MODULE MemCopyTrace ---------------------------
(***************************************************************************)
(* Is a trace of the real driver.Driver (harness/cmd/c11, -mode api) a     *)
(* behaviour of the copy protocol of MemCopy.tla, and do the bytes it      *)
(* moved satisfy property C11?                                             *)
(*                                                                         *)
(* One line = one event at a linearization point of the real code:         *)
(*   Start  a queue's head command is about to be processed                *)
(*   Send   the driver puts a request for a GPU on its port                *)
(*   Rsp    the answer arrives        Take  the driver consumes it         *)
(*   Done   CommandQueue.Dequeue of the completed command (+ host bytes)   *)
(*   Sto    which bytes of live buffers changed in the global storage      *)
(*   AccW/AccR  the emulator's StorageAccessor writes / reads              *)
(*   Alloc/Free/Ctx/Reset/Quiesce/Panic                                    *)
(*                                                                         *)
(* The rules are those of MemCopy.tla with real sizes: page-wise pieces    *)
(* translated through the page table (CopyOps!Chunks is what the code      *)
(* does; the trace accepts any cut into pieces that stay inside a page),   *)
(* the flush rule (a piece may only be sent to a GPU that was flushed      *)
(* after the last kernel launch if a buffer it touches existed when a      *)
(* kernel was launched), completion exactly once and only after every      *)
(* piece was answered and consumed, and `arch' = the contents the          *)
(* completed operations prescribe.                                         *)
(*                                                                         *)
(* As-implemented deviations are separate disjuncts that print             *)
(* <<"DEVIATION", name, line>>; the check turns each into a known finding  *)
(* or a violation.                                                         *)
(***************************************************************************)
EXTENDS CopyOps, TraceLib, Json, FiniteSets

TraceLog == ndJsonDeserialize("trace.ndjson")
N == Len(TraceLog)

VARIABLES
  l,        \* position in the log
  cfg,      \* the Reset record of the scenario being validated
  pt,       \* page table: [virtual page address -> [pp, dev]]
  bufs,     \* [buffer id -> [va, n, ctx, at, atc, live]]
  claunch,  \* [context -> kernel launches sent from it]
  launches, \* kernel launches sent so far
  epoch,    \* advances when a kernel launch is sent and when its answer arrives (the kernel has finished)
  fin,      \* [ep |-> epoch right after the latest kernel finished, lo |-> highest launch number among finished kernels]
  lastFlush,\* [gpu -> value of `epoch' when the last flush was sent to it]
  cmds,     \* [command id -> record]
  reqs,     \* [request id -> record]
  arch,     \* tuple over the mapped address space (index = va - first page + 1): byte prescribed by the
            \*   completed operations, -1 = unknown, -2 = not part of any buffer
  sto,      \* same shape: byte observed in the global storage
  alen,     \* length of arch and sto
  taint     \* same shape: 1 = written by a kernel on a platform with caches (the storage may lag)

tvars == <<l, cfg, pt, bufs, claunch, launches, epoch, fin, lastFlush, cmds, reqs, arch, sto, alen, taint>>

ASSUME HWInit

Ev == TraceLog[l]
Is(e) == l <= N /\ Ev.e = e /\ l' = l + 1

NoCfg == [plat |-> "none", gpus |-> 0, page |-> 1, magic |-> 0, cached |-> 0, real |-> 0, pt |-> 0]
Empty == <<>>

TInit == /\ l = 1 /\ cfg = NoCfg /\ pt = Empty /\ bufs = Empty /\ claunch = Empty /\ launches = 0 /\ epoch = 0 /\ fin = [ep |-> 0, lo |-> 0]
         /\ lastFlush = Empty /\ cmds = Empty /\ reqs = Empty /\ arch = Empty /\ sto = Empty /\ alen = 0 /\ taint = Empty

Deviation(name) == PrintT(<<"DEVIATION", name, l>>)
\* TLC unrolls a quantifier that is a conjunct of an action into one recursion level per element;
\* ranges here have thousands of elements, so big quantifiers are evaluated as plain Boolean values.
Holds(p) == p = TRUE

\* --------------------------------------------------------------- helpers
Range(a, n) == a .. (a + n - 1)
\* virtual addresses are handed out page after page starting at one page (allocatePages)
Ix(a) == a - cfg.page + 1
Known(a) == a >= cfg.page /\ Ix(a) <= alen /\ arch[Ix(a)] # -2
ArchIs(a, v) == Known(a) /\ (arch[Ix(a)] = v \/ arch[Ix(a)] = -1)
Over(m, a0, bs) == [i \in 1..alen |-> IF i >= Ix(a0) /\ i < Ix(a0) + Len(bs) THEN bs[i - Ix(a0) + 1] ELSE m[i]]
Running == {c \in DOMAIN cmds : cmds[c].st = "run"}
ReqsOf(c) == {r \in DOMAIN reqs : reqs[r].c = c}
Pieces(c) == {r \in ReqsOf(c) : reqs[r].k \in {"h2d", "d2h"}}
SumN(S) == LET RECURSIVE F(_)
               F(T) == IF T = {} THEN 0 ELSE LET x == CHOOSE y \in T : TRUE IN reqs[x].n + F(T \ {x})
           IN F(S)
LiveBufs == {b \in DOMAIN bufs : bufs[b].live}
BufRangeOverlaps(b, a, n) == OverlapTrue(bufs[b].va, bufs[b].va + bufs[b].n, a, a + n)

\* The minimal flush requirement of the property for bytes [a, a+n) of command c: a kernel that was launched
\* after the buffer was allocated and had finished when the command started may have left dirty lines.  (A
\* kernel that is still running, or starts later, races with the copy: the host keeps their bytes apart.)
MustBeFlushed(c, a, n) == \E b \in LiveBufs : BufRangeOverlaps(b, a, n) /\ bufs[b].at < cmds[c].flo
\* what the pinned tree decides for a command of context cx over [a, a+n): needFlushing
DirtyImpl(b) == bufs[b].atc < claunch[bufs[b].ctx]
NeedImpl(cx, a, n) == \E b \in DOMAIN bufs : /\ bufs[b].ctx = cx /\ DirtyImpl(b)
                                             /\ OverlapImpl(bufs[b].va, bufs[b].va + bufs[b].n, a, a + n)
NeedCtxTrue(cx, a, n) == \E b \in DOMAIN bufs : /\ bufs[b].ctx = cx /\ DirtyImpl(b)
                                                /\ OverlapTrue(bufs[b].va, bufs[b].va + bufs[b].n, a, a + n)

Same(vs) == UNCHANGED vs

\* ----------------------------------------------------------------- set-up
TReset ==
  /\ Is("Reset")
  /\ cfg' = Ev /\ pt' = Empty /\ bufs' = Empty /\ claunch' = Empty /\ launches' = 0 /\ epoch' = 0 /\ fin' = [ep |-> 0, lo |-> 0]
  /\ lastFlush' = [g \in 1..Ev.gpus |-> -1]
  /\ cmds' = Empty /\ reqs' = Empty /\ arch' = Empty /\ sto' = Empty /\ alen' = 0 /\ taint' = Empty

TCtx ==
  /\ Is("Ctx") /\ Ev.ctx \notin DOMAIN claunch
  /\ claunch' = claunch @@ (Ev.ctx :> 0)
  /\ Same(<<cfg, pt, bufs, launches, fin, epoch, lastFlush, cmds, reqs, arch, sto, alen, taint>>)

PagesOf(ps) == {ps[i][1] : i \in 1..Len(ps)}
TAlloc ==
  /\ Is("Alloc") /\ Ev.b \notin DOMAIN bufs /\ Ev.ctx \in DOMAIN claunch
  /\ Len(Ev.init) = Ev.n
  /\ bufs' = bufs @@ (Ev.b :> [va |-> Ev.va, n |-> Ev.n, ctx |-> Ev.ctx, at |-> launches,
                               atc |-> claunch[Ev.ctx], live |-> TRUE])
  /\ LET ps == Ev.pages
         new == [p \in PagesOf(ps) |-> LET i == CHOOSE j \in 1..Len(ps) : ps[j][1] = p
                                       IN [pp |-> ps[i][2], dev |-> ps[i][3]]]
     IN pt' = new @@ pt
  /\ LET top == Ix(Ev.pages[Len(Ev.pages)][1]) + cfg.page - 1       \* last byte of the last page
         newLen == IF top > alen THEN top ELSE alen
         Ext(m) == [i \in 1..newLen |->
                      IF i >= Ix(Ev.va) /\ i < Ix(Ev.va) + Ev.n THEN Ev.init[i - Ix(Ev.va) + 1]
                      ELSE IF i <= alen THEN m[i] ELSE -2]
     IN /\ arch' = Ext(arch) /\ sto' = Ext(sto) /\ alen' = newLen
        /\ taint' = [i \in 1..newLen |-> IF i <= alen THEN taint[i] ELSE 0]
  /\ Same(<<cfg, claunch, launches, fin, epoch, lastFlush, cmds, reqs>>)

\* Driver.Remap / Driver.Distribute on a live buffer: its pages get new physical frames (usually on
\* other GPUs); the contents are not moved, so the bytes at these virtual addresses are now whatever
\* the new frames hold (observed through the page table).  From here on every copy must act on the
\* frames the page table names NOW: a piece sent to the old frame or the old GPU has no page (TSendPiece).
TMap ==
  /\ Is("Map") /\ Ev.b \in DOMAIN bufs /\ bufs[Ev.b].live /\ bufs[Ev.b].va = Ev.va /\ bufs[Ev.b].n = Ev.n
  /\ Len(Ev.init) = Ev.n /\ Running = {}
  /\ LET ps == Ev.pages
         new == [p \in PagesOf(ps) |-> LET i == CHOOSE j \in 1..Len(ps) : ps[j][1] = p
                                       IN [pp |-> ps[i][2], dev |-> ps[i][3]]]
     IN pt' = new @@ pt
  /\ arch' = Over(arch, Ev.va, Ev.init) /\ sto' = Over(sto, Ev.va, Ev.init)
  /\ taint' = Over(taint, Ev.va, [i \in 1..Ev.n |-> 0])
  /\ Same(<<cfg, bufs, claunch, launches, fin, epoch, lastFlush, cmds, reqs, alen>>)

TFree ==
  /\ Is("Free") /\ Ev.b \in DOMAIN bufs /\ bufs[Ev.b].live
  /\ bufs' = [bufs EXCEPT ![Ev.b].live = FALSE]
  /\ Same(<<cfg, pt, claunch, launches, fin, epoch, lastFlush, cmds, reqs, arch, sto, alen, taint>>)

\* ------------------------------------------------------------- commands
\* a queue runs one command at a time
TStart ==
  /\ Is("Start") /\ Ev.c \notin DOMAIN cmds
  /\ Ev.k \in {"h2d", "d2h", "kern"}
  /\ \A c \in DOMAIN cmds : cmds[c].q = Ev.q => cmds[c].st = "done"
  /\ Ev.k = "h2d" => Len(Ev.d) = Ev.n
  /\ cmds' = cmds @@ (Ev.c :> [k |-> Ev.k, q |-> Ev.q, ctx |-> Ev.ctx, va |-> Ev.va, n |-> Ev.n, d |-> Ev.d,
                               kd |-> Ev.kd, ks |-> Ev.ks, st |-> "run", sent |-> {}, nsent |-> 0,
                               lastTake |-> "none", dev |-> FALSE,
                               \* kernels that finished before the command started: their stores must be visible to it
                               fep |-> fin.ep, flo |-> fin.lo])
  /\ Same(<<cfg, pt, bufs, claunch, launches, fin, epoch, lastFlush, reqs, arch, sto, alen, taint>>)

ReqRec(c, k, g, off, n) == [c |-> c, k |-> k, g |-> g, off |-> off, n |-> n, st |-> "sent", d |-> <<>>, lo |-> 0]
NewReq(c, k, g, off, n) == Ev.r :> ReqRec(c, k, g, off, n)

TSendLaunch ==
  /\ Is("Send") /\ Ev.k = "launch" /\ Ev.r \notin DOMAIN reqs
  /\ Ev.c \in Running /\ cmds[Ev.c].k = "kern" /\ ReqsOf(Ev.c) = {}
  /\ Ev.g \in 1..cfg.gpus
  /\ launches' = launches + 1 /\ epoch' = epoch + 1
  /\ claunch' = [claunch EXCEPT ![cmds[Ev.c].ctx] = @ + 1]
  /\ reqs' = reqs @@ (Ev.r :> [ReqRec(Ev.c, "launch", Ev.g, 0, 0) EXCEPT !.lo = launches + 1])
  /\ Same(<<cfg, pt, bufs, fin, lastFlush, cmds, arch, sto, alen, taint>>)

TSendFlush ==
  /\ Is("Send") /\ Ev.k = "flush" /\ Ev.r \notin DOMAIN reqs
  /\ Ev.c \in Running /\ cmds[Ev.c].k \in {"h2d", "d2h"}
  /\ Ev.g \in 1..cfg.gpus
  /\ lastFlush' = [lastFlush EXCEPT ![Ev.g] = epoch]
  /\ reqs' = reqs @@ NewReq(Ev.c, "flush", Ev.g, 0, 0)
  /\ Same(<<cfg, pt, bufs, claunch, launches, fin, epoch, cmds, arch, sto, alen, taint>>)

\* where a piece sits in its command
PageOfPP(pp) == CHOOSE p \in DOMAIN pt : pt[p].pp = pp
\* (a physical page no virtual page is mapped to - e.g. a frame a Remap has released - has no offset: -1)
PieceOff(c) == IF cfg.pt = 1
               THEN IF \E p \in DOMAIN pt : pt[p].pp = Ev.pp THEN PageOfPP(Ev.pp) + Ev.po - cmds[c].va ELSE -1
               ELSE cmds[c].nsent
PieceOK(c, off) ==
  /\ Ev.n >= 1 /\ Ev.po >= 0 /\ Ev.po + Ev.n <= cfg.page           \* stays inside one page
  /\ off >= 0 /\ off + Ev.n <= cmds[c].n                           \* inside the requested range
  /\ \A p \in cmds[c].sent : ~OverlapTrue(p[1], p[1] + p[2], off, off + Ev.n)   \* no byte twice
  /\ Ev.g \in 1..cfg.gpus
  /\ cfg.pt = 1 => /\ \E p \in DOMAIN pt : pt[p].pp = Ev.pp          \* a mapped physical page ...
                   /\ pt[PageOfPP(Ev.pp)].dev = Ev.g                 \* ... sent to the GPU that owns it
  /\ cfg.pt = 0 => \E p \in DOMAIN pt : /\ pt[p].dev = Ev.g
                                        /\ OverlapTrue(p, p + cfg.page, cmds[c].va, cmds[c].va + cmds[c].n)
  /\ Ev.k = "h2d" => Ev.d = Slice(cmds[c].d, off, Ev.n)             \* carries exactly its host bytes

\* the bytes the flush rule is applied to: the piece (translation known) or the whole command
RuleVA(c, off) == IF cfg.pt = 1 THEN cmds[c].va + off ELSE cmds[c].va
RuleN(c)       == IF cfg.pt = 1 THEN Ev.n ELSE cmds[c].n

TSendPiece ==
  /\ Is("Send") /\ Ev.k \in {"h2d", "d2h"} /\ Ev.r \notin DOMAIN reqs
  /\ Ev.c \in Running /\ cmds[Ev.c].k = Ev.k
  /\ LET c == Ev.c
         off == PieceOff(c)
         flushed == lastFlush[Ev.g] >= cmds[c].fep      \* flushed after the last of those kernels finished
         must == MustBeFlushed(c, RuleVA(c, off), RuleN(c))
     IN /\ PieceOK(c, off)
        /\ \/ /\ must => flushed
              /\ cmds' = [cmds EXCEPT ![c].sent = @ \cup {<<off, Ev.n>>}, ![c].nsent = @ + Ev.n]
           \/ \* as implemented: dirty tracking per context / containment gap of memRangeOverlap
              /\ must /\ ~flushed
              /\ ~NeedImpl(cmds[c].ctx, cmds[c].va, cmds[c].n)
              /\ IF NeedCtxTrue(cmds[c].ctx, cmds[c].va, cmds[c].n)
                 THEN Deviation("overlap_containment_gap") ELSE Deviation("dirty_per_context")
              /\ cmds' = [cmds EXCEPT ![c].sent = @ \cup {<<off, Ev.n>>}, ![c].nsent = @ + Ev.n, ![c].dev = TRUE]
        /\ reqs' = reqs @@ NewReq(c, Ev.k, Ev.g, off, Ev.n)
  /\ Same(<<cfg, pt, bufs, claunch, launches, fin, epoch, lastFlush, arch, sto, alen, taint>>)

\* the answer to a launch means the kernel has finished: flushes sent before this point do not cover its stores
TRsp ==
  /\ Is("Rsp") /\ Ev.r \in DOMAIN reqs /\ reqs[Ev.r].st = "sent"
  /\ reqs' = [reqs EXCEPT ![Ev.r].st = "ans", ![Ev.r].d = Ev.d]
  /\ epoch' = IF reqs[Ev.r].k = "launch" THEN epoch + 1 ELSE epoch
  /\ fin' = IF reqs[Ev.r].k = "launch"
            THEN [ep |-> epoch + 1, lo |-> IF reqs[Ev.r].lo > fin.lo THEN reqs[Ev.r].lo ELSE fin.lo] ELSE fin
  /\ Same(<<cfg, pt, bufs, claunch, launches, lastFlush, cmds, arch, sto, alen, taint>>)

TTake ==
  /\ Is("Take") /\ Ev.r \in DOMAIN reqs /\ reqs[Ev.r].st = "ans"
  /\ reqs[Ev.r].c \in Running
  /\ reqs' = [reqs EXCEPT ![Ev.r].st = "taken"]
  /\ cmds' = [cmds EXCEPT ![reqs[Ev.r].c].lastTake = IF reqs[Ev.r].k = "flush" THEN "flush" ELSE "piece"]
  /\ Same(<<cfg, pt, bufs, claunch, launches, fin, epoch, lastFlush, arch, sto, alen, taint>>)

\* every byte of the range was requested, answered and the answer consumed
AllMoved(c) == /\ SumN(Pieces(c)) = cmds[c].n
               /\ \A r \in Pieces(c) : reqs[r].st = "taken"

TDone ==
  /\ Is("Done") /\ Ev.c \in Running
  /\ LET c == Ev.c
         k == cmds[c].k
         va == cmds[c].va
         n == cmds[c].n
     IN /\ k \in {"h2d", "d2h"} => IF cfg.magic = 0 THEN AllMoved(c) ELSE ReqsOf(c) = {}
        /\ k = "kern" => \E r \in ReqsOf(c) : reqs[r].k = "launch" /\ reqs[r].st = "taken"
        /\ CASE k = "h2d" ->
                  /\ Holds(\A a \in Range(va, n) : Known(a))
                  /\ arch' = Over(arch, va, cmds[c].d)
                  /\ UNCHANGED taint
             [] k = "d2h" ->
                  /\ Len(Ev.d) = n
                  \* the host receives, at every offset, the bytes the answers carried ...
                  /\ cfg.magic = 0 => \A r \in Pieces(c) : reqs[r].d = Slice(Ev.d, reqs[r].off, reqs[r].n)
                  \* ... and they are the contents of device memory
                  /\ \/ Holds(\A i \in 1..n : ArchIs(va + i - 1, Ev.d[i]))
                     \/ cmds[c].dev     \* stale bytes are the consequence of the flush deviation reported above
                  /\ UNCHANGED <<arch, taint>>
             [] k = "kern" ->        \* copy kernel: n bytes from ks to kd
                  /\ Holds(\A i \in 0..(n - 1) : Known(cmds[c].kd + i) /\ Known(cmds[c].ks + i))
                  /\ arch' = Over(arch, cmds[c].kd, [i \in 1..n |-> arch[Ix(cmds[c].ks) + i - 1]])
                  /\ taint' = IF cfg.cached = 1 THEN Over(taint, cmds[c].kd, [i \in 1..n |-> 1]) ELSE taint
        /\ cmds' = [cmds EXCEPT ![c].st = "done"]
  /\ Same(<<cfg, pt, bufs, claunch, launches, fin, epoch, lastFlush, reqs, sto, alen>>)

\* the emulator's memory path (StorageAccessor) on the same page table and storage
TAccW ==
  /\ Is("AccW") /\ Len(Ev.d) = Ev.n /\ Holds(\A a \in Range(Ev.va, Ev.n) : Known(a))
  /\ arch' = Over(arch, Ev.va, Ev.d)
  /\ Same(<<cfg, pt, bufs, claunch, launches, fin, epoch, lastFlush, cmds, reqs, sto, alen, taint>>)
TAccR ==
  /\ Is("AccR") /\ Len(Ev.d) = Ev.n /\ Holds(\A i \in 1..Ev.n : ArchIs(Ev.va + i - 1, Ev.d[i]))
  /\ Same(<<cfg, pt, bufs, claunch, launches, fin, epoch, lastFlush, cmds, reqs, arch, sto, alen, taint>>)

\* ----------------------------------------------------------------- storage
\* Every byte of every live buffer, inside and outside the copied ranges, is
\* what the completed operations say (bytes a kernel wrote may still sit in a cache).
InRun(i, run) == i >= Ix(run[1]) /\ i < Ix(run[1]) + Len(run[2])
Apply(m, chg) == [i \in 1..alen |->
                    IF \E k \in 1..Len(chg) : InRun(i, chg[k])
                    THEN LET k == CHOOSE j \in 1..Len(chg) : InRun(i, chg[j]) IN chg[k][2][i - Ix(chg[k][1]) + 1]
                    ELSE m[i]]
TSto ==
  /\ Is("Sto") /\ Ev.wild = 0
  /\ \A k \in 1..Len(Ev.chg) : Ix(Ev.chg[k][1]) >= 1 /\ Ix(Ev.chg[k][1]) + Len(Ev.chg[k][2]) - 1 <= alen
  /\ LET new == Apply(sto, Ev.chg)     \* (no primed variable inside the big quantifier: TLC would unroll it)
     IN /\ Holds(Running = {} => \A b \in LiveBufs : \A i \in Ix(bufs[b].va)..(Ix(bufs[b].va) + bufs[b].n - 1) :
                                     (taint[i] = 0 /\ arch[i] # -1) => new[i] = arch[i])
        /\ sto' = new
  /\ Same(<<cfg, pt, bufs, claunch, launches, fin, epoch, lastFlush, cmds, reqs, arch, alen, taint>>)

\* ------------------------------------------------------------------- ends
\* the engine ran dry: nothing may be left behind
TQuiesce ==
  /\ Is("Quiesce") /\ Ev.pend = <<>> /\ Running = {}
  /\ \A r \in DOMAIN reqs : reqs[r].st = "taken"
  /\ Same(<<cfg, pt, bufs, claunch, launches, fin, epoch, lastFlush, cmds, reqs, arch, sto, alen, taint>>)

\* as implemented: processFlushReturn removes the last request of a command without completing it
HungByFlush(c) == /\ c \in Running /\ cmds[c].k \in {"h2d", "d2h"} /\ AllMoved(c)
                  /\ \A r \in ReqsOf(c) : reqs[r].st = "taken"
                  /\ cmds[c].lastTake = "flush"
\* as implemented: a copy of zero bytes that needs no flush sends nothing, so nothing ever completes it
HungEmpty(c) == c \in Running /\ cmds[c].k \in {"h2d", "d2h"} /\ cmds[c].n = 0 /\ ReqsOf(c) = {}
TQuiesceHung ==
  /\ Is("Quiesce") /\ Ev.pend # <<>>
  /\ \A i \in 1..Len(Ev.pend) : HungByFlush(Ev.pend[i]) \/ HungEmpty(Ev.pend[i])
  /\ \A c \in Running : HungByFlush(c) \/ HungEmpty(c)
  /\ IF \E c \in Running : HungEmpty(c) THEN Deviation("empty_copy_no_complete") ELSE Deviation("flush_rsp_no_complete")
  /\ Same(<<cfg, pt, bufs, claunch, launches, fin, epoch, lastFlush, cmds, reqs, arch, sto, alen, taint>>)

\* as implemented: Context.removeFreedBuffers (called by a flushing D2H) mutates the slice it ranges over
FreedOf(cx) == {b \in DOMAIN bufs : bufs[b].ctx = cx /\ ~bufs[b].live}
LastOf(cx) == CHOOSE b \in {x \in DOMAIN bufs : bufs[x].ctx = cx} :
                 \A y \in DOMAIN bufs : bufs[y].ctx = cx => bufs[y].va <= bufs[b].va
TPanicFreed ==
  /\ Is("Panic") /\ Ev.cls = "slice_bounds"
  /\ \E c \in Running : /\ cmds[c].k = "d2h" /\ Pieces(c) = {}
                        /\ NeedImpl(cmds[c].ctx, cmds[c].va, cmds[c].n)
                        /\ Cardinality(FreedOf(cmds[c].ctx)) >= 2
                        /\ LastOf(cmds[c].ctx) \in FreedOf(cmds[c].ctx)
  /\ Deviation("remove_freed_buffers_panic")
  /\ Same(<<cfg, pt, bufs, claunch, launches, fin, epoch, lastFlush, cmds, reqs, arch, sto, alen, taint>>)

TNext == \/ TReset \/ TCtx \/ TAlloc \/ TMap \/ TFree \/ TStart
         \/ TSendLaunch \/ TSendFlush \/ TSendPiece \/ TRsp \/ TTake \/ TDone
         \/ TAccW \/ TAccR \/ TSto \/ TQuiesce \/ TQuiesceHung \/ TPanicFreed

TSpec == TInit /\ [][TNext]_tvars

\* completion exactly once is structural: Done needs a running command and ends it
OneAtATime == \A c, e \in Running : c # e => cmds[c].q # cmds[e].q

Mark == HWNote(l)
Accepted == HWReport(N)
=============================================================================
