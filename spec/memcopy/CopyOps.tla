------------------------------ MODULE CopyOps ------------------------------
(* Arithmetic shared by the design-level specifications (MemCopy, DMA) and *)
(* the trace specifications: splitting a byte range at the boundaries of   *)
(* fixed-size units (pages in the driver middleware, cache lines in the    *)
(* DMA engine) and the range-overlap test of the flush rule.               *)
EXTENDS Integers, Sequences

\* [a, a+n) cut at every multiple of u; `off' is the position of the piece in the host buffer
RECURSIVE Chunks(_, _, _, _)
Chunks(u, a, n, off) ==
  IF n = 0 THEN <<>>
  ELSE LET left == u - (a % u)
           m    == IF n < left THEN n ELSE left
       IN  <<[a |-> a, n |-> m, off |-> off]>> \o Chunks(u, a + m, n - m, off + m)

\* do [s1, e1) and [s2, e2) share a byte?
OverlapTrue(s1, e1, s2, e2) == s1 < e2 /\ s2 < e1
\* memRangeOverlap of amd/driver/memorycopy.go (misses s2 < s1 /\ e1 < e2)
OverlapImpl(s1, e1, s2, e2) == (s1 <= s2 /\ e1 > s2) \/ (s1 < e2 /\ e1 >= e2)

Slice(s, off, n) == SubSeq(s, off + 1, off + n)
=============================================================================
