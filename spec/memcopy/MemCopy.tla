------------------------------ MODULE MemCopy ------------------------------
(***************************************************************************)
(* Host <-> device copies of the mgpusim driver, at the grain of the code. *)
(*                                                                         *)
(*   amd/driver/memorycopy.go  defaultMemoryCopyMiddleware                 *)
(*       processMemCopyH2DCommand / processMemCopyD2HCommand  -> StartCopy *)
(*       needFlushing / memRangeOverlap / sendFlushRequest    -> NeedFlush *)
(*       Tick (cyclesLeft -> awaitingReqs -> requestsToSend)  -> Release   *)
(*       processMemCopy{H2D,D2H}Return / processFlushReturn   -> DrvTake   *)
(*   amd/driver/driver.go  sendToGPUs                         -> DrvSend   *)
(*       processLaunchKernelCommand (markAllBuffersDirty)     -> StartKern *)
(*   amd/timing/cp  (command processor + DMA engine + L2 of one GPU, taken *)
(*       as one FIFO server here; refined by DMA.tla)         -> GPUHandle *)
(*   L2 write-back of a dirty byte at any time                -> Evict     *)
(*                                                                         *)
(* One process, one command queue (commands are serialised by the queue),  *)
(* several contexts sharing the process' address space, memory distributed *)
(* page-wise over several GPUs.  Bytes are tagged values, so a byte that   *)
(* lands at the wrong place or comes from the wrong copy is visible.       *)
(*                                                                         *)
(* `arch' is the history variable of the property: the contents device     *)
(* memory has according to the sequence of completed operations.           *)
(*                                                                         *)
(* Deviations (DESIGN.md 2.2) -- how the pinned tree departs from the      *)
(* intended design; Deviations = {} is the intended design:                *)
(*   "flush_rsp_no_complete"  processFlushReturn never completes the       *)
(*                            command, even if it removed the last request *)
(*   "dirty_per_context"      l2Dirty is kept and consulted per Context    *)
(*                            although contexts made by InitWithExistingPID*)
(*                            share the address space                      *)
(*   "overlap_containment_gap" memRangeOverlap misses "copy range strictly *)
(*                            contains the buffer"                         *)
(*   "empty_copy_no_complete" a copy of zero bytes that needs no flush has *)
(*                            no request whose answer could complete it    *)
(***************************************************************************)
EXTENDS CopyOps, FiniteSets, TLC

CONSTANTS
  PageSize,    \* bytes per page
  NPages,      \* virtual pages 0 .. NPages-1 (all mapped)
  GPUs,        \* set of GPU ids
  PageDev,     \* tuple: GPU that owns virtual page i-1
  PhysPage,    \* tuple: physical page number of virtual page i-1 (a permutation of 0..NPages-1)
  Bufs,        \* tuple of [s |-> first byte, n |-> size in bytes, ctx |-> owning context]
  Ctxs,        \* set of contexts (all share the process id)
  Ranges,      \* set of <<va, n>> the host may copy
  KWrites,     \* set of sets of virtual addresses a kernel may write
  MaxCmds,     \* commands per behaviour
  Contract,    \* TRUE: the host only copies ranges made of bytes of live buffers (the API contract)
  Deviations

VARIABLES
  dram,      \* [PAddr -> Val]      DRAM contents (the global storage)
  cache,     \* [PAddr -> Val]      dirty bytes held by the L2 of the owning GPU; NoVal = not dirty
  bdirty,    \* [DOMAIN Bufs -> BOOLEAN]   driver.buffer.l2Dirty
  nlive,     \* buffers 1..nlive are allocated (addresses grow with allocation order: allocatePages)
  ncmd,      \* commands started so far (= id of the current one)
  cur,       \* the command the queue is running, k = "none" when idle
  awaiting,  \* Seq(req)   defaultMemoryCopyMiddleware.awaitingReqs
  toSend,    \* Seq(req)   Driver.requestsToSend
  chan,      \* [GPUs -> Seq(req)]  requests on their way to / waiting at the command processor of g
  rsp,       \* [GPUs -> Seq(req)]  responses on their way back to the driver
  nreq,      \* request ids handed out
  \* ---- history
  arch,      \* [VAddr -> Val]
  done,      \* [1..MaxCmds -> Nat]  number of times command c completed
  answered,  \* set of request ids a GPU has answered
  taken,     \* set of request ids whose response the driver consumed
  issued,    \* [1..MaxCmds -> set of piece request ids]
  result,    \* [1..MaxCmds -> tuple of Val]  what a D2H handed to the host
  expect     \* [1..MaxCmds -> tuple of Val]  arch over the range when it completed

vars == <<dram, cache, bdirty, nlive, ncmd, cur, awaiting, toSend, chan, rsp, nreq,
          arch, done, answered, taken, issued, result, expect>>

NoVal  == <<>>
NBytes == NPages * PageSize
VAddr  == 0 .. NBytes - 1
PAddr  == 0 .. NBytes - 1
VPage(a) == a \div PageSize
PA(a)    == PhysPage[VPage(a) + 1] * PageSize + (a % PageSize)     \* page table walk
DevOfVA(a) == PageDev[VPage(a) + 1]
\* owner of a physical address
VAofPA(p) == CHOOSE a \in VAddr : PA(a) = p
DevOfPA(p) == DevOfVA(VAofPA(p))

Idle == [k |-> "none", id |-> 0, ctx |-> 0, va |-> 0, n |-> 0, reqs |-> {}, made |-> 0, raw |-> <<>>, w |-> {}]

\* ------------------------------------------------------------ page-wise split
\* processMemCopy*Command: one request per page touched, [va, va+n) in total.
Split(va, n, off) == Chunks(PageSize, va, n, off)

\* ----------------------------------------------------------------- flush rule
Overlap(s1, e1, s2, e2) ==
  IF "overlap_containment_gap" \in Deviations THEN OverlapImpl(s1, e1, s2, e2)
  ELSE OverlapTrue(s1, e1, s2, e2)

BufIds == DOMAIN Bufs
Live == 1..nlive
SeenBy(c) == IF "dirty_per_context" \in Deviations THEN {i \in Live : Bufs[i].ctx = c} ELSE Live
InBuf(a, i) == a >= Bufs[i].s /\ a < Bufs[i].s + Bufs[i].n
Mapped(a) == \E i \in Live : VPage(a) >= VPage(Bufs[i].s) /\ VPage(a) <= VPage(Bufs[i].s + Bufs[i].n - 1)
InContract(va, n) == \A a \in va..(va + n - 1) :
                       IF Contract THEN \E i \in Live : InBuf(a, i) ELSE Mapped(a)

NeedFlush(c, va, n) ==
  \E i \in SeenBy(c) : bdirty[i] /\ Overlap(Bufs[i].s, Bufs[i].s + Bufs[i].n, va, va + n)

\* --------------------------------------------------------------------- Init
Init ==
  /\ dram = [p \in PAddr |-> <<0, p>>]
  /\ cache = [p \in PAddr |-> NoVal]
  /\ bdirty = [i \in BufIds |-> FALSE]
  /\ nlive = 1
  /\ ncmd = 0 /\ cur = Idle /\ awaiting = <<>> /\ toSend = <<>>
  /\ chan = [g \in GPUs |-> <<>>] /\ rsp = [g \in GPUs |-> <<>>]
  /\ nreq = 0
  /\ arch = [a \in VAddr |-> <<0, PA(a)>>]
  /\ done = [c \in 1..MaxCmds |-> 0]
  /\ answered = {} /\ taken = {} /\ issued = [c \in 1..MaxCmds |-> {}]
  /\ result = [c \in 1..MaxCmds |-> <<>>] /\ expect = [c \in 1..MaxCmds |-> <<>>]

\* ------------------------------------------------------------------- driver
SetToSeq(S) == LET RECURSIVE F(_)
                   F(T) == IF T = {} THEN <<>> ELSE LET x == CHOOSE y \in T : \A z \in T : y <= z
                                                    IN <<x>> \o F(T \ {x})
               IN F(S)
GPUSeq == SetToSeq(GPUs)

\* processLaunchKernelCommand: every buffer (of the context) becomes dirty, the
\* launch request goes straight into requestsToSend.
StartKern(c, g, w) ==
  /\ cur.k = "none" /\ ncmd < MaxCmds
  /\ \A a \in w : \E i \in Live : InBuf(a, i)
  /\ ncmd' = ncmd + 1 /\ nreq' = nreq + 1
  /\ LET r == [id |-> nreq + 1, c |-> ncmd + 1, k |-> "launch", g |-> g, va |-> 0, n |-> 0, off |-> 0]
     IN /\ cur' = [Idle EXCEPT !.k = "kern", !.id = ncmd + 1, !.ctx = c, !.reqs = {r.id}, !.w = w]
        /\ toSend' = Append(toSend, r)
  /\ bdirty' = [i \in BufIds |-> IF i \in SeenBy(c) THEN TRUE ELSE bdirty[i]]
  /\ UNCHANGED <<dram, cache, nlive, awaiting, chan, rsp, arch, done, answered, taken, issued, result, expect>>

\* processMemCopyH2DCommand / processMemCopyD2HCommand
StartCopy(k, c, va, n) ==
  /\ cur.k = "none" /\ ncmd < MaxCmds
  /\ InContract(va, n)
  /\ ncmd' = ncmd + 1
  /\ LET fl == IF NeedFlush(c, va, n)
               THEN [i \in 1..Len(GPUSeq) |->
                       [id |-> nreq + i, c |-> ncmd + 1, k |-> "flush", g |-> GPUSeq[i], va |-> 0, n |-> 0, off |-> 0]]
               ELSE <<>>
         sp == Split(va, n, 0)
         pc == [i \in 1..Len(sp) |->
                  [id |-> nreq + Len(fl) + i, c |-> ncmd + 1, k |-> k, g |-> DevOfVA(sp[i].a),
                   va |-> sp[i].a, n |-> sp[i].n, off |-> sp[i].off]]
     IN /\ nreq' = nreq + Len(fl) + Len(pc)
        /\ toSend' = toSend \o fl            \* sendFlushRequest: at once
        /\ awaiting' = awaiting \o pc        \* pieces wait for cyclesPer{H2D,D2H}
        /\ cur' = [Idle EXCEPT !.k = k, !.id = ncmd + 1, !.ctx = c, !.va = va, !.n = n,
                               !.reqs = {fl[i].id : i \in 1..Len(fl)} \cup {pc[i].id : i \in 1..Len(pc)},
                               !.made = Len(fl) + Len(pc),
                               !.raw = [i \in 1..n |-> NoVal]]
        /\ issued' = [issued EXCEPT ![ncmd + 1] = {pc[i].id : i \in 1..Len(pc)}]
  /\ UNCHANGED <<dram, cache, bdirty, nlive, chan, rsp, arch, done, answered, taken, result, expect>>

\* AllocateMemory: the next buffer (higher addresses) becomes live, clean
Alloc ==
  /\ cur.k = "none" /\ nlive < Len(Bufs)
  /\ nlive' = nlive + 1
  /\ UNCHANGED <<dram, cache, bdirty, ncmd, cur, awaiting, toSend, chan, rsp, nreq, arch, done, answered, taken, issued, result, expect>>

\* middleware Tick, cyclesLeft = 0
Release ==
  /\ awaiting # <<>>
  /\ toSend' = toSend \o awaiting /\ awaiting' = <<>>
  /\ UNCHANGED <<dram, cache, bdirty, nlive, ncmd, cur, chan, rsp, nreq, arch, done, answered, taken, issued, result, expect>>

\* sendToGPUs
DrvSend ==
  /\ toSend # <<>>
  /\ LET r == Head(toSend) IN chan' = [chan EXCEPT ![r.g] = Append(@, r)]
  /\ toSend' = Tail(toSend)
  /\ UNCHANGED <<dram, cache, bdirty, nlive, ncmd, cur, awaiting, rsp, nreq, arch, done, answered, taken, issued, result, expect>>

\* ---------------------------------------------------------------- one GPU
\* The command processor serves the driver's requests in order; a copy waits
\* for a preceding flush (numCacheACK > 0 blocks processMemCopyReq).
InPiece(r, p) == \E i \in 0..(r.n - 1) : PA(r.va + i) = p
GPUHandle(g) ==
  /\ chan[g] # <<>>
  /\ LET r == Head(chan[g]) IN
     /\ chan' = [chan EXCEPT ![g] = Tail(@)]
     /\ rsp' = [rsp EXCEPT ![g] = Append(@, r)]
     /\ answered' = answered \cup {r.id}
     /\ CASE r.k = "flush" ->
               /\ dram' = [p \in PAddr |-> IF DevOfPA(p) = g /\ cache[p] # NoVal THEN cache[p] ELSE dram[p]]
               /\ cache' = [p \in PAddr |-> IF DevOfPA(p) = g THEN NoVal ELSE cache[p]]
               /\ UNCHANGED <<cur, arch>>
          [] r.k = "h2d" ->            \* the DMA engine writes DRAM directly
               /\ dram' = [p \in PAddr |-> IF InPiece(r, p)
                                           THEN <<r.c, r.off + (VAofPA(p) - r.va) + 1>> ELSE dram[p]]
               /\ UNCHANGED <<cache, cur, arch>>
          [] r.k = "d2h" ->            \* the DMA engine reads DRAM into the command's RawData
               /\ cur' = [cur EXCEPT !.raw = [i \in 1..cur.n |->
                                                IF i > r.off /\ i <= r.off + r.n THEN dram[PA(r.va + (i - r.off - 1))]
                                                ELSE cur.raw[i]]]
               /\ UNCHANGED <<dram, cache, arch>>
          [] r.k = "launch" ->         \* the kernel runs; its stores end up dirty in the owner's L2
               /\ cache' = [p \in PAddr |-> IF VAofPA(p) \in cur.w THEN <<0 - r.c, VAofPA(p)>> ELSE cache[p]]
               /\ arch' = [a \in VAddr |-> IF a \in cur.w THEN <<0 - r.c, a>> ELSE arch[a]]
               /\ UNCHANGED <<dram, cur>>
  /\ UNCHANGED <<bdirty, nlive, ncmd, awaiting, toSend, nreq, done, taken, issued, result, expect>>

\* the L2 may write a dirty byte back whenever it likes
Evict(p) ==
  /\ cache[p] # NoVal
  /\ dram' = [dram EXCEPT ![p] = cache[p]] /\ cache' = [cache EXCEPT ![p] = NoVal]
  /\ UNCHANGED <<bdirty, nlive, ncmd, cur, awaiting, toSend, chan, rsp, nreq, arch, done, answered, taken, issued, result, expect>>

\* ----------------------------------------------------- driver: responses
ArchSlice(va, n) == [i \in 1..n |-> arch[va + i - 1]]

Complete(c) ==
  /\ done' = [done EXCEPT ![c] = @ + 1]
  /\ cur' = Idle
  /\ IF cur.k = "d2h"
     THEN /\ result' = [result EXCEPT ![c] = cur.raw]
          /\ expect' = [expect EXCEPT ![c] = ArchSlice(cur.va, cur.n)]
          /\ UNCHANGED arch
     ELSE IF cur.k = "h2d"
     THEN /\ arch' = [a \in VAddr |-> IF a >= cur.va /\ a < cur.va + cur.n THEN <<c, a - cur.va + 1>> ELSE arch[a]]
          /\ UNCHANGED <<result, expect>>
     ELSE UNCHANGED <<arch, result, expect>>

\* a copy that moves nothing and flushes nothing completes when it is processed
CompleteEmpty ==
  /\ cur.k \in {"h2d", "d2h"} /\ cur.made = 0 /\ "empty_copy_no_complete" \notin Deviations
  /\ Complete(cur.id)
  /\ UNCHANGED <<dram, cache, bdirty, nlive, ncmd, awaiting, toSend, chan, rsp, nreq, answered, taken, issued>>

\* Tick: the response at the head of the GPU port
DrvTake(g) ==
  /\ rsp[g] # <<>>
  /\ LET r == Head(rsp[g])
         left == cur.reqs \ {r.id}
     IN /\ rsp' = [rsp EXCEPT ![g] = Tail(@)]
        /\ taken' = taken \cup {r.id}
        /\ r.id \in cur.reqs
        /\ IF left = {} /\ ~(r.k = "flush" /\ "flush_rsp_no_complete" \in Deviations)
           THEN Complete(cur.id)
           ELSE /\ cur' = [cur EXCEPT !.reqs = left]
                /\ UNCHANGED <<arch, done, result, expect>>
  /\ UNCHANGED <<dram, cache, bdirty, nlive, ncmd, awaiting, toSend, chan, nreq, answered, issued>>

\* --------------------------------------------------------------------- Next
Next ==
  \/ \E c \in Ctxs, g \in GPUs, w \in KWrites : StartKern(c, g, w)
  \/ \E k \in {"h2d", "d2h"}, c \in Ctxs, r \in Ranges : StartCopy(k, c, r[1], r[2])
  \/ Alloc \/ Release \/ DrvSend \/ CompleteEmpty
  \/ \E g \in GPUs : GPUHandle(g) \/ DrvTake(g)
  \/ \E p \in PAddr : Evict(p)

Spec == Init /\ [][Next]_vars

Fairness == /\ WF_vars(Release) /\ WF_vars(DrvSend) /\ WF_vars(CompleteEmpty)
            /\ \A g \in GPUs : WF_vars(GPUHandle(g)) /\ WF_vars(DrvTake(g))
FairSpec == Spec /\ Fairness

\* --------------------------------------------------------------- properties
Visible(a) == IF cache[PA(a)] # NoVal THEN cache[PA(a)] ELSE dram[PA(a)]

TypeOK == /\ ncmd \in 0..MaxCmds /\ cur.k \in {"none", "h2d", "d2h", "kern"}
          /\ \A c \in 1..MaxCmds : done[c] \in 0..2

\* each command completes at most once, and only when every one of its memory
\* transactions was answered and the answer consumed
CompleteOnceAfterAll ==
  \A c \in 1..MaxCmds : /\ done[c] <= 1
                        /\ done[c] = 1 => issued[c] \subseteq (answered \cap taken)

\* D2H(H2D(x)) = x, and a D2H sees every write of the kernels completed before it
RoundTrip == \A c \in 1..MaxCmds : done[c] >= 1 => result[c] = expect[c]

\* whenever the queue is idle, device memory (caches included) is exactly what
\* the completed operations say: the copied range holds the host bytes and every
\* other byte is untouched
OutsideUntouched == cur.k = "none" => \A a \in VAddr : Visible(a) = arch[a]

Stuck == /\ awaiting = <<>> /\ toSend = <<>>
         /\ \A g \in GPUs : chan[g] = <<>> /\ rsp[g] = <<>>
\* a started command cannot be left behind with nothing in flight
NoHang == ~(cur.k # "none" /\ Stuck /\ (cur.made > 0 \/ "empty_copy_no_complete" \in Deviations))

\* every started command completes
Completes == \A c \in 1..MaxCmds : [](ncmd >= c => <>(done[c] = 1))
=============================================================================
