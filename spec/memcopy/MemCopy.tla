------------------------------ MODULE MemCopy ------------------------------
(***************************************************************************)
(* Host <-> device copies of the mgpusim driver, at the grain of the code. *)
(*                                                                         *)
(*   amd/driver/memorycopy.go  defaultMemoryCopyMiddleware                 *)
(*       processMemCopyH2DCommand / processMemCopyD2HCommand  -> StartCopy *)
(*       needFlushing / memRangeOverlap / sendFlushRequest    -> NeedFlush *)
(*       Tick (cyclesLeft -> awaitingReqs -> requestsToSend)  -> Release   *)
(*       processMemCopy{H2D,D2H}Return / processFlushReturn   -> DrvTake   *)
(*   amd/driver/driver.go  sendToGPUs                         -> DrvSend   *)
(*       processLaunchKernelCommand (markAllBuffersDirty)     -> StartKern *)
(*   amd/timing/cp  (command processor + DMA engine + L2 of one GPU, taken *)
(*       as one FIFO server here; refined by DMA.tla)         -> GPUHandle *)
(*   L2 write-back of a dirty byte at any time                -> Evict     *)
(*                                                                         *)
(* One process, one or more command queues (a queue runs one command at a  *)
(* time; the driver processes the queues concurrently, so a copy of one    *)
(* queue can be started while a kernel of another queue is still running), *)
(* several contexts sharing the process' address space, memory distributed *)
(* page-wise over several GPUs.  A kernel is accepted by the command       *)
(* processor (GPUHandle) and finishes later (KernelFinish): only then are  *)
(* its stores in the caches, and only a flush sent after that point makes  *)
(* them visible to the DMA engine.  Bytes are tagged values, so a byte that   *)
(* lands at the wrong place or comes from the wrong copy is visible.       *)
(*                                                                         *)
(* `arch' is the history variable of the property: the contents device     *)
(* memory has according to the sequence of completed operations.           *)
(*                                                                         *)
(* Deviations (DESIGN.md 2.2) -- how the pinned tree departs from the      *)
(* intended design; Deviations = {} is the intended design:                *)
(*   "flush_rsp_no_complete"  processFlushReturn never completes the       *)
(*                            command, even if it removed the last request *)
(*   "dirty_per_context"      l2Dirty is kept and consulted per Context    *)
(*                            although contexts made by InitWithExistingPID*)
(*                            share the address space                      *)
(*   "overlap_containment_gap" memRangeOverlap misses "copy range strictly *)
(*                            contains the buffer"                         *)
(*   "empty_copy_no_complete" a copy of zero bytes that needs no flush has *)
(*                            no request whose answer could complete it    *)
(*   "clean_when_flush_queued" (a seeded optimisation, not the pinned      *)
(*                            tree) queuing a flush marks every buffer of  *)
(*                            the process clean: sound with one queue,     *)
(*                            unsound when the flush overtakes the stores  *)
(*                            of a kernel that is still running            *)
(***************************************************************************)
EXTENDS CopyOps, FiniteSets, TLC

CONSTANTS
  PageSize,    \* bytes per page
  NPages,      \* virtual pages 0 .. NPages-1 (all mapped)
  GPUs,        \* set of GPU ids
  PageDev,     \* tuple: GPU that owns virtual page i-1
  PhysPage,    \* tuple: initial physical page (frame) of virtual page i-1 (a permutation of 0..NPages-1)
  SpareDev,    \* tuple: GPUs of the spare frames NPages, NPages+1, ... a Remap can move a page to
  MaxRemap,    \* Remap / Distribute calls per behaviour
  Bufs,        \* tuple of [s |-> first byte, n |-> size in bytes, ctx |-> owning context]
  Ctxs,        \* set of contexts (all share the process id)
  Queues,      \* set of command queues
  Ranges,      \* set of <<va, n>> the host may copy
  KWrites,     \* set of sets of virtual addresses a kernel may write
  MaxCmds,     \* commands per behaviour
  Contract,    \* TRUE: the host only copies ranges made of bytes of live buffers (the API contract)
  Deviations

VARIABLES
  ppage,     \* [1..NPages -> frame]  the page table: frame of virtual page i-1 NOW (Remap moves it)
  tc,        \* [v, f] the page the copy path translated last (v = -1: none); used only by "stale_page_cache"
  nremap,
  dram,      \* [PAddr -> Val]      DRAM contents (the global storage)
  cache,     \* [PAddr -> Val]      dirty bytes held by the L2 of the owning GPU; NoVal = not dirty
  bdirty,    \* [DOMAIN Bufs -> BOOLEAN]   driver.buffer.l2Dirty
  nlive,     \* buffers 1..nlive are allocated (addresses grow with allocation order: allocatePages)
  ncmd,      \* commands started so far (= id of the current one)
  cur,       \* [Queues -> the command the queue is running], k = "none" when idle
  krun,      \* [GPUs -> launch request of the kernel running there], k = "none" when none
  awaiting,  \* Seq(req)   defaultMemoryCopyMiddleware.awaitingReqs
  toSend,    \* Seq(req)   Driver.requestsToSend
  chan,      \* [GPUs -> Seq(req)]  requests on their way to / waiting at the command processor of g
  rsp,       \* [GPUs -> Seq(req)]  responses on their way back to the driver
  nreq,      \* request ids handed out
  \* ---- history
  arch,      \* [VAddr -> Val]
  done,      \* [1..MaxCmds -> Nat]  number of times command c completed
  answered,  \* set of request ids a GPU has answered
  taken,     \* set of request ids whose response the driver consumed
  issued,    \* [1..MaxCmds -> set of piece request ids]
  result,    \* [1..MaxCmds -> tuple of Val]  what a D2H handed to the host
  expect     \* [1..MaxCmds -> tuple of Val]  arch over the range when it completed

vars == <<ppage, tc, nremap, dram, cache, bdirty, nlive, ncmd, cur, krun, awaiting, toSend, chan, rsp, nreq,
          arch, done, answered, taken, issued, result, expect>>

NoVal  == <<>>
NBytes == NPages * PageSize
VAddr  == 0 .. NBytes - 1
NFrames == NPages + Len(SpareDev)
PAddr  == 0 .. NFrames * PageSize - 1
VPage(a) == a \div PageSize
PA(a)    == ppage[VPage(a) + 1] * PageSize + (a % PageSize)        \* page table walk, NOW
FrameDev(f) == IF f < NPages THEN PageDev[(CHOOSE v \in 1..NPages : PhysPage[v] = f)] ELSE SpareDev[f - NPages + 1]
DevOfVA(a) == FrameDev(ppage[VPage(a) + 1])
\* owner of a physical address
DevOfPA(p) == FrameDev(p \div PageSize)

NoReq == [id |-> 0, c |-> 0, q |-> 0, k |-> "none", g |-> 0, va |-> 0, pa |-> 0, n |-> 0, off |-> 0, w |-> {}]
Idle == [k |-> "none", id |-> 0, ctx |-> 0, va |-> 0, n |-> 0, reqs |-> {}, made |-> 0, raw |-> <<>>, w |-> {}]

\* ------------------------------------------------------------ page-wise split
\* processMemCopy*Command: one request per page touched, [va, va+n) in total.
Split(va, n, off) == Chunks(PageSize, va, n, off)

\* ----------------------------------------------------------------- flush rule
Overlap(s1, e1, s2, e2) ==
  IF "overlap_containment_gap" \in Deviations THEN OverlapImpl(s1, e1, s2, e2)
  ELSE OverlapTrue(s1, e1, s2, e2)

BufIds == DOMAIN Bufs
Live == 1..nlive
SeenBy(c) == IF "dirty_per_context" \in Deviations THEN {i \in Live : Bufs[i].ctx = c} ELSE Live
InBuf(a, i) == a >= Bufs[i].s /\ a < Bufs[i].s + Bufs[i].n
Mapped(a) == \E i \in Live : VPage(a) >= VPage(Bufs[i].s) /\ VPage(a) <= VPage(Bufs[i].s + Bufs[i].n - 1)
InContract(va, n) == \A a \in va..(va + n - 1) :
                       IF Contract THEN \E i \in Live : InBuf(a, i) ELSE Mapped(a)

NeedFlush(c, va, n) ==
  \E i \in SeenBy(c) : bdirty[i] /\ Overlap(Bufs[i].s, Bufs[i].s + Bufs[i].n, va, va + n)

\* --------------------------------------------------------------------- Init
Init ==
  /\ ppage = PhysPage /\ tc = [v |-> -1, f |-> 0] /\ nremap = 0
  /\ dram = [p \in PAddr |-> <<0, p>>]
  /\ cache = [p \in PAddr |-> NoVal]
  /\ bdirty = [i \in BufIds |-> FALSE]
  /\ nlive = 1
  /\ ncmd = 0 /\ cur = [q \in Queues |-> Idle] /\ krun = [g \in GPUs |-> NoReq]
  /\ awaiting = <<>> /\ toSend = <<>>
  /\ chan = [g \in GPUs |-> <<>>] /\ rsp = [g \in GPUs |-> <<>>]
  /\ nreq = 0
  /\ arch = [a \in VAddr |-> <<0, PA(a)>>]
  /\ done = [c \in 1..MaxCmds |-> 0]
  /\ answered = {} /\ taken = {} /\ issued = [c \in 1..MaxCmds |-> {}]
  /\ result = [c \in 1..MaxCmds |-> <<>>] /\ expect = [c \in 1..MaxCmds |-> <<>>]

\* ------------------------------------------------------------------- driver
\* The host does not race: a copy and a kernel of different queues that are in
\* flight together touch different bytes, and copies of different queues do not overlap in time.
Others(q) == Queues \ {q}
CopyMayStart(q, va, n) ==
  \A o \in Others(q) : \/ cur[o].k = "none"
                        \/ (cur[o].k = "kern" /\ \A a \in cur[o].w : (a < va \/ a >= va + n))
KernMayStart(q, w) ==
  \A o \in Others(q) : \/ cur[o].k = "none"
                        \/ (cur[o].k \in {"h2d", "d2h"} /\ \A a \in w : (a < cur[o].va \/ a >= cur[o].va + cur[o].n))
AllIdle == \A q \in Queues : cur[q].k = "none"

SetToSeq(S) == LET RECURSIVE F(_)
                   F(T) == IF T = {} THEN <<>> ELSE LET x == CHOOSE y \in T : \A z \in T : y <= z
                                                    IN <<x>> \o F(T \ {x})
               IN F(S)
GPUSeq == SetToSeq(GPUs)

\* processLaunchKernelCommand: every buffer (of the context) becomes dirty, the
\* launch request goes straight into requestsToSend.
StartKern(q, c, g, w) ==
  /\ cur[q].k = "none" /\ ncmd < MaxCmds /\ KernMayStart(q, w)
  /\ \A a \in w : \E i \in Live : InBuf(a, i)
  /\ ncmd' = ncmd + 1 /\ nreq' = nreq + 1
  /\ LET r == [NoReq EXCEPT !.id = nreq + 1, !.c = ncmd + 1, !.q = q, !.k = "launch", !.g = g, !.w = w]
     IN /\ cur' = [cur EXCEPT ![q] = [Idle EXCEPT !.k = "kern", !.id = ncmd + 1, !.ctx = c, !.reqs = {r.id},
                                                   !.made = 1, !.w = w]]
        /\ toSend' = Append(toSend, r)
  /\ bdirty' = [i \in BufIds |-> IF i \in SeenBy(c) THEN TRUE ELSE bdirty[i]]
  /\ UNCHANGED <<ppage, tc, nremap, dram, cache, nlive, krun, awaiting, chan, rsp, arch, done, answered, taken, issued, result, expect>>

\* processMemCopyH2DCommand / processMemCopyD2HCommand
StartCopy(q, k, c, va, n) ==
  /\ cur[q].k = "none" /\ ncmd < MaxCmds /\ CopyMayStart(q, va, n)
  /\ InContract(va, n)
  /\ ncmd' = ncmd + 1
  /\ LET fl == IF NeedFlush(c, va, n)
               THEN [i \in 1..Len(GPUSeq) |->
                       [NoReq EXCEPT !.id = nreq + i, !.c = ncmd + 1, !.q = q, !.k = "flush", !.g = GPUSeq[i]]]
               ELSE <<>>
         sp == Split(va, n, 0)
         \* translation of piece i: the page table - or, as seeded, the page translated last if it is the same page
         Fr(i) == IF i = 1 /\ "stale_page_cache" \in Deviations /\ tc.v = VPage(sp[i].a)
                  THEN tc.f ELSE ppage[VPage(sp[i].a) + 1]
         pc == [i \in 1..Len(sp) |->
                  [NoReq EXCEPT !.id = nreq + Len(fl) + i, !.c = ncmd + 1, !.q = q, !.k = k, !.g = FrameDev(Fr(i)),
                                !.va = sp[i].a, !.pa = Fr(i) * PageSize + (sp[i].a % PageSize),
                                !.n = sp[i].n, !.off = sp[i].off]]
     IN /\ tc' = IF Len(sp) = 0 THEN tc ELSE [v |-> VPage(sp[Len(sp)].a), f |-> Fr(Len(sp))]
        /\ nreq' = nreq + Len(fl) + Len(pc)
        /\ toSend' = toSend \o fl            \* sendFlushRequest: at once
        /\ awaiting' = awaiting \o pc        \* pieces wait for cyclesPer{H2D,D2H}
        /\ cur' = [cur EXCEPT ![q] = [Idle EXCEPT !.k = k, !.id = ncmd + 1, !.ctx = c, !.va = va, !.n = n,
                               !.reqs = {fl[i].id : i \in 1..Len(fl)} \cup {pc[i].id : i \in 1..Len(pc)},
                               !.made = Len(fl) + Len(pc),
                               !.raw = [i \in 1..n |-> NoVal]]]
        /\ issued' = [issued EXCEPT ![ncmd + 1] = {pc[i].id : i \in 1..Len(pc)}]
        \* the seeded optimisation: the queued flush is taken to clean every buffer of the process
        /\ bdirty' = IF fl # <<>> /\ "clean_when_flush_queued" \in Deviations
                     THEN [i \in BufIds |-> IF i \in SeenBy(c) THEN FALSE ELSE bdirty[i]] ELSE bdirty
  /\ UNCHANGED <<ppage, nremap, dram, cache, nlive, krun, chan, rsp, arch, done, answered, taken, result, expect>>

\* AllocateMemory: the next buffer (higher addresses) becomes live, clean
Alloc ==
  /\ AllIdle /\ nlive < Len(Bufs)
  /\ nlive' = nlive + 1
  /\ UNCHANGED <<ppage, tc, nremap, dram, cache, bdirty, ncmd, cur, krun, awaiting, toSend, chan, rsp, nreq, arch, done, answered, taken, issued, result, expect>>

\* Driver.Remap / Distribute: virtual page v moves to the free frame f (usually of another GPU).  The
\* contents are not moved: the bytes at these addresses are now what the new frame holds.  The intended
\* design forgets the page the copy path translated last; "stale_page_cache" keeps it.
Remap(v, f) ==
  /\ AllIdle /\ nremap < MaxRemap /\ \A g \in GPUs : krun[g].k = "none"
  /\ v \in 1..NPages /\ f \in 0..(NFrames - 1) /\ \A u \in 1..NPages : ppage[u] # f
  /\ \A o \in 0..(PageSize - 1) : cache[ppage[v] * PageSize + o] = NoVal /\ cache[f * PageSize + o] = NoVal
  /\ ppage' = [ppage EXCEPT ![v] = f] /\ nremap' = nremap + 1
  /\ tc' = IF "stale_page_cache" \in Deviations THEN tc ELSE [v |-> -1, f |-> 0]
  /\ arch' = [a \in VAddr |-> IF VPage(a) = v - 1 THEN dram[f * PageSize + (a % PageSize)] ELSE arch[a]]
  /\ UNCHANGED <<dram, cache, bdirty, nlive, ncmd, cur, krun, awaiting, toSend, chan, rsp, nreq, done, answered, taken,
                 issued, result, expect>>

\* middleware Tick, cyclesLeft = 0
Release ==
  /\ awaiting # <<>>
  /\ toSend' = toSend \o awaiting /\ awaiting' = <<>>
  /\ UNCHANGED <<ppage, tc, nremap, dram, cache, bdirty, nlive, ncmd, cur, krun, chan, rsp, nreq, arch, done, answered, taken, issued, result, expect>>

\* sendToGPUs
DrvSend ==
  /\ toSend # <<>>
  /\ LET r == Head(toSend) IN chan' = [chan EXCEPT ![r.g] = Append(@, r)]
  /\ toSend' = Tail(toSend)
  /\ UNCHANGED <<ppage, tc, nremap, dram, cache, bdirty, nlive, ncmd, cur, krun, awaiting, rsp, nreq, arch, done, answered, taken, issued, result, expect>>

\* ---------------------------------------------------------------- one GPU
\* The command processor serves the driver's requests in order; a copy waits
\* for a preceding flush (numCacheACK > 0 blocks processMemCopyReq).
InPiece(r, p) == p >= r.pa /\ p < r.pa + r.n          \* a piece stays inside one frame
GPUHandle(g) ==
  /\ chan[g] # <<>>
  /\ LET r == Head(chan[g]) IN
     /\ chan' = [chan EXCEPT ![g] = Tail(@)]
     /\ CASE r.k = "flush" ->
               /\ dram' = [p \in PAddr |-> IF DevOfPA(p) = g /\ cache[p] # NoVal THEN cache[p] ELSE dram[p]]
               /\ cache' = [p \in PAddr |-> IF DevOfPA(p) = g THEN NoVal ELSE cache[p]]
               /\ rsp' = [rsp EXCEPT ![g] = Append(@, r)] /\ answered' = answered \cup {r.id}
               /\ UNCHANGED <<cur, krun>>
          [] r.k = "h2d" ->            \* the DMA engine writes DRAM directly
               /\ dram' = [p \in PAddr |-> IF InPiece(r, p)
                                           THEN <<r.c, r.off + (p - r.pa) + 1>> ELSE dram[p]]
               /\ rsp' = [rsp EXCEPT ![g] = Append(@, r)] /\ answered' = answered \cup {r.id}
               /\ UNCHANGED <<cache, cur, krun>>
          [] r.k = "d2h" ->            \* the DMA engine reads DRAM into the command's RawData
               /\ cur' = [cur EXCEPT ![r.q].raw = [i \in 1..cur[r.q].n |->
                                                IF i > r.off /\ i <= r.off + r.n THEN dram[r.pa + (i - r.off - 1)]
                                                ELSE cur[r.q].raw[i]]]
               /\ rsp' = [rsp EXCEPT ![g] = Append(@, r)] /\ answered' = answered \cup {r.id}
               /\ UNCHANGED <<dram, cache, krun>>
          [] r.k = "launch" ->         \* the kernel starts; the command processor keeps serving the requests behind it
               /\ krun[g].k = "none" /\ krun' = [krun EXCEPT ![g] = r]
               /\ UNCHANGED <<dram, cache, cur, rsp, answered>>
  /\ UNCHANGED <<ppage, tc, nremap, bdirty, nlive, ncmd, awaiting, toSend, nreq, arch, done, taken, issued, result, expect>>

\* the kernel finishes: its stores are dirty in the L2 of the GPU that owns the bytes, the launch is answered
KernelFinish(g) ==
  /\ krun[g].k = "launch"
  /\ LET r == krun[g] IN
     /\ cache' = [p \in PAddr |-> IF \E a \in r.w : PA(a) = p
                                  THEN <<0 - r.c, CHOOSE a \in r.w : PA(a) = p>> ELSE cache[p]]
     /\ arch' = [a \in VAddr |-> IF a \in r.w THEN <<0 - r.c, a>> ELSE arch[a]]
     /\ rsp' = [rsp EXCEPT ![g] = Append(@, r)] /\ answered' = answered \cup {r.id}
  /\ krun' = [krun EXCEPT ![g] = NoReq]
  /\ UNCHANGED <<ppage, tc, nremap, dram, bdirty, nlive, ncmd, cur, awaiting, toSend, chan, nreq, done, taken, issued, result, expect>>

\* the L2 may write a dirty byte back whenever it likes
Evict(p) ==
  /\ cache[p] # NoVal
  /\ dram' = [dram EXCEPT ![p] = cache[p]] /\ cache' = [cache EXCEPT ![p] = NoVal]
  /\ UNCHANGED <<ppage, tc, nremap, bdirty, nlive, ncmd, cur, krun, awaiting, toSend, chan, rsp, nreq, arch, done, answered, taken, issued, result, expect>>

\* ----------------------------------------------------- driver: responses
ArchSlice(va, n) == [i \in 1..n |-> arch[va + i - 1]]

Complete(q) ==
  LET c == cur[q].id IN
  /\ done' = [done EXCEPT ![c] = @ + 1]
  /\ cur' = [cur EXCEPT ![q] = Idle]
  /\ IF cur[q].k = "d2h"
     THEN /\ result' = [result EXCEPT ![c] = cur[q].raw]
          /\ expect' = [expect EXCEPT ![c] = ArchSlice(cur[q].va, cur[q].n)]
          /\ UNCHANGED arch
     ELSE IF cur[q].k = "h2d"
     THEN /\ arch' = [a \in VAddr |-> IF a >= cur[q].va /\ a < cur[q].va + cur[q].n
                                       THEN <<c, a - cur[q].va + 1>> ELSE arch[a]]
          /\ UNCHANGED <<result, expect>>
     ELSE UNCHANGED <<arch, result, expect>>

\* a copy that moves nothing and flushes nothing completes when it is processed
CompleteEmpty(q) ==
  /\ cur[q].k \in {"h2d", "d2h"} /\ cur[q].made = 0 /\ "empty_copy_no_complete" \notin Deviations
  /\ Complete(q)
  /\ UNCHANGED <<ppage, tc, nremap, dram, cache, bdirty, nlive, ncmd, krun, awaiting, toSend, chan, rsp, nreq, answered, taken, issued>>

\* Tick: the response at the head of the GPU port
DrvTake(g) ==
  /\ rsp[g] # <<>>
  /\ LET r == Head(rsp[g])
         q == r.q
         left == cur[q].reqs \ {r.id}
     IN /\ rsp' = [rsp EXCEPT ![g] = Tail(@)]
        /\ taken' = taken \cup {r.id}
        /\ r.id \in cur[q].reqs
        /\ IF left = {} /\ ~(r.k = "flush" /\ "flush_rsp_no_complete" \in Deviations)
           THEN Complete(q)
           ELSE /\ cur' = [cur EXCEPT ![q].reqs = left]
                /\ UNCHANGED <<arch, done, result, expect>>
  /\ UNCHANGED <<ppage, tc, nremap, dram, cache, bdirty, nlive, ncmd, krun, awaiting, toSend, chan, nreq, answered, issued>>

\* --------------------------------------------------------------------- Next
Next ==
  \/ \E q \in Queues, c \in Ctxs, g \in GPUs, w \in KWrites : StartKern(q, c, g, w)
  \/ \E q \in Queues, k \in {"h2d", "d2h"}, c \in Ctxs, r \in Ranges : StartCopy(q, k, c, r[1], r[2])
  \/ Alloc \/ Release \/ DrvSend
  \/ \E v \in 1..NPages, f \in 0..(NFrames - 1) : Remap(v, f)
  \/ \E q \in Queues : CompleteEmpty(q)
  \/ \E g \in GPUs : GPUHandle(g) \/ KernelFinish(g) \/ DrvTake(g)
  \/ \E p \in PAddr : Evict(p)

Spec == Init /\ [][Next]_vars

Fairness == /\ WF_vars(Release) /\ WF_vars(DrvSend) /\ \A q \in Queues : WF_vars(CompleteEmpty(q))
            /\ \A g \in GPUs : WF_vars(GPUHandle(g)) /\ WF_vars(KernelFinish(g)) /\ WF_vars(DrvTake(g))
FairSpec == Spec /\ Fairness

\* --------------------------------------------------------------- properties
Visible(a) == IF cache[PA(a)] # NoVal THEN cache[PA(a)] ELSE dram[PA(a)]

TypeOK == /\ ncmd \in 0..MaxCmds /\ \A q \in Queues : cur[q].k \in {"none", "h2d", "d2h", "kern"}
          /\ \A c \in 1..MaxCmds : done[c] \in 0..2

\* each command completes at most once, and only when every one of its memory
\* transactions was answered and the answer consumed
CompleteOnceAfterAll ==
  \A c \in 1..MaxCmds : /\ done[c] <= 1
                        /\ done[c] = 1 => issued[c] \subseteq (answered \cap taken)

\* D2H(H2D(x)) = x, and a D2H sees every write of the kernels completed before it
RoundTrip == \A c \in 1..MaxCmds : done[c] >= 1 => result[c] = expect[c]

\* whenever the queue is idle, device memory (caches included) is exactly what
\* the completed operations say: the copied range holds the host bytes and every
\* other byte is untouched
OutsideUntouched == AllIdle => \A a \in VAddr : Visible(a) = arch[a]

Stuck == /\ awaiting = <<>> /\ toSend = <<>>
         /\ \A g \in GPUs : chan[g] = <<>> /\ rsp[g] = <<>> /\ krun[g].k = "none"
\* a started command cannot be left behind with nothing in flight
NoHang == \A q \in Queues :
            ~(cur[q].k # "none" /\ Stuck /\ (cur[q].made > 0 \/ "empty_copy_no_complete" \in Deviations))

\* every started command completes
Completes == \A c \in 1..MaxCmds : [](ncmd >= c => <>(done[c] = 1))
=============================================================================
