------------------------------ MODULE DMAScen ------------------------------
(* DMA with a history variable naming the step taken: behaviours become     *)
(* environment scenarios for the real command processor + DMA engine.       *)
EXTENDS DMA
VARIABLE act
MCReqSet == {[k |-> "h2d", a |-> 1, n |-> 3], [k |-> "d2h", a |-> 1, n |-> 3], [k |-> "h2d", a |-> 0, n |-> 2],
             [k |-> "d2h", a |-> 2, n |-> 1], [k |-> "d2h", a |-> 0, n |-> 5], [k |-> "h2d", a |-> 3, n |-> 2],
             [k |-> "h2d", a |-> 1, n |-> 1], [k |-> "d2h", a |-> 3, n |-> 3], [k |-> "h2d", a |-> 2, n |-> 4]}
Rank(x, S) == Cardinality({y \in S : y < x})

SInit == Init /\ act = [a |-> "Init"]
SNext ==
  \/ /\ NextId <= MaxReq
     /\ \/ \E r \in MCReqs : /\ EnvReq(NextId, r.k, r.a, r.n, IF r.k = "h2d" THEN [i \in 1..r.n |-> <<NextId, i>>] ELSE <<>>)
                             /\ act' = [a |-> "req", k |-> r.k, addr |-> r.a, n |-> r.n]
        \/ EnvFlush(NextId) /\ act' = [a |-> "req", k |-> "flush", addr |-> 0, n |-> 0]
  \/ EnvTake /\ act' = [a |-> "take"]
  \/ CPAck /\ act' = [a |-> "await", e |-> "CPAck"]
  \/ CPRespond /\ act' = [a |-> "await", e |-> "CPDone"]
  \/ DMASend /\ act' = [a |-> "await", e |-> "Sub"]
  \/ DMARecv /\ act' = [a |-> "await", e |-> "DMARecv"]
  \/ DMARspSend /\ act' = [a |-> "await", e |-> "DMADone"]
  \/ CPFlushStart(NCaches, CacheIds) /\ act' = [a |-> "await", e |-> "CacheReq"]
  \/ \E x \in cacheOut : EnvCacheAck(x) /\ act' = [a |-> "cacheack", i |-> Rank(x, cacheOut)]
  \/ CPForward(CloneOfHead) /\ act' = [a |-> "await", e |-> "CPFwd"]
  \/ ParseHead /\ act' = [a |-> "await", e |-> "DMATake"]
  \/ \E x \in atMem : LET s == SubById(x) IN
        /\ MemServe(x, IF s.k = "w" THEN <<>> ELSE [i \in 1..s.n |-> mem[s.a + i - 1]])
        /\ act' = [a |-> "memrsp", i |-> Rank(x, atMem)]
SSpec == SInit /\ [][SNext]_<<vars, act>>
=============================================================================
