SPECIFICATION Spec
CONSTANTS
  PageSize = 2
  NPages = 3
  GPUs = {1, 2}
  PageDev <- MCPageDev2
  PhysPage <- MCPhys
  SpareDev <- MCSpare2
  MaxRemap = 2
  Bufs <- MCBufs1
  Ctxs = {1}
  Queues = {1}
  Ranges <- MCRangesR
  KWrites <- MCKWritesR
  MaxCmds = 3
  Contract = TRUE
  Deviations = {}
INVARIANTS TypeOK CompleteOnceAfterAll RoundTrip OutsideUntouched NoHang
CHECK_DEADLOCK FALSE
