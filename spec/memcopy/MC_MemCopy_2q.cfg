SPECIFICATION Spec
CONSTANTS
  PageSize = 2
  NPages = 3
  GPUs = {1, 2}
  PageDev <- MCPageDev2
  PhysPage <- MCPhys
  SpareDev <- MCSpare0
  MaxRemap = 0
  Bufs <- MCBufs1
  Ctxs = {1}
  Queues = {1, 2}
  Ranges <- MCRangesK
  KWrites <- MCKWritesK
  MaxCmds = 3
  Contract = TRUE
  Deviations = {}
INVARIANTS TypeOK CompleteOnceAfterAll RoundTrip OutsideUntouched NoHang
CHECK_DEADLOCK FALSE
