SPECIFICATION Spec
CONSTANTS
  PageSize = 2
  NPages = 3
  GPUs = {1, 2}
  PageDev <- MCPageDev2
  PhysPage <- MCPhys
  SpareDev <- MCSpare0
  MaxRemap = 0
  Bufs <- MCBufsSlack
  Ctxs = {1}
  Queues = {1}
  Ranges <- MCRangesSlack
  KWrites <- MCKWritesSlack
  MaxCmds = 3
  Contract = FALSE
  Deviations = {}
INVARIANTS TypeOK CompleteOnceAfterAll RoundTrip OutsideUntouched NoHang
CHECK_DEADLOCK FALSE
