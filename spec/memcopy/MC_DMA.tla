------------------------------ MODULE MC_DMA ------------------------------
EXTENDS DMA
\* access units of 2 bytes: inside a unit, up to / from / across a boundary, several units
MCReqSet  == {[k |-> "h2d", a |-> 1, n |-> 3], [k |-> "d2h", a |-> 1, n |-> 3],
              [k |-> "h2d", a |-> 0, n |-> 2], [k |-> "d2h", a |-> 2, n |-> 1],
              [k |-> "d2h", a |-> 0, n |-> 5], [k |-> "h2d", a |-> 3, n |-> 2]}
MCReqSetQ == {[k |-> "h2d", a |-> 1, n |-> 3], [k |-> "d2h", a |-> 1, n |-> 3], [k |-> "d2h", a |-> 2, n |-> 1]}
=============================================================================
