SPECIFICATION TSpec
INVARIANTS OneAtATime
CONSTRAINT Mark
POSTCONDITION Accepted
CHECK_DEADLOCK FALSE
