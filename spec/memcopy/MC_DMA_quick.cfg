SPECIFICATION Spec
CONSTANTS
  Line = 2
  NCaches = 1
  TrackWrites = TRUE
  MaxInFlight = 1
  MCReqs <- MCReqSetQ
  MaxReq = 2
  MemSize = 6
INVARIANTS SubsExact CompleteOnceAfterAll D2HData H2DData AllAnswered Bounded
CHECK_DEADLOCK FALSE
