---------------------------- MODULE MC_MemCopy ----------------------------
EXTENDS MemCopy

\* 3 pages of 2 bytes, physical pages permuted, pages 0,2 on GPU 1 and page 1 on GPU 2
MCPageDev2  == <<1, 2, 1>>
MCPageDev1  == <<1, 1, 1>>
MCPhys      == <<2, 0, 1>>
MCSpare0    == <<>>
MCSpare2    == <<2, 1>>          \* two spare frames: one on GPU 2, one on GPU 1
\* one context: a 2-page buffer followed by a 1-page buffer
MCBufs1     == <<[s |-> 0, n |-> 4, ctx |-> 1], [s |-> 4, n |-> 2, ctx |-> 1]>>
\* two contexts sharing the address space: middle buffer belongs to context 2
MCBufs2     == <<[s |-> 0, n |-> 2, ctx |-> 1], [s |-> 2, n |-> 2, ctx |-> 2], [s |-> 4, n |-> 2, ctx |-> 1]>>
\* boundary classes: inside a page, up to / from / across a page boundary, whole buffer, across buffers
MCRanges    == {<<0, 1>>, <<1, 1>>, <<1, 2>>, <<0, 4>>, <<1, 4>>, <<3, 3>>, <<2, 2>>, <<0, 6>>}
MCRangesQ   == {<<1, 2>>, <<0, 4>>, <<3, 3>>, <<2, 2>>, <<1, 4>>, <<4, 0>>}
MCKWrites   == {{1}, {2, 3}, {5}}
MCRangesT   == {<<1, 2>>, <<3, 3>>, <<2, 2>>, <<1, 0>>}
MCKWritesT  == {{2, 3}}
\* two queues: a copy of an unrelated range is processed while a kernel of the other queue runs
MCRangesK   == {<<4, 2>>, <<2, 2>>, <<0, 1>>}
MCKWritesK  == {{2, 3}}
\* copies interleaved with Remap of a live page
MCRangesR   == {<<2, 2>>, <<3, 1>>, <<0, 1>>, <<1, 3>>}
MCKWritesR  == {{5}}
MCRangesE   == {<<1, 0>>, <<1, 2>>, <<2, 2>>, <<4, 0>>}
MCKWritesQ  == {{2, 3}, {1}}
\* buffers smaller than their page: bytes 1, 3, 5 are mapped but belong to no buffer
MCBufsSlack == <<[s |-> 0, n |-> 1, ctx |-> 1], [s |-> 2, n |-> 1, ctx |-> 1], [s |-> 4, n |-> 1, ctx |-> 1]>>
MCRangesSlack == {<<0, 1>>, <<2, 1>>, <<1, 5>>, <<1, 4>>, <<4, 1>>}
MCKWritesSlack == {{2}, {4}}
AsImpl      == {"flush_rsp_no_complete", "dirty_per_context", "overlap_containment_gap"}
=============================================================================
