SPECIFICATION Spec
CONSTANTS
  PageSize = 2
  NPages = 3
  GPUs = {1, 2}
  PageDev <- MCPageDev2
  PhysPage <- MCPhys
  SpareDev <- MCSpare0
  MaxRemap = 0
  Bufs <- MCBufs1
  Ctxs = {1}
  Queues = {1}
  Ranges <- MCRangesE
  KWrites <- MCKWritesT
  MaxCmds = 3
  Contract = TRUE
  Deviations = {"empty_copy_no_complete"}
INVARIANTS TypeOK CompleteOnceAfterAll RoundTrip OutsideUntouched NoHang
CHECK_DEADLOCK FALSE
