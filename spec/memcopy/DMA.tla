-------------------------------- MODULE DMA --------------------------------
(***************************************************************************)
(* The GPU side of a host<->device copy: command processor                 *)
(* (amd/timing/cp/cpMiddleware.go, ctrlMiddleware.go) and DMA engine       *)
(* (amd/timing/cp/dma.go), one action per message handled.                 *)
(*                                                                         *)
(*   CPFlushStart / CPAck     processFlushReq, processCacheFlushRsp        *)
(*   CPForward                processMemCopyReq (clone with a fresh id,    *)
(*                            remembered in bottomMemCopy*ReqIDToTopReqMap)*)
(*   DMAParse                 parseFromCP + parseMemCopyH2D/D2H: one       *)
(*                            RequestCollection, one sub-request per       *)
(*                            access unit (cache line) touched             *)
(*   DMASend                  send(ToMem)                                  *)
(*   DMARecv                  parseFromMem + processDataReadyRsp /         *)
(*                            processDoneRsp                               *)
(*   DMARspSend               send(ToCP)                                   *)
(*   CPRespond                processMemCopyRsp                            *)
(*                                                                         *)
(* The environment is explicit: the driver issues copies and flushes, the  *)
(* caches acknowledge flushes in any order, the memory serves the          *)
(* sub-requests in any order (a write takes effect when it is served).     *)
(*                                                                         *)
(* The actions take the ids and payloads as parameters so that             *)
(* DMATrace.tla can bind them to the fields logged from the real           *)
(* components; MCNext picks them for model checking.                       *)
(***************************************************************************)
EXTENDS CopyOps, FiniteSets, TLC

CONSTANTS Line,         \* bytes per access unit (1 << Log2AccessSize)
          NCaches,      \* caches a flush is sent to
          MaxInFlight,  \* DMAEngine.maxRequestCount
          TrackWrites,  \* TRUE: record every byte the memory writes (history for H2DData; off for long traces)
          MCReqs,       \* MC only: set of [k, a, n] the driver may issue
          MaxReq,       \* MC only: requests per behaviour
          MemSize       \* MC only: bytes of memory

VARIABLES
  drvIn,     \* Seq of [id, k, a, n, d]        requests waiting at CP.ToDriver
  flushCur,  \* id of the flush in progress, 0 = none
  flushLeft, \* numCacheACK
  cacheOut,  \* set of flush ids the caches have not acknowledged
  ackIn,     \* Seq of acknowledgements waiting at CP.ToCaches
  cpMap,     \* [clone id -> original request]
  toDma,     \* Seq of clones between command processor and DMA engine
  colls,     \* Seq of [sup, k, a, n, left]    processingReqs; left = sub ids not yet answered
  unsent,    \* Seq of sub-requests [id, sup, k, a, n, off, d]   toSendToMem
  pending,   \* set of sub-requests sent and not answered          pendingReqs
  atMem,     \* set of sub-request ids the memory holds
  memRsp,    \* Seq of [to, d]                 answers waiting at DMA.ToMem
  toCPq,     \* Seq of clone ids               toSendToCP
  toCP,      \* Seq of clone ids on their way to the command processor
  toDrv,     \* Seq of original ids            answers on their way to the driver
  buf,       \* [original id -> tuple]         DstBuffer of a D2H request (clone and original share it)
  mem,       \* [0..MemSize-1 -> value]
  \* history
  reqOf,     \* [original id -> request]
  subsOf,    \* [original id -> set of [a, n, off]] sub-requests issued for it
  seen,      \* [original id -> tuple] what the memory returned for each byte of a D2H
  wrote,     \* set of [id, a, v]: bytes the memory wrote on behalf of request id
  served,    \* set of sub-request ids the memory answered
  done       \* [original id -> Nat]

vars == <<drvIn, flushCur, flushLeft, cacheOut, ackIn, cpMap, toDma, colls, unsent, pending, atMem, memRsp,
          toCPq, toCP, toDrv, buf, mem, reqOf, subsOf, seen, wrote, served, done>>

NoVal == <<>>
Empty == <<>>

Init ==
  /\ drvIn = <<>> /\ flushCur = 0 /\ flushLeft = 0 /\ cacheOut = {} /\ ackIn = <<>> /\ cpMap = Empty
  /\ toDma = <<>> /\ colls = <<>> /\ unsent = <<>> /\ pending = {} /\ atMem = {} /\ memRsp = <<>>
  /\ toCPq = <<>> /\ toCP = <<>> /\ toDrv = <<>> /\ buf = Empty
  /\ mem = [a \in 0..(MemSize - 1) |-> <<0, a>>]
  /\ reqOf = Empty /\ subsOf = Empty /\ seen = Empty /\ wrote = {} /\ served = {} /\ done = Empty

\* ----------------------------------------------------------------- driver
EnvReq(id, k, a, n, d) ==
  /\ id \notin DOMAIN reqOf /\ k \in {"h2d", "d2h"} /\ n >= 1
  /\ drvIn' = Append(drvIn, [id |-> id, k |-> k, a |-> a, n |-> n, d |-> d])
  /\ reqOf' = reqOf @@ (id :> [k |-> k, a |-> a, n |-> n, d |-> d])
  /\ subsOf' = subsOf @@ (id :> {}) /\ done' = done @@ (id :> 0)
  /\ seen' = seen @@ (id :> [i \in 1..n |-> NoVal])
  /\ buf' = buf @@ (id :> [i \in 1..n |-> NoVal])
  /\ UNCHANGED <<flushCur, flushLeft, cacheOut, ackIn, cpMap, toDma, colls, unsent, pending, atMem, memRsp,
                 toCPq, toCP, toDrv, mem, wrote, served>>

EnvFlush(id) ==
  /\ id \notin DOMAIN reqOf
  /\ drvIn' = Append(drvIn, [id |-> id, k |-> "flush", a |-> 0, n |-> 0, d |-> <<>>])
  /\ reqOf' = reqOf @@ (id :> [k |-> "flush", a |-> 0, n |-> 0, d |-> <<>>])
  /\ done' = done @@ (id :> 0)
  /\ UNCHANGED <<flushCur, flushLeft, cacheOut, ackIn, cpMap, toDma, colls, unsent, pending, atMem, memRsp,
                 toCPq, toCP, toDrv, buf, mem, subsOf, seen, wrote, served>>

EnvTake ==
  /\ toDrv # <<>> /\ toDrv' = Tail(toDrv)
  /\ UNCHANGED <<drvIn, flushCur, flushLeft, cacheOut, ackIn, cpMap, toDma, colls, unsent, pending, atMem, memRsp,
                 toCPq, toCP, buf, mem, reqOf, subsOf, seen, wrote, served, done>>

\* ------------------------------------------------------ command processor
\* processFlushReq: one flush request per cache; with no cache the answer is immediate
CPFlushStart(nc, cids) ==
  /\ drvIn # <<>> /\ Head(drvIn).k = "flush" /\ flushLeft = 0
  /\ Cardinality(cids) = nc /\ cids \cap cacheOut = {}
  /\ drvIn' = Tail(drvIn)
  /\ IF nc = 0
     THEN /\ toDrv' = Append(toDrv, Head(drvIn).id)
          /\ done' = [done EXCEPT ![Head(drvIn).id] = @ + 1]
          /\ UNCHANGED <<flushCur, flushLeft, cacheOut>>
     ELSE /\ flushCur' = Head(drvIn).id /\ flushLeft' = nc /\ cacheOut' = cacheOut \cup cids
          /\ UNCHANGED <<toDrv, done>>
  /\ UNCHANGED <<ackIn, cpMap, toDma, colls, unsent, pending, atMem, memRsp, toCPq, toCP, buf, mem,
                 reqOf, subsOf, seen, wrote, served>>

EnvCacheAck(x) ==
  /\ x \in cacheOut /\ cacheOut' = cacheOut \ {x} /\ ackIn' = Append(ackIn, x)
  /\ UNCHANGED <<drvIn, flushCur, flushLeft, cpMap, toDma, colls, unsent, pending, atMem, memRsp,
                 toCPq, toCP, toDrv, buf, mem, reqOf, subsOf, seen, wrote, served, done>>

\* processCacheFlushRsp: the flush is answered when the last cache acknowledged
CPAck ==
  /\ ackIn # <<>> /\ flushLeft > 0
  /\ ackIn' = Tail(ackIn) /\ flushLeft' = flushLeft - 1
  /\ IF flushLeft = 1
     THEN /\ toDrv' = Append(toDrv, flushCur) /\ done' = [done EXCEPT ![flushCur] = @ + 1] /\ flushCur' = 0
     ELSE UNCHANGED <<toDrv, done, flushCur>>
  /\ UNCHANGED <<drvIn, cacheOut, cpMap, toDma, colls, unsent, pending, atMem, memRsp, toCPq, toCP, buf, mem,
                 reqOf, subsOf, seen, wrote, served>>

\* processMemCopyReq: waits for a flush in progress, forwards a clone with a fresh id
CPForward(cl) ==
  /\ drvIn # <<>> /\ Head(drvIn).k \in {"h2d", "d2h"}
  /\ flushLeft = 0
  /\ cl \notin DOMAIN cpMap
  /\ drvIn' = Tail(drvIn)
  /\ cpMap' = cpMap @@ (cl :> Head(drvIn))
  /\ toDma' = Append(toDma, [id |-> cl, k |-> Head(drvIn).k, a |-> Head(drvIn).a, n |-> Head(drvIn).n, d |-> Head(drvIn).d])
  /\ UNCHANGED <<flushCur, flushLeft, cacheOut, ackIn, colls, unsent, pending, atMem, memRsp, toCPq, toCP, toDrv,
                 buf, mem, reqOf, subsOf, seen, wrote, served, done>>

\* processMemCopyRsp
CPRespond ==
  /\ toCP # <<>> /\ Head(toCP) \in DOMAIN cpMap
  /\ LET o == cpMap[Head(toCP)].id
     IN /\ toDrv' = Append(toDrv, o) /\ done' = [done EXCEPT ![o] = @ + 1]
  /\ toCP' = Tail(toCP)
  /\ cpMap' = [c \in DOMAIN cpMap \ {Head(toCP)} |-> cpMap[c]]
  /\ UNCHANGED <<drvIn, flushCur, flushLeft, cacheOut, ackIn, toDma, colls, unsent, pending, atMem, memRsp, toCPq,
                 buf, mem, reqOf, subsOf, seen, wrote, served>>

\* ------------------------------------------------------------- DMA engine
\* parseFromCP: a new RequestCollection, one sub-request per access unit touched.
\* ids = the ids of the sub-requests in address order.
DMAParse(line, ids) ==
  /\ toDma # <<>> /\ Len(colls) < MaxInFlight
  /\ LET r  == Head(toDma)
         ch == Chunks(line, r.a, r.n, 0)
         o  == cpMap[r.id].id
     IN /\ Len(ids) = Len(ch)
        /\ \A i, j \in 1..Len(ids) : i # j => ids[i] # ids[j]
        /\ \A i \in 1..Len(ids) : ids[i] \notin served /\ ~\E s \in pending : s.id = ids[i]
        /\ colls' = Append(colls, [sup |-> r.id, k |-> r.k, a |-> r.a, n |-> r.n, left |-> {ids[i] : i \in 1..Len(ids)}])
        /\ unsent' = unsent \o [i \in 1..Len(ch) |->
                                  [id |-> ids[i], sup |-> r.id, k |-> IF r.k = "h2d" THEN "w" ELSE "r",
                                   a |-> ch[i].a, n |-> ch[i].n, off |-> ch[i].off,
                                   d |-> IF r.k = "h2d" THEN Slice(r.d, ch[i].off, ch[i].n) ELSE <<>>]]
        /\ subsOf' = [subsOf EXCEPT ![o] = {[a |-> ch[i].a, n |-> ch[i].n, off |-> ch[i].off] : i \in 1..Len(ch)}]
  /\ toDma' = Tail(toDma)
  /\ UNCHANGED <<drvIn, flushCur, flushLeft, cacheOut, ackIn, cpMap, pending, atMem, memRsp, toCPq, toCP, toDrv,
                 buf, mem, reqOf, seen, wrote, served, done>>

\* send(ToMem): the sub-requests leave in the order they were made
DMASend ==
  /\ unsent # <<>>
  /\ pending' = pending \cup {Head(unsent)} /\ atMem' = atMem \cup {Head(unsent).id}
  /\ unsent' = Tail(unsent)
  /\ UNCHANGED <<drvIn, flushCur, flushLeft, cacheOut, ackIn, cpMap, toDma, colls, memRsp, toCPq, toCP, toDrv,
                 buf, mem, reqOf, subsOf, seen, wrote, served, done>>

SubById(x) == CHOOSE s \in pending : s.id = x
CollOf(x) == CHOOSE i \in 1..Len(colls) : x \in colls[i].left

\* the memory serves any sub-request it holds; data = what a read returns
MemServe(x, data) ==
  /\ x \in atMem /\ atMem' = atMem \ {x}
  /\ served' = served \cup {x}
  /\ LET s == SubById(x)
         o == cpMap[s.sup].id
     IN IF s.k = "w"
        THEN /\ data = <<>>
             /\ mem' = [p \in DOMAIN mem |-> IF p >= s.a /\ p < s.a + s.n THEN s.d[p - s.a + 1] ELSE mem[p]]
             /\ wrote' = IF TrackWrites THEN wrote \cup {[id |-> o, a |-> s.a + i - 1, v |-> s.d[i]] : i \in 1..s.n} ELSE wrote
             /\ UNCHANGED seen
        ELSE /\ Len(data) = s.n
             /\ seen' = [seen EXCEPT ![o] = [i \in 1..Len(@) |->
                                              IF i > s.off /\ i <= s.off + s.n THEN data[i - s.off] ELSE @[i]]]
             /\ UNCHANGED <<mem, wrote>>
  /\ memRsp' = Append(memRsp, [to |-> x, d |-> data])
  /\ UNCHANGED <<drvIn, flushCur, flushLeft, cacheOut, ackIn, cpMap, toDma, colls, unsent, pending, toCPq, toCP,
                 toDrv, buf, reqOf, subsOf, done>>

\* parseFromMem: the answer is accounted to its collection; the data of a read is
\* copied to DstBuffer[req.Address - SrcAddress :]; the last answer completes the copy
DMARecv ==
  /\ memRsp # <<>>
  /\ LET x == Head(memRsp).to
         s == SubById(x)
         i == CollOf(x)
         c == colls[i]
         o == cpMap[c.sup].id
         left == c.left \ {x}
     IN /\ \E q \in pending : q.id = x
        /\ \E j \in 1..Len(colls) : x \in colls[j].left
        /\ pending' = pending \ {s}
        /\ IF c.k = "d2h"
           THEN buf' = [buf EXCEPT ![o] = [j \in 1..Len(@) |->
                                            IF j > s.a - c.a /\ j <= s.a - c.a + s.n THEN Head(memRsp).d[j - (s.a - c.a)] ELSE @[j]]]
           ELSE UNCHANGED buf
        /\ IF left = {}
           THEN /\ colls' = [j \in 1..(Len(colls) - 1) |-> IF j < i THEN colls[j] ELSE colls[j + 1]]
                /\ toCPq' = Append(toCPq, c.sup)
           ELSE /\ colls' = [colls EXCEPT ![i].left = left]
                /\ UNCHANGED toCPq
  /\ memRsp' = Tail(memRsp)
  /\ UNCHANGED <<drvIn, flushCur, flushLeft, cacheOut, ackIn, cpMap, toDma, unsent, atMem, toCP, toDrv, mem,
                 reqOf, subsOf, seen, wrote, served, done>>

DMARspSend ==
  /\ toCPq # <<>> /\ toCP' = Append(toCP, Head(toCPq)) /\ toCPq' = Tail(toCPq)
  /\ UNCHANGED <<drvIn, flushCur, flushLeft, cacheOut, ackIn, cpMap, toDma, colls, unsent, pending, atMem, memRsp,
                 toDrv, buf, mem, reqOf, subsOf, seen, wrote, served, done>>

\* ---------------------------------------------------------------- MC next
NextId == Cardinality(DOMAIN reqOf) + 1
CloneOfHead == IF drvIn # <<>> THEN 100 + Head(drvIn).id ELSE 0
SubIds(cl, n) == [i \in 1..n |-> 1000 * cl + i]
CacheIds == IF drvIn # <<>> THEN {20 * Head(drvIn).id + i : i \in 1..NCaches} ELSE {}
ParseHead == toDma # <<>> /\ DMAParse(Line, SubIds(Head(toDma).id, Len(Chunks(Line, Head(toDma).a, Head(toDma).n, 0))))
ServeAny == \E x \in atMem : LET s == SubById(x) IN
               MemServe(x, IF s.k = "w" THEN <<>> ELSE [i \in 1..s.n |-> mem[s.a + i - 1]])

MCNext ==
  \/ /\ NextId <= MaxReq
     /\ \/ \E r \in MCReqs : EnvReq(NextId, r.k, r.a, r.n, IF r.k = "h2d" THEN [i \in 1..r.n |-> <<NextId, i>>] ELSE <<>>)
        \/ EnvFlush(NextId)
  \/ EnvTake \/ CPAck \/ CPRespond \/ DMASend \/ DMARecv \/ DMARspSend
  \/ CPFlushStart(NCaches, CacheIds)
  \/ \E x \in cacheOut : EnvCacheAck(x)
  \/ CPForward(CloneOfHead) \/ ParseHead \/ ServeAny

Spec == Init /\ [][MCNext]_vars
Fairness == /\ WF_vars(EnvTake) /\ WF_vars(CPAck) /\ WF_vars(CPRespond) /\ WF_vars(DMASend) /\ WF_vars(DMARecv)
            /\ WF_vars(DMARspSend) /\ WF_vars(CPFlushStart(NCaches, CacheIds))
            /\ WF_vars(\E x \in cacheOut : EnvCacheAck(x))
            /\ WF_vars(CPForward(CloneOfHead)) /\ WF_vars(ParseHead) /\ WF_vars(ServeAny)
FairSpec == Spec /\ Fairness

\* --------------------------------------------------------------- properties
Copies == {o \in DOMAIN reqOf : reqOf[o].k \in {"h2d", "d2h"}}

\* the sub-requests of a copy cover its range exactly, none crosses an access-unit boundary
Covers(line, o) ==
  LET S == subsOf[o] IN
  /\ \A s \in S : /\ s.n >= 1 /\ s.a >= reqOf[o].a /\ s.a + s.n <= reqOf[o].a + reqOf[o].n
                  /\ s.off = s.a - reqOf[o].a
                  /\ s.a \div line = (s.a + s.n - 1) \div line
  /\ \A s, t \in S : s # t => ~OverlapTrue(s.a, s.a + s.n, t.a, t.a + t.n)
  /\ \A p \in reqOf[o].a .. (reqOf[o].a + reqOf[o].n - 1) : \E s \in S : p >= s.a /\ p < s.a + s.n
SubsExactL(line) == \A o \in Copies : subsOf[o] # {} => Covers(line, o)
SubsExact == SubsExactL(Line)

\* a copy is answered at most once, and only when the memory answered every one of its transactions
InFlightOf(o) == {s \in pending : cpMap[s.sup].id = o}
CompleteOnceAfterAllL(line) ==
  \A o \in DOMAIN done : /\ done[o] <= 1
                         /\ (done[o] = 1 /\ o \in Copies) => /\ subsOf[o] # {} /\ Covers(line, o)
                                                             /\ ~\E s \in pending : s.sup \in DOMAIN cpMap /\ cpMap[s.sup].id = o
                                                             /\ ~\E i \in 1..Len(colls) : colls[i].sup \in DOMAIN cpMap /\ cpMap[colls[i].sup].id = o

CompleteOnceAfterAll == CompleteOnceAfterAllL(Line)

\* a D2H hands the driver, byte for byte, what the memory returned
D2HData == \A o \in Copies : (done[o] = 1 /\ reqOf[o].k = "d2h") => buf[o] = seen[o]
\* an H2D writes exactly its bytes at exactly its addresses, all of them before it is answered
H2DData ==
  /\ \A w \in wrote : /\ reqOf[w.id].k = "h2d" /\ w.a >= reqOf[w.id].a /\ w.a < reqOf[w.id].a + reqOf[w.id].n
                      /\ w.v = reqOf[w.id].d[w.a - reqOf[w.id].a + 1]
  /\ \A o \in Copies : (done[o] = 1 /\ reqOf[o].k = "h2d") =>
        \A p \in reqOf[o].a .. (reqOf[o].a + reqOf[o].n - 1) : \E w \in wrote : w.id = o /\ w.a = p

Quiescent == /\ drvIn = <<>> /\ ackIn = <<>> /\ cacheOut = {} /\ toDma = <<>> /\ unsent = <<>> /\ atMem = {}
             /\ memRsp = <<>> /\ toCPq = <<>> /\ toCP = <<>> /\ toDrv = <<>>
AllAnswered == Quiescent => \A o \in DOMAIN done : done[o] = 1
Bounded == Len(colls) <= MaxInFlight
Progress == \A o \in 1..MaxReq : [](o \in DOMAIN reqOf => <>(o \in DOMAIN done /\ done[o] = 1))
=============================================================================
