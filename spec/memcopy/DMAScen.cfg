SPECIFICATION SSpec
CONSTANTS
  Line = 2
  NCaches = 2
  TrackWrites = TRUE
  MaxInFlight = 4
  MCReqs <- MCReqSet
  MaxReq = 6
  MemSize = 6
INVARIANTS SubsExact CompleteOnceAfterAll D2HData H2DData Bounded
CHECK_DEADLOCK FALSE
