SPECIFICATION Spec
CONSTANTS
  Line = 2
  NCaches = 1
  TrackWrites = TRUE
  MaxInFlight = 2
  MCReqs <- MCReqSetQ
  MaxReq = 3
  MemSize = 6
INVARIANTS SubsExact CompleteOnceAfterAll D2HData H2DData AllAnswered Bounded
CHECK_DEADLOCK FALSE
