----------------------------- MODULE DMATrace -----------------------------
(***************************************************************************)
(* Is a port-event trace of the real cp.CommandProcessor + cp.DMAEngine    *)
(* (harness/cmd/c11 -mode dma) a behaviour of DMA.tla?                     *)
(*                                                                         *)
(*   DrvReq    a request arrives at CP.ToDriver            EnvReq/EnvFlush *)
(*   CacheReq  CP sends a flush to a cache (n per flush)   CPFlushStart    *)
(*   CacheAck  a cache acknowledges                        EnvCacheAck     *)
(*   CPAck     CP consumes the acknowledgement             CPAck           *)
(*   CPFwd     CP sends the clone to the DMA engine        CPForward       *)
(*   DMATake   the DMA engine takes the clone              DMAParse        *)
(*   Sub       the DMA engine sends a read/write to memory DMASend         *)
(*   MemRsp    the memory answers (any order)              MemServe        *)
(*   DMARecv   the DMA engine consumes the answer          DMARecv         *)
(*   DMADone   the DMA engine answers the clone            DMARspSend      *)
(*   CPDone    CP answers the driver                       CPRespond       *)
(*   CPTake / CPRecv  second halves of the above (checked, no state change)*)
(*   Quiesce   nothing left to do: everything answered, memory as expected *)
(***************************************************************************)
EXTENDS DMA, TraceLib, Json

TraceLog == ndJsonDeserialize("trace.ndjson")
N == Len(TraceLog)

VARIABLES l,
          line, nc,   \* configuration of the run being validated (logged by Reset)
          cids,       \* ids of the cache flushes of the flush that is being started
          alias,      \* [logged sub-request id -> id used by the specification]
          conf,       \* how many answers to the driver were seen leaving the command processor
          msz,        \* bytes of memory behind the DMA engine; 0 = a real memory system (platform traces)
          names       \* port names of the run: [dmadst, memdst] (memdst "" = any memory controller)
tvars == <<vars, l, line, nc, cids, alias, conf, msz, names>>

ASSUME HWInit

Ev == TraceLog[l]
Is(e) == l <= N /\ Ev.e = e /\ l' = l + 1
Keep == UNCHANGED <<line, nc, cids, alias, conf, msz, names>>
KeepBut(x) == UNCHANGED x

InitMem(sz) == [a \in 0..(sz - 1) |-> 200 + (a % 50)]

TInit == Init /\ l = 1 /\ line = 1 /\ nc = 0 /\ cids = {} /\ alias = <<>> /\ conf = 0 /\ msz = 0
         /\ names = [dmadst |-> "", memdst |-> ""]

TReset ==
  /\ Is("Reset")
  /\ drvIn' = <<>> /\ flushCur' = 0 /\ flushLeft' = 0 /\ cacheOut' = {} /\ ackIn' = <<>> /\ cpMap' = <<>>
  /\ toDma' = <<>> /\ colls' = <<>> /\ unsent' = <<>> /\ pending' = {} /\ atMem' = {} /\ memRsp' = <<>>
  /\ toCPq' = <<>> /\ toCP' = <<>> /\ toDrv' = <<>> /\ buf' = <<>>
  /\ mem' = InitMem(Ev.msize)
  /\ reqOf' = <<>> /\ subsOf' = <<>> /\ seen' = <<>> /\ wrote' = {} /\ served' = {} /\ done' = <<>>
  /\ line' = Ev.line /\ nc' = Ev.caches /\ cids' = {} /\ alias' = <<>> /\ conf' = 0 /\ msz' = Ev.msize
  /\ names' = [dmadst |-> Ev.dmadst, memdst |-> Ev.memdst]

\* ----------------------------------------------------------------- driver
TDrvReq ==
  /\ Is("DrvReq") /\ cids = {}
  /\ IF Ev.k = "flush" THEN EnvFlush(Ev.id)
     ELSE /\ Ev.a >= 0 /\ (msz = 0 \/ Ev.a + Ev.n <= msz)
          /\ Ev.k = "h2d" => Len(Ev.d) = Ev.n
          /\ EnvReq(Ev.id, Ev.k, Ev.a, Ev.n, Ev.d)
  /\ Keep

\* the request was consumed by the action that forwarded / started it
TCPTake ==
  /\ Is("CPTake") /\ Ev.id \in DOMAIN reqOf
  /\ \A i \in 1..Len(drvIn) : drvIn[i].id # Ev.id
  /\ UNCHANGED vars /\ Keep

\* ------------------------------------------------------ command processor
TCacheReq ==
  /\ Is("CacheReq") /\ Ev.flush = 1 /\ Ev.inv = 0 /\ Ev.id \notin cids
  /\ Cardinality(cids) < nc
  /\ IF Cardinality(cids) + 1 = nc
     THEN /\ CPFlushStart(nc, cids \cup {Ev.id}) /\ cids' = {}
     ELSE /\ drvIn # <<>> /\ Head(drvIn).k = "flush" /\ flushLeft = 0
          /\ cids' = cids \cup {Ev.id} /\ UNCHANGED vars
  /\ UNCHANGED <<line, nc, alias, conf, msz, names>>

TCacheAck == Is("CacheAck") /\ EnvCacheAck(Ev.to) /\ Keep
TCPAck    == Is("CPAck") /\ ackIn # <<>> /\ Head(ackIn) = Ev.to /\ CPAck /\ Keep

TCPFwd ==
  /\ Is("CPFwd") /\ cids = {}
  /\ drvIn # <<>>
  /\ Head(drvIn).k = Ev.k /\ Head(drvIn).a = Ev.a /\ Head(drvIn).n = Ev.n /\ Head(drvIn).d = Ev.d   \* a faithful clone
  /\ Ev.dst = names.dmadst
  /\ CPForward(Ev.id)
  /\ Keep

\* an answer leaves the command processor towards the driver
TCPDone ==
  /\ Is("CPDone") /\ Ev.dst = "Driver.ToGPUs" /\ Ev.id \in DOMAIN reqOf /\ reqOf[Ev.id].k = Ev.k
  /\ IF Ev.k = "flush"
     THEN IF nc = 0
          THEN /\ drvIn # <<>> /\ Head(drvIn).id = Ev.id /\ CPFlushStart(0, {})
          ELSE /\ Len(toDrv) > conf /\ toDrv[conf + 1] = Ev.id     \* CPAck of the last cache has answered it
               /\ UNCHANGED vars
     ELSE /\ toCP # <<>> /\ Head(toCP) \in DOMAIN cpMap /\ cpMap[Head(toCP)].id = Ev.id
          /\ Ev.k = "d2h" => Ev.d = buf[Ev.id] /\ buf[Ev.id] = seen[Ev.id]   \* every byte at its place (D2HData)
          /\ CPRespond
  /\ conf' = conf + 1
  /\ toDrv'[conf + 1] = Ev.id
  /\ UNCHANGED <<line, nc, cids, alias, msz, names>>

TCPRecv == Is("CPRecv") /\ Ev.to \notin DOMAIN cpMap /\ UNCHANGED vars /\ Keep

\* ------------------------------------------------------------- DMA engine
TDMATake ==
  /\ Is("DMATake") /\ toDma # <<>> /\ Head(toDma).id = Ev.id
  /\ DMAParse(line, SubIds(Ev.id, Len(Chunks(line, Head(toDma).a, Head(toDma).n, 0))))
  /\ Keep

TSub ==
  /\ Is("Sub") /\ unsent # <<>> /\ Ev.id \notin DOMAIN alias
  /\ LET s == Head(unsent)
     IN /\ s.k = Ev.k /\ s.a = Ev.a /\ s.n = Ev.n /\ s.d = Ev.d      \* the right bytes for the right addresses
        /\ Ev.mask = 0 /\ (names.memdst = "" \/ Ev.dst = names.memdst)
        /\ alias' = alias @@ (Ev.id :> s.id)
  /\ DMASend
  /\ UNCHANGED <<line, nc, cids, conf, msz, names>>

TMemRsp == Is("MemRsp") /\ Ev.to \in DOMAIN alias /\ MemServe(alias[Ev.to], Ev.d) /\ Keep

TDMARecv ==
  /\ Is("DMARecv") /\ Ev.to \in DOMAIN alias
  /\ memRsp # <<>> /\ Head(memRsp).to = alias[Ev.to]
  /\ DMARecv /\ Keep

TDMADone == Is("DMADone") /\ toCPq # <<>> /\ Head(toCPq) = Ev.to /\ DMARspSend /\ Keep

\* ------------------------------------------------------------------- end
Runs(m, runs) == [a \in DOMAIN m |->
                    IF \E k \in 1..Len(runs) : a >= runs[k][1] /\ a < runs[k][1] + Len(runs[k][2])
                    THEN LET k == CHOOSE j \in 1..Len(runs) : a >= runs[j][1] /\ a < runs[j][1] + Len(runs[j][2])
                         IN runs[k][2][a - runs[k][1] + 1]
                    ELSE m[a]]
TQuiesce ==
  /\ Is("Quiesce") /\ cids = {}
  /\ drvIn = <<>> /\ ackIn = <<>> /\ cacheOut = {} /\ toDma = <<>> /\ unsent = <<>> /\ atMem = {}
  /\ memRsp = <<>> /\ toCPq = <<>> /\ toCP = <<>> /\ colls = <<>> /\ pending = {} /\ flushLeft = 0
  /\ \A o \in DOMAIN done : done[o] = 1
  /\ conf = Len(toDrv) /\ Ev.issued = Cardinality(DOMAIN reqOf) /\ Ev.answered = conf
  /\ (msz = 0 \/ mem = Runs(InitMem(msz), Ev.mem)) = TRUE          \* bytes outside the copied ranges untouched
  /\ UNCHANGED vars /\ Keep

TNext == \/ TReset \/ TDrvReq \/ TCPTake \/ TCacheReq \/ TCacheAck \/ TCPAck \/ TCPFwd \/ TCPDone \/ TCPRecv
         \/ TDMATake \/ TSub \/ TMemRsp \/ TDMARecv \/ TDMADone \/ TQuiesce

TSpec == TInit /\ [][TNext]_tvars

\* The sub-requests of a trace are the specification's own Chunks (every Sub event must equal the head
\* of `unsent'), and CPRespond is only enabled after the collection emptied: SubsExact and the
\* "after all" half of CompleteOnceAfterAll hold by construction; D2HData is checked when the answer leaves.
TCompleteOnce == \A o \in DOMAIN done : done[o] <= 1

Mark == HWNote(l)
Accepted == HWReport(N)
=============================================================================
