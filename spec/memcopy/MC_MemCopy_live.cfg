SPECIFICATION FairSpec
CONSTANTS
  PageSize = 2
  NPages = 3
  GPUs = {1, 2}
  PageDev <- MCPageDev2
  PhysPage <- MCPhys
  SpareDev <- MCSpare0
  MaxRemap = 0
  Bufs <- MCBufs1
  Ctxs = {1}
  Queues = {1}
  Ranges <- MCRangesQ
  KWrites <- MCKWritesQ
  MaxCmds = 2
  Contract = TRUE
  Deviations = {}
PROPERTIES Completes
CHECK_DEADLOCK FALSE
