---------------------------- MODULE MC_CUSched ----------------------------
EXTENDS CUSched
\* work-group shapes the environment maps
G2   == (1 :> {1, 2})
G3   == (1 :> {1, 2, 3})
G21  == (1 :> {1, 2}) @@ (2 :> {3})
G22  == (1 :> {1, 2}) @@ (2 :> {3, 4})
W00  == {<<0, 0>>}
W01  == {<<0, 0>>, <<1, 1>>}
W012 == {<<0, 0>>, <<1, 1>>, <<0, 2>>, <<1, 15>>}
NoDev == {}
AsImpl == {"CompletedWfNotCountedAtBarrier"}
AsImpl2 == {"EndpgmReleaseKeepsInternal"}
=============================================================================
