SPECIFICATION FairSpec
CONSTANTS
  NSimd = 2
  SimdOf <- Simd11
  Code <- Prog2
  LineSize = 8
  BufCap = 16
  MaxBack = 1
  UnitCap <- Caps
  Deviations <- NoDev
PROPERTIES Finishes
CHECK_DEADLOCK FALSE
