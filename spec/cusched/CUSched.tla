------------------------------- MODULE CUSched -------------------------------
(***************************************************************************)
(* Wavefront scheduling of the timing compute unit                         *)
(* (amd/timing/cu/scheduler.go, computeunit.go, vectormemoryunit.go,       *)
(* scalarunit.go): barriers, wait counts, wavefront termination and the    *)
(* work-group completion message.                                          *)
(*                                                                         *)
(* One action per sub-step of the code:                                    *)
(*   Issue          SchedulerImpl.DoIssue / issueToInternal                *)
(*   UnitDone       write stage of the scalar/branch/LDS/SIMD units        *)
(*                  (ComputeUnit.UpdatePCAndSetReady)                      *)
(*   MemExec        VectorMemoryUnit.execute / ScalarUnit.executeSMEMLoad  *)
(*                  (counter ++, wavefront ready again)                    *)
(*   MemReturnV/S   ComputeUnit.handleVectorDataLoadReturn /               *)
(*                  handleVectorDataStoreRsp / handleScalarDataLoadReturn  *)
(*   EvalWaitcnt    SchedulerImpl.evalSWaitCnt                             *)
(*   EvalBarrier    SchedulerImpl.evalSBarrier (+ passBarrier)             *)
(*   EvalEndpgm     SchedulerImpl.evalSEndPgm (+ sendWGCompletionMessage)  *)
(* The environment is explicit: the dispatcher maps work-groups (MapWG),   *)
(* memory answers after any delay (MemReturnV, MemReturnS), the dispatcher   *)
(* side of ToACE may leave completion messages in the port buffer          *)
(* (EnvTakeACE).  The order of sub-steps inside a tick is left free.       *)
(*                                                                         *)
(* Programs are not a constant: a wavefront is straight-line code, so the  *)
(* next instruction of a ready wavefront is any instruction (Issue(w, i)); *)
(* model checking therefore covers every program up to the length bound,   *)
(* the trace specification feeds the instruction the real CU issued.       *)
(*                                                                         *)
(* Instruction kinds: "alu" (anything that occupies an execution unit and  *)
(* returns in order: scalar/vector ALU, branch, LDS), "vmem" (FLAT load /  *)
(* store: counts in vmcnt and lgkmcnt), "smem" (scalar load: lgkmcnt),     *)
(* "wait" (s_waitcnt vmcnt(v) lgkmcnt(s)), "bar" (s_barrier), "end".       *)
(***************************************************************************)
EXTENDS Integers, Sequences, FiniteSets, TLC

CONSTANTS BufSize,     \* SchedulerImpl.barrierBufferSize
          AceCap,      \* capacity of the ToACE outgoing buffer
          Deviations,  \* as-implemented departures from the intended design (section 2.2 of DESIGN.md)
          InOrderMem,  \* TRUE: memory answers in request order per port (what the reorder buffer guarantees)
          MaxLen,      \* model checking only: instructions per wavefront before s_endpgm is forced
          Waits,       \* model checking only: set of <<v, s>> pairs s_waitcnt may carry
          Groups,      \* model checking only: function work-group -> set of wavefront ids
          SampledGroups \* model checking only: groups the environment may also map in sampling mode

VARIABLES
  wgOf,      \* wavefront -> work-group; the domain is the set of wavefronts mapped so far
  st,        \* wavefront -> "Ready" | "Running" | "AtBarrier" | "Done" | "Sampled"   (wavefront.Wavefront.State)
  cur,       \* wavefront -> instruction last issued [k, v, s]
  n,         \* wavefront -> number of instructions issued
  outV,      \* wavefront -> OutstandingVectorMemAccess
  outS,      \* wavefront -> OutstandingScalarMemAccess
  internal,  \* SchedulerImpl.internalExecuting
  bbuf,      \* SchedulerImpl.barrierBuffer
  vq, sq,    \* memory operations in flight on the vector / scalar memory port: Seq of [w, id]
  sent,      \* work-group -> number of WGCompletionMsg sent; the domain is the set of mapped work-groups
  aceOut,    \* completion messages waiting in ToACE.outgoing
  \* history
  reached,   \* wavefront -> number of s_barrier issued
  passed,    \* wavefront -> number of barriers it was released from
  bad        \* names of the ordering rules some step has broken

vars == <<wgOf, st, cur, n, outV, outS, internal, bbuf, vq, sq, sent, aceOut, reached, passed, bad>>

Special == {"wait", "bar", "end"}
Inst(k, v, s) == [k |-> k, v |-> v, s |-> s]
NoInst == Inst("none", 0, 0)

Wfs == DOMAIN wgOf
WfsOf(g) == {w \in Wfs : wgOf[w] = g}
Others(w) == WfsOf(wgOf[w]) \ {w}
Dev(d) == d \in Deviations

\* what is really in flight (the counters are the code's book-keeping of this)
CountIn(q, w) == Cardinality({j \in 1..Len(q) : q[j].w = w})
TruthV(w) == CountIn(vq, w)
TruthS(w) == CountIn(vq, w) + CountIn(sq, w)
Without(q, j) == [i \in 1..(Len(q) - 1) |-> IF i < j THEN q[i] ELSE q[i + 1]]

Init ==
  /\ wgOf = <<>> /\ st = <<>> /\ cur = <<>> /\ n = <<>> /\ outV = <<>> /\ outS = <<>>
  /\ internal = {} /\ bbuf = {} /\ vq = <<>> /\ sq = <<>> /\ sent = <<>> /\ aceOut = 0
  /\ reached = <<>> /\ passed = <<>> /\ bad = {}

\* ------------------------------------------------------------- environment
\* ComputeUnit.handleMapWGReq: every wavefront of the group becomes ready.
MapWG(g, ws) ==
  /\ g \notin DOMAIN sent /\ ws # {} /\ ws \cap Wfs = {}
  /\ wgOf' = wgOf @@ [w \in ws |-> g]
  /\ st' = st @@ [w \in ws |-> "Ready"]
  /\ cur' = cur @@ [w \in ws |-> NoInst]
  /\ n' = n @@ [w \in ws |-> 0]
  /\ outV' = outV @@ [w \in ws |-> 0] /\ outS' = outS @@ [w \in ws |-> 0]
  /\ reached' = reached @@ [w \in ws |-> 0] /\ passed' = passed @@ [w \in ws |-> 0]
  /\ sent' = sent @@ (g :> 0)
  /\ UNCHANGED <<internal, bbuf, vq, sq, aceOut, bad>>

\* handleMapWGReq with wavefront sampling switched on and a stable prediction: the wavefronts are not
\* simulated, a WfCompletionEvent per wavefront is scheduled at the predicted time.
MapWGSampled(g, ws) ==
  /\ g \notin DOMAIN sent /\ ws # {} /\ ws \cap Wfs = {}
  /\ wgOf' = wgOf @@ [w \in ws |-> g]
  /\ st' = st @@ [w \in ws |-> "Sampled"]
  /\ cur' = cur @@ [w \in ws |-> NoInst]
  /\ n' = n @@ [w \in ws |-> 0]
  /\ outV' = outV @@ [w \in ws |-> 0] /\ outS' = outS @@ [w \in ws |-> 0]
  /\ reached' = reached @@ [w \in ws |-> 0] /\ passed' = passed @@ [w \in ws |-> 0]
  /\ sent' = sent @@ (g :> 0)
  /\ UNCHANGED <<internal, bbuf, vq, sq, aceOut, bad>>

MemReturnV(j) ==
  /\ j \in 1..Len(vq) /\ (InOrderMem => j = 1)
  /\ LET w == vq[j].w IN
       /\ outV' = [outV EXCEPT ![w] = @ - 1]
       /\ outS' = [outS EXCEPT ![w] = @ - 1]
  /\ vq' = Without(vq, j)
  /\ UNCHANGED <<wgOf, st, cur, n, internal, bbuf, sq, sent, aceOut, reached, passed, bad>>

MemReturnS(j) ==
  /\ j \in 1..Len(sq) /\ (InOrderMem => j = 1)
  /\ outS' = [outS EXCEPT ![sq[j].w] = @ - 1]
  /\ sq' = Without(sq, j)
  /\ UNCHANGED <<wgOf, st, cur, n, outV, internal, bbuf, vq, sent, aceOut, reached, passed, bad>>

EnvTakeACE ==
  /\ aceOut > 0 /\ aceOut' = aceOut - 1
  /\ UNCHANGED <<wgOf, st, cur, n, outV, outS, internal, bbuf, vq, sq, sent, reached, passed, bad>>

\* --------------------------------------------------------------- component
Issue(w, i) ==
  /\ w \in Wfs /\ st[w] = "Ready" /\ i.k # "none"
  /\ st' = [st EXCEPT ![w] = "Running"]
  /\ cur' = [cur EXCEPT ![w] = i]
  /\ n' = [n EXCEPT ![w] = @ + 1]
  /\ internal' = IF i.k \in Special THEN internal \cup {w} ELSE internal
  /\ reached' = IF i.k = "bar" THEN [reached EXCEPT ![w] = @ + 1] ELSE reached
  /\ UNCHANGED <<wgOf, outV, outS, bbuf, vq, sq, sent, aceOut, passed, bad>>

UnitDone(w) ==
  /\ w \in Wfs /\ st[w] = "Running" /\ cur[w].k = "alu"
  /\ st' = [st EXCEPT ![w] = "Ready"]
  /\ UNCHANGED <<wgOf, cur, n, outV, outS, internal, bbuf, vq, sq, sent, aceOut, reached, passed, bad>>

MemExec(w, id) ==
  /\ w \in Wfs /\ st[w] = "Running" /\ cur[w].k \in {"vmem", "smem"}
  /\ st' = [st EXCEPT ![w] = "Ready"]
  /\ outS' = [outS EXCEPT ![w] = @ + 1]
  /\ IF cur[w].k = "vmem"
     THEN /\ outV' = [outV EXCEPT ![w] = @ + 1]
          /\ vq' = Append(vq, [w |-> w, id |-> id]) /\ sq' = sq
     ELSE /\ outV' = outV
          /\ sq' = Append(sq, [w |-> w, id |-> id]) /\ vq' = vq
  /\ UNCHANGED <<wgOf, cur, n, internal, bbuf, sent, aceOut, reached, passed, bad>>

EvalWaitcnt(w) ==
  /\ w \in internal /\ cur[w].k = "wait"
  /\ outS[w] <= cur[w].s /\ outV[w] <= cur[w].v
  /\ st' = [st EXCEPT ![w] = "Ready"]
  /\ internal' = internal \ {w}
  /\ bad' = IF TruthV(w) > cur[w].v \/ TruthS(w) > cur[w].s THEN bad \cup {"WaitcntSound"} ELSE bad
  /\ UNCHANGED <<wgOf, cur, n, outV, outS, bbuf, vq, sq, sent, aceOut, reached, passed>>

\* areAllWfInWGAtBarrier: the intended rule counts finished wavefronts as arrived.
Arrived(s, g) ==
  \A x \in WfsOf(g) : \/ s[x] = "AtBarrier"
                      \/ (s[x] = "Done" /\ ~Dev("CompletedWfNotCountedAtBarrier"))

\* passBarrier / setAllWfStateToReady for the wavefronts of g waiting in s
Released(s, g) == [x \in Wfs |-> IF wgOf[x] = g /\ s[x] = "AtBarrier" THEN "Ready" ELSE s[x]]
PassedAfter(s, g) == [x \in Wfs |-> IF wgOf[x] = g /\ s[x] = "AtBarrier" THEN passed[x] + 1 ELSE passed[x]]

EvalBarrier(w) ==
  /\ w \in internal /\ cur[w].k = "bar"
  /\ LET g == wgOf[w]
         s1 == [st EXCEPT ![w] = "AtBarrier"]
     IN IF Arrived(s1, g)
        THEN /\ st' = Released(s1, g) /\ passed' = PassedAfter(s1, g)
             /\ internal' = internal \ WfsOf(g) /\ bbuf' = bbuf \ WfsOf(g)
        ELSE IF Cardinality(bbuf) < BufSize
        THEN /\ st' = s1 /\ bbuf' = bbuf \cup {w} /\ internal' = internal \ {w}
             /\ passed' = passed
        ELSE \* buffer full: the wavefront stays in internalExecuting and is evaluated again
             /\ st[w] = "Running" /\ st' = s1
             /\ UNCHANGED <<internal, bbuf, passed>>
  /\ UNCHANGED <<wgOf, cur, n, outV, outS, vq, sq, sent, aceOut, reached, bad>>

EvalEndpgm(w) ==
  /\ w \in internal /\ cur[w].k = "end"
  /\ outV[w] = 0 /\ outS[w] = 0
  /\ LET g == wgOf[w]
         sd == [st EXCEPT ![w] = "Done"]
     IN IF \A x \in Others(w) : st[x] = "Done"
        THEN \* last wavefront: the completion message must fit in the port
             /\ aceOut < AceCap /\ aceOut' = aceOut + 1
             /\ sent' = [sent EXCEPT ![g] = @ + 1]
             /\ st' = sd /\ internal' = internal \ {w}
             /\ UNCHANGED <<bbuf, passed>>
        ELSE IF \A x \in Others(w) : st[x] \in {"AtBarrier", "Done"}
        THEN \* the siblings wait at a barrier that this wavefront will never reach: release them
             /\ st' = Released(sd, g) /\ passed' = PassedAfter(sd, g)
             /\ bbuf' = bbuf \ WfsOf(g)
             /\ internal' = IF Dev("EndpgmReleaseKeepsInternal") THEN internal \ {w} ELSE internal \ WfsOf(g)
             /\ UNCHANGED <<sent, aceOut>>
        ELSE /\ st' = sd /\ internal' = internal \ {w}
             /\ UNCHANGED <<bbuf, passed, sent, aceOut>>
  /\ bad' = IF TruthS(w) > 0 THEN bad \cup {"EndAfterMemory"} ELSE bad
  /\ UNCHANGED <<wgOf, cur, n, outV, outS, vq, sq, reached>>

\* ComputeUnit.handleWfCompletionEvent: a sampled wavefront ends at its predicted time; the last one of the
\* group reports the completion (the event is re-scheduled until the message fits in the port).
SampledEnd(w) ==
  /\ w \in Wfs /\ st[w] = "Sampled"
  /\ IF \A x \in Others(w) : st[x] = "Done"
     THEN /\ aceOut < AceCap /\ aceOut' = aceOut + 1
          /\ sent' = [sent EXCEPT ![wgOf[w]] = @ + 1]
     ELSE UNCHANGED <<sent, aceOut>>
  /\ st' = [st EXCEPT ![w] = "Done"]
  /\ UNCHANGED <<wgOf, cur, n, outV, outS, internal, bbuf, vq, sq, reached, passed, bad>>

\* ----------------------------------------------------------------- MC next
MCInsts == {Inst("alu", 0, 0), Inst("vmem", 0, 0), Inst("smem", 0, 0), Inst("bar", 0, 0), Inst("end", 0, 0)}
           \cup {Inst("wait", p[1], p[2]) : p \in Waits}

IssueAny(w) == w \in Wfs /\ \E i \in MCInsts : (n[w] >= MaxLen => i.k = "end") /\ Issue(w, i)

CompStep(w) == IssueAny(w) \/ UnitDone(w) \/ MemExec(w, 0) \/ EvalWaitcnt(w) \/ EvalBarrier(w) \/ EvalEndpgm(w)
               \/ SampledEnd(w)
CompNext == \E w \in Wfs : CompStep(w)

EnvNext ==
  \/ \E g \in DOMAIN Groups : MapWG(g, Groups[g])
  \/ \E g \in DOMAIN Groups \cap SampledGroups : MapWGSampled(g, Groups[g])
  \/ \E j \in 1..Len(vq) : MemReturnV(j)
  \/ \E j \in 1..Len(sq) : MemReturnS(j)
  \/ EnvTakeACE

Next == CompNext \/ EnvNext

Spec == Init /\ [][Next]_vars
FairSpec == Spec
            /\ \A w \in UNION {Groups[g] : g \in DOMAIN Groups} :
                 /\ WF_vars(UnitDone(w)) /\ WF_vars(MemExec(w, 0)) /\ WF_vars(EvalWaitcnt(w))
                 /\ WF_vars(EvalBarrier(w)) /\ WF_vars(EvalEndpgm(w)) /\ WF_vars(IssueAny(w))
                 /\ WF_vars(SampledEnd(w))
            /\ WF_vars(\E j \in 1..Len(vq) : MemReturnV(j)) /\ WF_vars(\E j \in 1..Len(sq) : MemReturnS(j))
            /\ WF_vars(EnvTakeACE)
            /\ \A g \in DOMAIN Groups : WF_vars(MapWG(g, Groups[g]) \/ MapWGSampled(g, Groups[g]))

\* -------------------------------------------------------------- properties
States == {"Ready", "Running", "AtBarrier", "Done", "Sampled"}
TypeOK ==
  /\ \A w \in Wfs : /\ st[w] \in States /\ outV[w] >= 0 /\ outS[w] >= 0
                    /\ passed[w] <= reached[w]
  /\ internal \subseteq Wfs /\ bbuf \subseteq Wfs /\ Cardinality(bbuf) <= BufSize
  /\ aceOut \in 0..AceCap

\* no wavefront is past barrier k unless every sibling reached barrier k or has finished
BarrierOrder ==
  \A w \in Wfs : \A x \in Others(w) : passed[w] > reached[x] => st[x] = "Done"

\* the counters the decisions are taken on are the number of operations really in flight
CountersExact == \A w \in Wfs : outV[w] = TruthV(w) /\ outS[w] = TruthS(w)

\* s_waitcnt completed only at or below the requested counts; s_endpgm only with nothing in flight
Rules == bad = {}
EndAfterMemory == \A w \in Wfs : st[w] = "Done" => TruthS(w) = 0

\* completion reported at most once, and only when every wavefront of the group has ended
CompletionOnce == \A g \in DOMAIN sent : sent[g] <= 1 /\ (sent[g] = 1 => \A w \in WfsOf(g) : st[w] = "Done")

\* a wavefront waiting at a barrier sits in the barrier buffer or is still being evaluated
BarrierBuffered == \A w \in Wfs : st[w] = "AtBarrier" => (w \in bbuf \/ w \in internal)

\* nothing left to do for the component and the environment: every mapped group was reported
Quiescent == vq = <<>> /\ sq = <<>> /\ aceOut = 0 /\ ~ENABLED CompNext
AllReported == \A g \in DOMAIN sent : sent[g] = 1
NoHang == Quiescent => AllReported

\* liveness: every group the environment maps is eventually reported
Completes == <>[](DOMAIN sent = DOMAIN Groups /\ AllReported)
=============================================================================
