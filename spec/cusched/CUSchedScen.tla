---------------------------- MODULE CUSchedScen ----------------------------
(* CUSched with a history variable naming the step taken: `tlc -simulate`  *)
(* on this module yields behaviours (a program per wavefront = the         *)
(* instructions it was made to issue, plus a schedule of memory answers,   *)
(* work-group arrivals and relative wavefront progress) that the Go driver *)
(* turns into real kernels and environments for the real compute units.    *)
EXTENDS CUSched
CONSTANT Bars   \* work-group -> number of barriers every wavefront of the group executes; -1: unconstrained
                \* (wavefronts then leave at different barrier counts: the early-exit programs)
VARIABLE act

G2   == (1 :> {1, 2})
G3   == (1 :> {1, 2, 3})
G22  == (1 :> {1, 2}) @@ (2 :> {3, 4})
G31  == (1 :> {1, 2, 3}) @@ (2 :> {4})
G4   == (1 :> {1, 2, 3, 4})
W012 == {<<0, 0>>, <<1, 1>>, <<0, 15>>, <<2, 15>>, <<15, 0>>}
NoDev == {}
AsImpl == {"CompletedWfNotCountedAtBarrier"}
Free2 == (1 :> -1) @@ (2 :> -1)
Bal12 == (1 :> 1) @@ (2 :> 2)
Bal20 == (1 :> 2) @@ (2 :> 0)
Bal1  == (1 :> 1)
Bal2  == (1 :> 2)

\* the instruction a wavefront may be given next
Allowed(w, i) ==
  LET nb == Bars[wgOf[w]] IN
  IF nb < 0 THEN (n[w] >= MaxLen => i.k = "end")
  ELSE /\ (i.k = "bar" => reached[w] < nb)
       /\ (i.k = "end" => reached[w] = nb)
       /\ (n[w] >= MaxLen => i.k = (IF reached[w] < nb THEN "bar" ELSE "end"))

A(a, w) == act' = [a |-> a, w |-> w]
SInit == Init /\ act = [a |-> "Init", w |-> 0]
SNext ==
  \/ \E g \in DOMAIN Groups : MapWG(g, Groups[g]) /\ act' = [a |-> "MapWG", w |-> 0, g |-> g]
  \/ \E g \in DOMAIN Groups \cap SampledGroups : MapWGSampled(g, Groups[g]) /\ act' = [a |-> "MapWGSampled", w |-> 0, g |-> g]
  \/ \E w \in Wfs :
       \/ \E i \in MCInsts : Allowed(w, i) /\ Issue(w, i) /\ act' = [a |-> "Issue", w |-> w, i |-> i]
       \/ UnitDone(w) /\ A("UnitDone", w)
       \/ MemExec(w, 0) /\ A("MemExec", w)
       \/ EvalWaitcnt(w) /\ A("EvalWaitcnt", w)
       \/ EvalBarrier(w) /\ A("EvalBarrier", w)
       \/ EvalEndpgm(w) /\ A("EvalEndpgm", w)
       \/ SampledEnd(w) /\ A("SampledEnd", w)
  \/ \E j \in 1..Len(vq) : MemReturnV(j) /\ A("MemReturnV", vq[j].w)
  \/ \E j \in 1..Len(sq) : MemReturnS(j) /\ A("MemReturnS", sq[j].w)
  \/ EnvTakeACE /\ A("EnvTakeACE", 0)
SSpec == SInit /\ [][SNext]_<<vars, act>>
=============================================================================
