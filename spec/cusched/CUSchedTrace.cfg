SPECIFICATION TSpec
CONSTANTS
  BufSize = 1000000
  AceCap = 1000000
  Deviations = {}
  InOrderMem = FALSE
  MaxLen = 0
  Waits = {}
  Groups <- NoGroups
  SampledGroups = {}
  Tolerant = FALSE
INVARIANTS BarrierOrderInv WaitcntSoundInv EndAfterMemoryInv CountersExactInv CompletionOnceInv CompletionAfterLastInv NoHangInv ValuesInv PathInv IssueInOrderInv MemInstEndInv BarrierOrder CountersExact EndAfterMemory CompletionOnce
CONSTRAINT Mark
POSTCONDITION Accepted
CHECK_DEADLOCK FALSE
