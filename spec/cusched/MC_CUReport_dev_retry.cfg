SPECIFICATION Spec
CONSTANTS
  Groups = {1, 2, 3}
  OutCap = 1
  MaxTries = 3
  Deviations = {"RetryAppends"}
  TieRace = FALSE
INVARIANTS TypeOK CompletionOnce WfsExact NoHang
PROPERTIES IdempotentRetry
CHECK_DEADLOCK FALSE
