SPECIFICATION FairSpec
CONSTANTS
  BufSize = 16
  AceCap = 1
  Deviations <- NoDev
  InOrderMem = TRUE
  MaxLen = 2
  Waits <- W00
  Groups <- G2
  SampledGroups = {}
PROPERTIES Completes
CHECK_DEADLOCK FALSE
