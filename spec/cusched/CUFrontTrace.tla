--------------------------- MODULE CUFrontTrace ---------------------------
(***************************************************************************)
(* Trace specification for the front end of the real timing CU (scenario   *)
(* flag "fe" of harness/cmd/c14).  The same log is also validated by       *)
(* CUSchedTrace.tla; here only the front-end events are read:              *)
(*   MapWG    dispatch order of the wavefronts (= pool order)              *)
(*   RefPC    the addresses the emulation executed for a wavefront         *)
(*   Issue    with the facts read from the real objects when the tracing   *)
(*            task started: cycle t, SIMD, unit class, size, SOPP          *)
(*            immediate, `can` (the unit's CanAcceptWave), `ibok` (the     *)
(*            instruction buffer holds the code bytes of PC at PC), start  *)
(*            and length of the instruction buffer, `pool`                 *)
(*            (every other wavefront of the SIMD: ready?, class of its     *)
(*            decoded instruction, older in pool order?)                   *)
(*   Retire   every EndTask of an instruction task (n-th end)              *)
(*   Fetch    an instruction fetch was sent (task "fetch"): cycle, line    *)
(*            address, PC, InstBufferStartPC, buffer length, and for every *)
(*            wavefront whether it was fetching / completed, its buffer    *)
(*            length and its LastFetchTime                                 *)
(*   FetchRsp the fetch task ended                                         *)
(*   WfEnd    the wavefront ended                                          *)
(* Rules (flagged in `bad`, named invariants): see the end of the module.  *)
(***************************************************************************)
EXTENDS Integers, Sequences, FiniteSets, TLC, TraceLib, Json

CONSTANTS Tolerant, LineSize, BufCap, NSimd

TraceLog == ndJsonDeserialize("trace.ndjson")
N == Len(TraceLog)

VARIABLES l,
          on,        \* the current sub-trace carries front-end facts
          last,      \* wavefront -> [pc, size, br, simm] of the instruction issued last (pc = -1: none yet)
          cnt,       \* wavefront -> number of instructions issued
          refpc,     \* wavefront -> addresses the emulation executed
          insts,     \* instruction id -> [w, k, ends]
          fetch,     \* wavefront -> address of the fetch in flight or -1
          slot,      \* what was issued in the current cycle: sequence of [simd, cls]
          slotT,     \* the cycle `slot` belongs to
          bad, rejects
tvars == <<l, on, last, cnt, refpc, insts, fetch, slot, slotT, bad, rejects>>
state == <<on, last, cnt, refpc, insts, fetch, slot, slotT>>

ASSUME HWInit
Ev == TraceLog[l]
Is(e) == l <= N /\ Ev.e = e /\ l' = l + 1
Flag(name) == bad' = bad \cup {name}
Ok == bad' = bad
LineOf(a) == a - (a % LineSize)

TInit == l = 1 /\ on = FALSE /\ last = <<>> /\ cnt = <<>> /\ refpc = <<>> /\ insts = <<>> /\ fetch = <<>>
         /\ slot = <<>> /\ slotT = -1 /\ bad = {} /\ rejects = <<>>

FE == {"MapWG", "RefPC", "Issue", "Retire", "Fetch", "FetchRsp", "WfEnd", "Reset"}

TMapWG ==
  /\ Is("MapWG")
  /\ LET ws == {Ev.wfs[i] : i \in 1..Len(Ev.wfs)} IN
       /\ last' = last @@ [w \in ws |-> [pc |-> -1, size |-> 0, br |-> FALSE, simm |-> 0, id |-> 0, k |-> ""]]
       /\ cnt' = cnt @@ [w \in ws |-> 0]
       /\ fetch' = fetch @@ [w \in ws |-> -1]
  /\ Ok /\ UNCHANGED <<on, refpc, insts, slot, slotT, rejects>>

TRefPC ==
  /\ Is("RefPC") /\ refpc' = refpc @@ (Ev.w :> Ev.pcs) /\ on' = TRUE
  /\ Ok /\ UNCHANGED <<last, cnt, insts, fetch, slot, slotT, rejects>>

IsBranch(e) == e.fmt = 4 /\ e.opc \in {2, 4, 5, 6, 7, 8, 9}   \* format SOPP (insts.SOPP = 4): s_branch, s_cbranch_*
\* the address follows the previous instruction: fall through, or the branch target PC + 4 + simm * 4
FollowsLast(w, pc) ==
  LET p == last[w] IN
  IF p.pc = -1 THEN pc = 0
  ELSE pc = p.pc + p.size \/ (p.br /\ pc = p.pc + 4 + 4 * p.simm)

\* The arbiter walks the SIMDs round robin starting at `rr - 1` (it advanced its pointer before the instructions are
\* issued): the instructions of one cycle appear in that order.
Dist(simd, rr) == (simd - (rr - 1) + 2 * NSimd) % NSimd
TIssue ==
  /\ Is("Issue") /\ Ev.w \in DOMAIN last
  /\ IF ~("t" \in DOMAIN Ev)
     THEN Ok /\ UNCHANGED state       \* a sub-trace without front-end facts
     ELSE LET w == Ev.w
              cur == IF Ev.t = slotT THEN slot ELSE <<>>
              p == last[w]
              \* an older wavefront of the SIMD that was ready with a decoded instruction of the same unit class
              overtaken == \E i \in 1..Len(Ev.pool) : Ev.pool[i][2] = 1 /\ Ev.pool[i][3] = Ev.cls /\ Ev.pool[i][4] = 1
              \* the arbiter takes one instruction per unit class from every SIMD (the decoders queue up to four)
              clash == \E i \in 1..Len(cur) : cur[i].cls = Ev.cls /\ cur[i].simd = Ev.simd
              \* the previous instruction of the wavefront left its unit (memory instructions: their task ends with the
              \* last response, the wavefront continues once the request is on its way)
              busy == p.pc # -1 /\ p.k \notin {"vmem", "smem"} /\ insts[p.id].ends = 0
          IN /\ IF busy THEN Flag("OneInFlight")
                ELSE IF ~FollowsLast(w, Ev.pc) THEN Flag("ProgramOrder")
                ELSE IF w \in DOMAIN refpc /\ (cnt[w] >= Len(refpc[w]) \/ refpc[w][cnt[w] + 1] # Ev.pc) THEN Flag("PCEqualsReference")
                ELSE IF Ev.ibok # 1 THEN Flag("DecodeAtPC")
                \* lines the PC has left are dropped from the buffer: the buffer starts with the line of the PC
                ELSE IF Ev.start # LineOf(Ev.pc) \/ Ev.blen % LineSize # 0 \/ Ev.blen > BufCap THEN Flag("BufferTrimmed")
                ELSE IF clash THEN Flag("OnePerUnitPerSimdPerCycle")
                ELSE IF Ev.can # 1 THEN Flag("UnitAccepts")
                ELSE IF overtaken THEN Flag("OldestFirst")
                ELSE IF Ev.rr >= 0 /\ Len(cur) > 0 /\ (cur[Len(cur)].rr # Ev.rr \/ Dist(cur[Len(cur)].simd, Ev.rr) > Dist(Ev.simd, Ev.rr)) THEN Flag("RoundRobin")
                \* the pointer advances by one SIMD with every arbitration (seen when instructions are issued in adjacent cycles)
                ELSE IF Ev.rr >= 0 /\ Ev.t = slotT + 1 /\ Len(slot) > 0 /\ slot[1].rr >= 0 /\ Ev.rr # (slot[1].rr + 1) % NSimd THEN Flag("RoundRobin")
                ELSE Ok
             /\ last' = [last EXCEPT ![w] = [pc |-> Ev.pc, size |-> Ev.size, br |-> IsBranch(Ev), simm |-> Ev.simm, id |-> Ev.id, k |-> Ev.k]]
             /\ cnt' = [cnt EXCEPT ![w] = @ + 1]
             /\ insts' = insts @@ (Ev.id :> [w |-> w, k |-> Ev.k, ends |-> 0])
             /\ slot' = Append(cur, [simd |-> Ev.simd, cls |-> Ev.cls, rr |-> Ev.rr]) /\ slotT' = Ev.t
             /\ UNCHANGED <<on, refpc, fetch>>
  /\ UNCHANGED rejects

\* every instruction task is ended; only the tasks of s_barrier / s_endpgm are ended more than once by the CU
TRetire ==
  /\ Is("Retire")
  /\ IF Ev.id \notin DOMAIN insts THEN Flag("RetireUnknown") /\ UNCHANGED insts
     ELSE /\ IF insts[Ev.id].ends >= 1 /\ insts[Ev.id].k \notin {"bar", "end"} THEN Flag("RetireOnce") ELSE Ok
          /\ insts' = [insts EXCEPT ![Ev.id].ends = @ + 1]
  /\ UNCHANGED <<on, last, cnt, refpc, fetch, slot, slotT, rejects>>

Fetchable(x) == x[2] = 0 /\ x[3] = 0 /\ x[4] < BufCap
TFetch ==
  /\ Is("Fetch") /\ Ev.w \in DOMAIN fetch
  /\ LET w == Ev.w
         me == CHOOSE i \in 1..Len(Ev.all) : Ev.all[i][1] = w
         older == \E i \in 1..Len(Ev.all) : Fetchable(Ev.all[i]) /\ Ev.all[i][5] < Ev.all[me][5]
     IN /\ IF fetch[w] # -1 THEN Flag("FetchExclusive")
           ELSE IF Ev.a % LineSize # 0 \/ Ev.blen % LineSize # 0 THEN Flag("FetchAligned")
           \* the line after the buffer, while the buffer has room.  (Between the execute and the write stage of a taken
           \* branch the PC is already outside the buffer; that fetch is dropped when it returns: BufferIsCode.)
           ELSE IF Ev.blen >= BufCap \/ Ev.a # Ev.start + Ev.blen \/ Ev.start % LineSize # 0 THEN Flag("FetchNextLine")
           ELSE IF ~Fetchable(Ev.all[me]) \/ older THEN Flag("FetchOldest")
           ELSE Ok
        /\ fetch' = [fetch EXCEPT ![w] = Ev.a]
  /\ UNCHANGED <<on, last, cnt, refpc, insts, slot, slotT, rejects>>

TFetchRsp ==
  /\ Is("FetchRsp") /\ Ev.w \in DOMAIN fetch
  /\ IF fetch[Ev.w] # Ev.a THEN Flag("FetchResponse")
     ELSE IF Ev.bufok # 1 \/ Ev.blen % LineSize # 0 \/ Ev.start % LineSize # 0 THEN Flag("BufferIsCode")
     ELSE Ok
  /\ fetch' = [fetch EXCEPT ![Ev.w] = -1]
  /\ UNCHANGED <<on, last, cnt, refpc, insts, slot, slotT, rejects>>

\* at the end of a wavefront: everything it issued was retired, it executed the whole reference path
TWfEnd ==
  /\ Is("WfEnd")
  /\ IF on /\ (\E i \in DOMAIN insts : insts[i].w = Ev.w /\ insts[i].ends = 0 /\ insts[i].k # "end") THEN Flag("RetireAll")
     ELSE IF on /\ Ev.w \in DOMAIN refpc /\ cnt[Ev.w] # Len(refpc[Ev.w]) THEN Flag("PCEqualsReference")
     ELSE Ok
  /\ UNCHANGED <<state, rejects>>

Fresh == on' = FALSE /\ last' = <<>> /\ cnt' = <<>> /\ refpc' = <<>> /\ insts' = <<>> /\ fetch' = <<>> /\ slot' = <<>> /\ slotT' = -1 /\ bad' = {}
TReset == Is("Reset") /\ Fresh /\ UNCHANGED rejects
TOther == l <= N /\ Ev.e \notin FE /\ l' = l + 1 /\ Ok /\ UNCHANGED <<state, rejects>>

Events == TMapWG \/ TRefPC \/ TIssue \/ TRetire \/ TFetch \/ TFetchRsp \/ TWfEnd \/ TReset \/ TOther

ResetLines == {j \in 1..N : TraceLog[j].e = "Reset"}
NextReset(j) == IF \E k \in ResetLines : k >= j THEN CHOOSE k \in ResetLines : k >= j /\ \A m \in ResetLines : m >= j => k <= m
                ELSE N + 1
TSkip ==
  /\ Tolerant /\ (l <= N \/ bad # {})
  /\ IF bad # {}
     THEN rejects' = Append(rejects, [l |-> l - 1, why |-> bad]) /\ l' = NextReset(l)
     ELSE rejects' = Append(rejects, [l |-> l, why |-> {"no_matching_action"}]) /\ l' = NextReset(l + 1)
  /\ Fresh
TNext == IF bad # {} THEN TSkip ELSE IF Tolerant /\ l <= N /\ ~ENABLED Events THEN TSkip ELSE Events
TSpec == TInit /\ [][TNext]_tvars

OrderInv  == bad \cap {"OneInFlight", "ProgramOrder", "PCEqualsReference", "DecodeAtPC", "BufferTrimmed"} = {}
IssueInv  == bad \cap {"OnePerUnitPerSimdPerCycle", "UnitAccepts", "OldestFirst", "RoundRobin"} = {}
RetireInv == bad \cap {"RetireUnknown", "RetireOnce", "RetireAll"} = {}
FetchInv  == bad \cap {"FetchExclusive", "FetchAligned", "FetchNextLine", "FetchOldest", "FetchResponse", "BufferIsCode"} = {}
Mark == HWNote(l)
Accepted == HWReport(N)
Report == (l = N + 1 /\ bad = {}) => PrintT(<<"REJECTS", rejects>>)
=============================================================================
