----------------------------- MODULE MC_CUFront -----------------------------
EXTENDS CUFront
I(k, u, n, t) == [k |-> k, u |-> u, n |-> n, tgt |-> t]
\* 0: valu   4: 8-byte scalar instruction straddling two lines   12: branch back to 0 (at most once; the buffer no longer
\* holds line 0)   16: conditional branch forward to 24   20: valu   24: s_barrier   28: s_endpgm       (8-byte lines)
Prog == (0 :> I("alu", "V", 4, 0)) @@ (4 :> I("alu", "S", 8, 0)) @@ (12 :> I("br", "B", 4, 0)) @@ (16 :> I("br", "B", 4, 24))
     @@ (20 :> I("alu", "V", 4, 0)) @@ (24 :> I("bar", "I", 4, 0)) @@ (28 :> I("end", "I", 4, 0))
\* a straddling 8-byte instruction: 0: valu, 4: 8-byte scalar (bytes 4..11), 12: branch fwd to 20, 16: valu, 20: barrier, 24: end
Prog2 == (0 :> I("alu", "V", 4, 0)) @@ (4 :> I("alu", "S", 8, 0)) @@ (12 :> I("br", "B", 4, 20)) @@ (16 :> I("alu", "V", 4, 0))
      @@ (20 :> I("bar", "I", 4, 0)) @@ (24 :> I("end", "I", 4, 0))
Simd22 == (1 :> 0) @@ (2 :> 0) @@ (3 :> 1) @@ (4 :> 1)
Simd21 == (1 :> 0) @@ (2 :> 0) @@ (3 :> 1)
Simd20 == (1 :> 0) @@ (2 :> 0)
Simd11 == (1 :> 0) @@ (2 :> 1)
Caps == ("V" :> 1) @@ ("S" :> 1) @@ ("B" :> 1)
Caps2 == ("V" :> 2) @@ ("S" :> 2) @@ ("B" :> 2)
NoDev == {}
D1 == {"IssueWhileInFlight"}
D2 == {"NoFlushOnTakenBranch"}
D3 == {"StaleFetchAppended"}
D4 == {"FetchWhileFetching"}
=============================================================================
