SPECIFICATION FairSpec
CONSTANTS
  Groups = {1, 2, 3}
  OutCap = 1
  MaxTries = 3
  Deviations = {}
  TieRace = FALSE
INVARIANTS TypeOK CompletionOnce WfsExact NoHang
PROPERTIES Completes
CHECK_DEADLOCK FALSE
