--------------------------- MODULE CUSchedTrace ---------------------------
(***************************************************************************)
(* Trace specification: is an event log of a real compute unit (timing     *)
(* cu.ComputeUnit or emu.ComputeUnit) a behaviour of CUSched?              *)
(*                                                                         *)
(* Logged events (one ndjson line each, single goroutine, total order):    *)
(*   MapWG   the CU took a MapWGReq from its dispatch port                 *)
(*   Issue   tracing task of kind "inst" started (emulation: instruction   *)
(*           hook) - wavefront, instruction kind, wait counts              *)
(*   InstEnd the task ended (first end only)                               *)
(*   MemReq  the CU sent a memory request (port hook), with the            *)
(*           instruction it belongs to and whether it is its last one      *)
(*   MemRsp  the CU took the response from the port                        *)
(*   WfEnd   tracing task of kind "wavefront" ended                        *)
(*   WGDone  WGCompletionMsg sent on the dispatch port                     *)
(*   AceTake the dispatcher side took a completion message                 *)
(*   Quiesce the engine has no event left and the environment owes nothing *)
(*   Ref     the instruction path emulation took for a wavefront           *)
(*   Final   digests of the memory the kernels wrote (timing vs emulation)  *)
(*   Panic   the real code panicked (no action accepts it)                 *)
(*                                                                         *)
(* Steps of the CU that leave no event (MemExec after a memory instruction *)
(* was issued, the evaluation of a barrier) are taken eagerly and          *)
(* deterministically before the next event is consumed; the release of a   *)
(* barrier is therefore decided by the specification alone, and an Issue   *)
(* for a wavefront the specification still holds at the barrier is a       *)
(* violation of BarrierOrder whatever the implementation believed.         *)
(* Property violations are recorded in `bad` and reported by a named       *)
(* invariant; anything else the specification cannot explain stops the     *)
(* trace (no matching action).                                             *)
(***************************************************************************)
EXTENDS CUSched, TraceLib, Json

CONSTANT Tolerant

TraceLog == ndJsonDeserialize("trace.ndjson")
N == Len(TraceLog)

VARIABLES l,        \* position in TraceLog
          curId,    \* wavefront -> id of the instruction last issued
          ref,      \* wavefront -> instruction path of the reference (emulation), if known
          reqs,     \* instruction ids a memory request was seen for
          pendEnd,  \* wavefronts whose end was implied by WGDone; the WfEnd line is still to come
          pendDone, \* groups whose completion was implied by the last WfEnd; the WGDone line is still to come
          rejects   \* tolerant mode: [l, why] for every sub-trace that was given up
tvars == <<vars, l, curId, ref, reqs, pendEnd, pendDone, rejects>>
aux == <<curId, ref, reqs, pendEnd, pendDone>>

ASSUME HWInit

Ev == TraceLog[l]
Is(e) == l <= N /\ Ev.e = e /\ l' = l + 1

TInit == Init /\ l = 1 /\ curId = <<>> /\ ref = <<>> /\ reqs = {} /\ pendEnd = {} /\ pendDone = {} /\ rejects = <<>>

SeqToSet(s) == {s[i] : i \in 1..Len(s)}
KindStr(k, v, s) == IF k = "wait" THEN "wait:" \o ToString(v) \o ":" \o ToString(s) ELSE k
IdxOf(q, id) == CHOOSE j \in 1..Len(q) : q[j].id = id
HasId(q, id) == \E j \in 1..Len(q) : q[j].id = id
Flag(name) == bad' = bad \cup {name}
Frozen == UNCHANGED <<wgOf, st, cur, n, outV, outS, internal, bbuf, vq, sq, sent, aceOut, reached, passed>>

\* ----------------------------------------------------- unlogged CU steps
EagerMem(w) == st[w] = "Running" /\ cur[w].k \in {"vmem", "smem"}
EagerBar(w) == w \in internal /\ cur[w].k = "bar" /\ st[w] = "Running"
EagerSet == {w \in Wfs : EagerMem(w) \/ EagerBar(w)}
Eager ==
  /\ EagerSet # {}
  /\ LET w == CHOOSE x \in EagerSet : \A y \in EagerSet : x <= y
     IN IF EagerMem(w) THEN MemExec(w, curId[w]) ELSE EvalBarrier(w)
  /\ UNCHANGED <<l, aux, rejects>>

\* ---------------------------------------------------------------- events
TMapWG ==
  /\ Is("MapWG")
  /\ LET ws == SeqToSet(Ev.wfs) IN
       /\ IF Has(Ev, "sampled") /\ Ev.sampled = 1 THEN MapWGSampled(Ev.g, ws) ELSE MapWG(Ev.g, ws)
       /\ curId' = curId @@ [w \in ws |-> 0]
  /\ UNCHANGED <<ref, reqs, pendEnd, pendDone>>

TRef ==
  /\ Is("Ref") /\ Ev.w \notin DOMAIN ref
  /\ ref' = ref @@ (Ev.w :> Ev.path)
  /\ UNCHANGED <<vars, curId, reqs, pendEnd, pendDone>>

FollowsRef(w, i) ==
  w \in DOMAIN ref => /\ n[w] < Len(ref[w])
                      /\ ref[w][n[w] + 1] = KindStr(i.k, i.v, i.s)

TIssue ==
  /\ Is("Issue") /\ Ev.w \in Wfs
  /\ LET w == Ev.w
         i == Inst(Ev.k, Ev.v, Ev.s)
     IN IF st[w] = "AtBarrier"
        THEN \* an instruction after the barrier while a sibling has neither reached it nor finished
             /\ Flag("BarrierOrder")
             /\ UNCHANGED <<wgOf, st, cur, n, outV, outS, internal, bbuf, vq, sq, sent, aceOut, reached, passed, curId>>
        ELSE IF st[w] \in {"Running", "Done"}
        THEN \* a second instruction while the previous one still occupies its unit / is being evaluated, or after s_endpgm
             /\ Flag("IssueInOrder")
             /\ UNCHANGED <<wgOf, st, cur, n, outV, outS, internal, bbuf, vq, sq, sent, aceOut, reached, passed, curId>>
        ELSE IF ~FollowsRef(w, i)
        THEN \* not the instruction the reference executed at this point of the wavefront's path
             /\ Flag("PathEqualsReference")
             /\ UNCHANGED <<wgOf, st, cur, n, outV, outS, internal, bbuf, vq, sq, sent, aceOut, reached, passed, curId>>
        ELSE /\ Issue(w, i)
             /\ curId' = [curId EXCEPT ![w] = Ev.id]
  /\ UNCHANGED <<ref, reqs, pendEnd, pendDone>>

TInstEnd ==
  /\ Is("InstEnd") /\ Ev.w \in Wfs
  /\ LET w == Ev.w IN
     CASE Ev.k = "alu" ->
            /\ curId[w] = Ev.id /\ UnitDone(w)
       [] Ev.k = "wait" ->
            /\ curId[w] = Ev.id /\ w \in internal /\ cur[w].k = "wait"
            /\ IF outV[w] > cur[w].v \/ outS[w] > cur[w].s
               THEN /\ Flag("WaitcntSound")
                    /\ UNCHANGED <<wgOf, st, cur, n, outV, outS, internal, bbuf, vq, sq, sent, aceOut, reached, passed>>
               ELSE IF Ev.ov # outV[w] \/ Ev.os # outS[w]
               THEN /\ Flag("CountersExact")
                    /\ UNCHANGED <<wgOf, st, cur, n, outV, outS, internal, bbuf, vq, sq, sent, aceOut, reached, passed>>
               ELSE EvalWaitcnt(w)
       [] Ev.k = "vmem" ->
            \* the task of a memory instruction ends with its last response (or at once if it made no request)
            IF HasId(vq, Ev.id)
            THEN IF Ev.id \notin reqs THEN MemReturnV(IdxOf(vq, Ev.id))
                 ELSE Flag("MemInstEndsAfterLastResponse") /\ Frozen
            ELSE UNCHANGED vars
       [] Ev.k = "smem" ->
            IF HasId(sq, Ev.id)
            THEN IF Ev.id \notin reqs THEN MemReturnS(IdxOf(sq, Ev.id))
                 ELSE Flag("MemInstEndsAfterLastResponse") /\ Frozen
            ELSE UNCHANGED vars
       [] OTHER -> FALSE
  /\ UNCHANGED <<curId, ref, reqs, pendEnd, pendDone>>

TMemReq ==
  /\ Is("MemReq")
  /\ IF Ev.q = "v" THEN HasId(vq, Ev.id) ELSE HasId(sq, Ev.id)
  /\ reqs' = reqs \cup {Ev.id}
  /\ UNCHANGED <<vars, curId, ref, pendEnd, pendDone>>

\* a response for an instruction that already had its last response: the instruction would finish twice
TMemRsp ==
  /\ Is("MemRsp")
  /\ IF Ev.q = "v"
     THEN IF ~HasId(vq, Ev.id) THEN Flag("MemInstCompletesOnce") /\ Frozen
          ELSE IF Ev.last = 1 THEN MemReturnV(IdxOf(vq, Ev.id)) ELSE UNCHANGED vars
     ELSE IF ~HasId(sq, Ev.id) THEN Flag("MemInstCompletesOnce") /\ Frozen
          ELSE IF Ev.last = 1 THEN MemReturnS(IdxOf(sq, Ev.id)) ELSE UNCHANGED vars
  /\ UNCHANGED <<curId, ref, reqs, pendEnd, pendDone>>

Ending(w) == w \in internal /\ cur[w].k = "end"
g_owed(w) == wgOf[w] \in pendDone   \* a repeated completion event is only legitimate while the message is owed
IsLast(w) == \A x \in Others(w) : st[x] = "Done"

TWfEnd ==
  /\ Is("WfEnd") /\ Ev.w \in Wfs
  /\ LET w == Ev.w IN
     IF w \in pendEnd
     THEN /\ pendEnd' = pendEnd \ {w} /\ UNCHANGED <<vars, pendDone>>
     ELSE /\ Ending(w)
          /\ (w \in DOMAIN ref => n[w] = Len(ref[w]))
          /\ IF TruthS(w) > 0
             THEN Flag("EndAfterMemory") /\ Frozen /\ UNCHANGED <<pendEnd, pendDone>>
             ELSE IF Ev.ov # outV[w] \/ Ev.os # outS[w]
             THEN Flag("CountersExact") /\ Frozen /\ UNCHANGED <<pendEnd, pendDone>>
             ELSE /\ EvalEndpgm(w)
                  /\ pendDone' = IF IsLast(w) THEN pendDone \cup {wgOf[w]} ELSE pendDone
                  /\ UNCHANGED pendEnd
  /\ UNCHANGED <<curId, ref, reqs>>

TWGDone ==
  /\ Is("WGDone")
  /\ LET g == Ev.g IN
     IF g \in pendDone
     THEN /\ pendDone' = pendDone \ {g} /\ UNCHANGED <<vars, pendEnd>>
     ELSE IF g \notin DOMAIN sent
     THEN Flag("CompletionUnknownGroup") /\ Frozen /\ UNCHANGED <<pendEnd, pendDone>>
     ELSE IF sent[g] >= 1
     THEN Flag("CompletionOnce") /\ Frozen /\ UNCHANGED <<pendEnd, pendDone>>
     ELSE LET live == {w \in WfsOf(g) : st[w] # "Done"} IN
          IF Cardinality(live) = 1 /\ (\A w \in live : (Ending(w) /\ TruthS(w) = 0) \/ st[w] = "Sampled")
          THEN /\ \E w \in live : (IF st[w] = "Sampled" THEN SampledEnd(w) ELSE EvalEndpgm(w)) /\ pendEnd' = pendEnd \cup {w}
               /\ UNCHANGED pendDone
          ELSE Flag("CompletionAfterLast") /\ Frozen /\ UNCHANGED <<pendEnd, pendDone>>
  /\ UNCHANGED <<curId, ref, reqs>>

\* The completion message as the port accepted it (both CU models): the groups its RspTo list names.  A group named twice in
\* one message is a group reported twice (the emulation CU collects finished groups in a list and sends the list when
\* nothing is running; a send that fails is retried every cycle and must not change the list).  The WGDone events that
\* follow (one per entry) update the state.
TWGMsg ==
  /\ Is("WGMsg")
  /\ IF \E i, j \in 1..Len(Ev.ids) : i < j /\ Ev.ids[i] = Ev.ids[j] THEN Flag("CompletionOnce") /\ Frozen
     ELSE IF \E i \in 1..Len(Ev.ids) : Ev.ids[i] \notin DOMAIN sent THEN Flag("CompletionUnknownGroup") /\ Frozen
     ELSE UNCHANGED vars
  /\ UNCHANGED aux

\* WfCompletionEvent handled (CU event hook).  The handler runs again for the last wavefront while the
\* completion message does not fit in the port: only the first handling ends the wavefront.
TSampledEnd ==
  /\ Is("SampledEnd") /\ Ev.w \in Wfs
  /\ LET w == Ev.w IN
     IF w \in pendEnd
     THEN pendEnd' = pendEnd \ {w} /\ UNCHANGED <<vars, pendDone>>
     ELSE IF st[w] = "Done"
     THEN g_owed(w) /\ UNCHANGED <<vars, pendDone, pendEnd>>
     ELSE /\ SampledEnd(w)
          /\ pendDone' = IF IsLast(w) THEN pendDone \cup {wgOf[w]} ELSE pendDone
          /\ UNCHANGED pendEnd
  /\ UNCHANGED <<curId, ref, reqs>>

TAceTake == Is("AceTake") /\ EnvTakeACE /\ UNCHANGED aux

AllEnded == \A w \in Wfs : st[w] = "Done"
TQuiesce ==
  /\ Is("Quiesce")
  /\ IF AllEnded /\ AllReported /\ vq = <<>> /\ sq = <<>> /\ pendEnd = {} /\ pendDone = {}
     THEN UNCHANGED vars
     ELSE Flag("NoHang") /\ Frozen
  /\ UNCHANGED aux

\* values the kernels stored: timing equals the reference (when the reference ran)
TFinal ==
  /\ Is("Final")
  /\ IF Ev.ref = 0 \/ (Ev.tc = Ev.ec /\ Ev.to = Ev.eo)
     THEN UNCHANGED vars
     ELSE Flag("ValuesEqualReference") /\ Frozen
  /\ UNCHANGED aux

Fresh ==
  /\ wgOf' = <<>> /\ st' = <<>> /\ cur' = <<>> /\ n' = <<>> /\ outV' = <<>> /\ outS' = <<>>
  /\ internal' = {} /\ bbuf' = {} /\ vq' = <<>> /\ sq' = <<>> /\ sent' = <<>> /\ aceOut' = 0
  /\ reached' = <<>> /\ passed' = <<>> /\ bad' = {}
  /\ curId' = <<>> /\ ref' = <<>> /\ reqs' = {} /\ pendEnd' = {} /\ pendDone' = {}

TReset == Is("Reset") /\ Fresh

\* front-end facts (scenarios with "fe"): read by CUFrontTrace.tla, nothing for this specification
TFrontEnd == l <= N /\ Ev.e \in {"Fetch", "FetchRsp", "Retire", "RefPC"} /\ l' = l + 1 /\ UNCHANGED vars /\ UNCHANGED aux

Events == (TFrontEnd \/ TWGMsg \/ TMapWG \/ TRef \/ TIssue \/ TInstEnd \/ TMemReq \/ TMemRsp \/ TWfEnd \/ TWGDone
           \/ TAceTake \/ TSampledEnd \/ TQuiesce \/ TFinal \/ TReset) /\ UNCHANGED rejects

\* Tolerant mode (one TLC run reports every sub-trace the specification refuses): a sub-trace in which a
\* rule was flagged, or whose next line no action explains, is given up and validation resumes at the next Reset.
ResetLines == {j \in 1..N : TraceLog[j].e = "Reset"}
NextReset(j) == IF \E k \in ResetLines : k >= j THEN CHOOSE k \in ResetLines : k >= j /\ \A m \in ResetLines : m >= j => k <= m
                ELSE N + 1
TSkip ==
  /\ Tolerant /\ (l <= N \/ bad # {})
  /\ IF bad # {}
     THEN rejects' = Append(rejects, [l |-> l - 1, why |-> bad]) /\ l' = NextReset(l)
     ELSE rejects' = Append(rejects, [l |-> l, why |-> {"no_matching_action"}]) /\ l' = NextReset(l + 1)
  /\ Fresh

TNext == IF bad # {} THEN TSkip
         ELSE IF EagerSet # {} THEN Eager
         ELSE IF Tolerant /\ l <= N /\ ~ENABLED Events THEN TSkip
         ELSE Events

TSpec == TInit /\ [][TNext]_tvars

\* named verdicts
BarrierOrderInv        == "BarrierOrder" \notin bad
WaitcntSoundInv        == "WaitcntSound" \notin bad
EndAfterMemoryInv      == "EndAfterMemory" \notin bad
CountersExactInv       == "CountersExact" \notin bad
CompletionOnceInv      == "CompletionOnce" \notin bad /\ "CompletionUnknownGroup" \notin bad
CompletionAfterLastInv == "CompletionAfterLast" \notin bad
NoHangInv              == "NoHang" \notin bad
ValuesInv              == "ValuesEqualReference" \notin bad
PathInv                == "PathEqualsReference" \notin bad
IssueInOrderInv        == "IssueInOrder" \notin bad
MemInstEndInv          == "MemInstEndsAfterLastResponse" \notin bad /\ "MemInstCompletesOnce" \notin bad
NoGroups == <<>>

Mark == HWNote(l)                 \* CONSTRAINT: records progress
Accepted == HWReport(N)           \* POSTCONDITION
\* tolerant mode: the rejects are printed by an invariant when the end of the log is reached
Report == (l = N + 1 /\ bad = {}) => PrintT(<<"REJECTS", rejects>>)
=============================================================================
