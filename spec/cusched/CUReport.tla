------------------------------ MODULE CUReport ------------------------------
(***************************************************************************)
(* How the EMULATION compute unit reports finished work-groups             *)
(* (amd/emu/computeunit.go), at the grain of the code, with the port and    *)
(* the dispatcher explicit.                                                 *)
(*                                                                         *)
(*   processMapWGReq      Map(g):  the group enters cu.wfs                  *)
(*   runEmulation/runWG   Run(g):  the group is executed, a WGCompleteEvent *)
(*                                 is scheduled for the next cycle          *)
(*   handleWGCompleteEvent Handle(g): delete(cu.wfs, g); the request id is  *)
(*        appended to finishedMapWGReqs UNLESS IT IS ALREADY THERE; if other*)
(*        groups are still in cu.wfs nothing is sent (they will send the    *)
(*        list); otherwise Report(ids): one WGCompletionMsg with the whole  *)
(*        list is sent and the list is cleared - or, when the one-entry     *)
(*        outgoing buffer of ToDispatcher is full, the SAME event is        *)
(*        scheduled again for the next cycle (retry).                       *)
(*   Take                 the dispatcher side retrieves a message           *)
(*                                                                         *)
(* Deviation "RetryAppends": the id is appended on every handling of the    *)
(* event, so every failed send adds another copy.                           *)
(***************************************************************************)
EXTENDS Integers, Sequences, FiniteSets, TLC

CONSTANTS Groups,        \* work-group (request) ids
          OutCap,        \* capacity of ToDispatcher's outgoing buffer (the code: 1)
          Deviations,
          TieRace        \* see Run

VARIABLES phase,         \* g -> "idle" (not mapped) / "mapped" (in queueingWGs) / "evt" (WGCompleteEvent pending) /
                         \*      "retry" (the send failed, the event is scheduled again for the next cycle) / "done"
          inWfs,         \* keys of cu.wfs
          finished,      \* cu.finishedMapWGReqs
          out,           \* messages in ToDispatcher's outgoing buffer (each a sequence of ids)
          got,           \* g -> how often the dispatcher was told that g finished
          tries          \* history: failed sends so far (bounds the model)
vars == <<phase, inWfs, finished, out, got, tries>>

CONSTANT MaxTries

Range(s) == {s[i] : i \in 1..Len(s)}
Count(s, g) == Cardinality({i \in 1..Len(s) : s[i] = g})

Init == /\ phase = [g \in Groups |-> "idle"] /\ inWfs = {} /\ finished = <<>> /\ out = <<>>
        /\ got = [g \in Groups |-> 0] /\ tries = 0

Map(g) == /\ phase[g] = "idle"
          /\ phase' = [phase EXCEPT ![g] = "mapped"] /\ inWfs' = inWfs \cup {g}
          /\ UNCHANGED <<finished, out, got, tries>>

\* Environment fact (TieRace = FALSE): a retry is handled again one cycle after the failed send, while a group that is
\* mapped after the failed send is emulated at the next whole second of virtual time (processMapWGReq: Ceil(now)) and its
\* completion event comes one cycle after that - so the pending retry is always handled first (and, finding the new group
\* in cu.wfs, leaves the sending to it).  TieRace = TRUE drops the fact: it stands for a MapWGReq that arrives exactly on a
\* whole second together with an engine that runs the later-scheduled of two events of one cycle first.
Run(g) == /\ phase[g] = "mapped"
          /\ TieRace \/ \A h \in Groups : phase[h] # "retry"
          /\ phase' = [phase EXCEPT ![g] = "evt"]
          /\ UNCHANGED <<inWfs, finished, out, got, tries>>

\* the message-level step: the whole list goes out in one message, exactly when the port has room
Report(ids) == /\ Len(out) < OutCap /\ out' = Append(out, ids) /\ finished' = <<>>

Handle(g) ==
  /\ phase[g] \in {"evt", "retry"}
  /\ inWfs' = inWfs \ {g}
  /\ LET fin == IF g \in Range(finished) /\ "RetryAppends" \notin Deviations THEN finished ELSE Append(finished, g) IN
     IF inWfs \ {g} # {}
     THEN /\ finished' = fin /\ phase' = [phase EXCEPT ![g] = "done"] /\ UNCHANGED <<out, tries>>
     ELSE IF Len(out) < OutCap
     THEN /\ Report(fin)
          /\ phase' = [phase EXCEPT ![g] = "done"] /\ UNCHANGED tries
     ELSE \* Send fails: the same event again next cycle
          /\ tries < MaxTries
          /\ finished' = fin /\ tries' = tries + 1 /\ phase' = [phase EXCEPT ![g] = "retry"] /\ UNCHANGED out
  /\ UNCHANGED got

Take == /\ out # <<>>
        /\ got' = [g \in Groups |-> got[g] + Count(Head(out), g)]
        /\ out' = Tail(out)
        /\ UNCHANGED <<phase, inWfs, finished, tries>>

Next == (\E g \in Groups : Map(g) \/ Run(g) \/ Handle(g)) \/ Take
Spec == Init /\ [][Next]_vars
FairSpec == Spec /\ WF_vars(Take) /\ \A g \in Groups : WF_vars(Map(g)) /\ WF_vars(Run(g)) /\ WF_vars(Handle(g))

\* ------------------------------------------------------------------ properties
InOut(g) == LET F[i \in 0..Len(out)] == IF i = 0 THEN 0 ELSE F[i - 1] + Count(out[i], g) IN F[Len(out)]
Named(g) == got[g] + Count(finished, g) + InOut(g)
TypeOK == /\ phase \in [Groups -> {"idle", "mapped", "evt", "retry", "done"}] /\ inWfs \subseteq Groups
          /\ Range(finished) \subseteq Groups /\ Len(out) <= OutCap /\ got \in [Groups -> Nat]
\* a group's completion is reported exactly once: never named twice (in the list, in messages on the way, at the dispatcher),
\* and only once its completion event has been handled
CompletionOnce == \A g \in Groups : Named(g) <= 1 /\ (Named(g) = 1 => phase[g] \in {"retry", "done"})
\* cu.wfs holds exactly the groups that are mapped and whose completion event has not been handled yet
WfsExact == \A g \in Groups : (g \in inWfs) <=> phase[g] \in {"mapped", "evt"}
\* nothing can move any more => every group has been reported
Quiet == ~ENABLED Next
NoHang == (Quiet /\ tries < MaxTries) => \A g \in Groups : phase[g] = "done" /\ got[g] = 1
\* idempotent retry: a repeated handling whose send fails again changes nothing (Send fails => state unchanged)
IdempotentRetry == [][\A g \in Groups : (phase[g] = "retry" /\ phase'[g] = "retry" /\ tries' = tries + 1)
                                          => <<inWfs, finished, out, got>>' = <<inWfs, finished, out, got>>]_vars
\* under fairness every group is reported
Completes == <>(\A g \in Groups : got[g] = 1)
=============================================================================
