SPECIFICATION Spec
CONSTANTS
  BufSize = 16
  AceCap = 4
  Deviations <- NoDev
  InOrderMem = FALSE
  MaxLen = 3
  Waits <- W012
  Groups <- G2
  SampledGroups = {}
INVARIANTS TypeOK BarrierOrder CountersExact Rules EndAfterMemory CompletionOnce BarrierBuffered NoHang
CHECK_DEADLOCK FALSE
