SPECIFICATION SSpec
CONSTANTS
  BufSize = 16
  AceCap = 4
  Deviations <- NoDev
  InOrderMem = TRUE
  MaxLen = 6
  Waits <- W012
  Groups <- G4
  SampledGroups = {}
  Bars <- Bal2
INVARIANTS TypeOK BarrierOrder CountersExact Rules EndAfterMemory CompletionOnce
CHECK_DEADLOCK FALSE
