SPECIFICATION TSpec
CONSTANTS
  Tolerant = TRUE
  LineSize = 64
  BufCap = 256
  NSimd = 4
INVARIANTS Report
CONSTRAINT Mark
POSTCONDITION Accepted
CHECK_DEADLOCK FALSE
