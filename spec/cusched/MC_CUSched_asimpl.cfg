SPECIFICATION Spec
CONSTANTS
  BufSize = 16
  AceCap = 4
  Deviations <- AsImpl
  InOrderMem = TRUE
  MaxLen = 2
  Waits <- W00
  Groups <- G2
  SampledGroups = {}
INVARIANTS TypeOK BarrierOrder CountersExact Rules EndAfterMemory CompletionOnce NoHang
CHECK_DEADLOCK FALSE
