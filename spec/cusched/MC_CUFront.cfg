SPECIFICATION Spec
CONSTANTS
  NSimd = 2
  SimdOf <- Simd20
  Code <- Prog
  LineSize = 8
  BufCap = 16
  MaxBack = 1
  UnitCap <- Caps
  Deviations <- NoDev
INVARIANTS TypeOK NoFlag OneInFlight BufferConsistent DecodeAtPC ProgramOrder FetchExclusive FetchAligned UnitsBounded
CHECK_DEADLOCK FALSE
