SPECIFICATION Spec
CONSTANTS
  BufSize = 1
  AceCap = 4
  Deviations <- AsImpl2
  InOrderMem = TRUE
  MaxLen = 2
  Waits <- W00
  Groups <- G3
  SampledGroups = {}
INVARIANTS TypeOK BarrierOrder CountersExact Rules EndAfterMemory CompletionOnce BarrierBuffered NoHang
CHECK_DEADLOCK FALSE
