------------------------------- MODULE CUFront -------------------------------
(***************************************************************************)
(* Front end and wavefront state machine of the timing compute unit        *)
(* (amd/timing/cu/scheduler.go Run: EvaluateInternalInst, DecodeNextInst,  *)
(* DoIssue, DoFetch; fetcharbiter.go; issuearbiter.go; branchunit.go;      *)
(* computeunit.go handleFetchReturn, UpdatePCAndSetReady,                  *)
(* removeStaleInstBuffer).                                                 *)
(*                                                                         *)
(* One CU cycle is one deterministic action Tick made of the scheduler's   *)
(* phases in the code's order (internal instructions, decode, issue,       *)
(* fetch); the environment is nondeterministic: an execution unit finishes *)
(* an instruction (UnitDone: PC advance, branch redirect + flush of the    *)
(* instruction buffer), instruction memory answers a fetch (FetchReturn).  *)
(* The program is a constant Code: byte address -> [k, u, n, tgt] (kind,   *)
(* execution-unit class, size in bytes, branch target); whether a          *)
(* conditional branch is taken is free (backward branches at most MaxBack  *)
(* times per wavefront).  The instruction buffer is modelled by the line   *)
(* addresses it really holds, so "the decoded instruction is the one at    *)
(* PC" is a checkable statement.                                           *)
(***************************************************************************)
EXTENDS Integers, Sequences, FiniteSets, TLC

CONSTANTS NSimd, SimdOf,   \* wavefront -> SIMD; wavefronts are numbered in pool (dispatch) order
          Code, LineSize, BufCap, MaxBack,
          UnitCap,         \* execution-unit class -> instructions its decode stage accepts
          Deviations
Dev(d) == d \in Deviations
Wfs == DOMAIN SimdOf
LineOf(a) == a - (a % LineSize)
None == -1

VARIABLES st,      \* "Ready" | "Running" | "AtBarrier" | "Done"
          pc,      \* program counter (address of the next / the executing instruction)
          bstart,  \* InstBufferStartPC
          blines,  \* line addresses whose bytes InstBuffer holds, in order
          fetching, faddr,   \* IsFetching, address of the fetch in flight
          fetchOrder,        \* the wavefronts by LastFetchTime, oldest first (what the fetch arbiter compares)
          dec,     \* InstToIssue: the address the decoded bytes really came from, or None
          cur,     \* address of the instruction in flight, or None
          inUnit,  \* unit class -> wavefronts in that unit
          rr,      \* IssueArbiter.lastSIMDID
          back,    \* backward branches taken so far
          \* history
          path,    \* addresses issued, in order
          nIssued, nRetired, bad
vars == <<st, pc, bstart, blines, fetching, faddr, fetchOrder, dec, cur, inUnit, rr, back, path, nIssued, nRetired, bad>>

Classes == DOMAIN UnitCap
IsInternal(i) == i.k \in {"bar", "end"}
BufBytes(w) == Len(blines[w]) * LineSize
\* the address the byte at PC + off is read from, given what the buffer really holds
ReadAt(w, a) == LET o == a - bstart[w] IN blines[w][(o \div LineSize) + 1] + (o % LineSize)
Holds(w, a) == a >= bstart[w] /\ a < bstart[w] + BufBytes(w)

Init ==
  /\ st = [w \in Wfs |-> "Ready"] /\ pc = [w \in Wfs |-> 0]
  /\ bstart = [w \in Wfs |-> 0] /\ blines = [w \in Wfs |-> <<>>]
  /\ fetching = [w \in Wfs |-> FALSE] /\ faddr = [w \in Wfs |-> None]
  /\ fetchOrder = [i \in 1..Cardinality(Wfs) |-> i]
  /\ dec = [w \in Wfs |-> None] /\ cur = [w \in Wfs |-> None]
  /\ inUnit = [c \in Classes |-> {}] /\ rr = 0 /\ back = [w \in Wfs |-> 0]
  /\ path = [w \in Wfs |-> <<>>] /\ nIssued = [w \in Wfs |-> 0] /\ nRetired = [w \in Wfs |-> 0] /\ bad = {}

\* ------------------------------------------------------------ environment
\* removeStaleInstBuffer: whole lines in front of the PC are dropped
Trim(w, newpc, start, lines) ==
  LET k == IF lines = <<>> THEN 0 ELSE
             CHOOSE j \in 0..Len(lines) : (j = Len(lines) \/ newpc < start + (j + 1) * LineSize) /\ (j = 0 \/ newpc >= start + j * LineSize)
  IN [start |-> start + k * LineSize, lines |-> SubSeq(lines, k + 1, Len(lines))]

\* an execution unit finishes the wavefront's instruction (write stage): UpdatePCAndSetReady; a branch redirects
\* the PC and drops the instruction buffer (BranchUnit.runWriteStage does so whether or not the branch is taken)
UnitDone(w, taken) ==
  /\ st[w] = "Running" /\ cur[w] # None /\ ~IsInternal(Code[cur[w]])
  /\ LET i == Code[cur[w]]
         isBr == i.k = "br"
         goes == isBr /\ taken
         newpc == IF goes THEN i.tgt ELSE cur[w] + i.n
         backward == goes /\ i.tgt <= cur[w]
         flush == isBr /\ ~(Dev("NoFlushOnTakenBranch") /\ goes)
         t == Trim(w, newpc, bstart[w], blines[w])
     IN /\ (taken => isBr) /\ (backward => back[w] < MaxBack)
        /\ back' = IF backward THEN [back EXCEPT ![w] = @ + 1] ELSE back
        /\ pc' = [pc EXCEPT ![w] = newpc]
        /\ LET crash == ~flush /\ newpc < bstart[w]   \* the code would index the buffer with PC - InstBufferStartPC < 0
           IN /\ bad' = IF crash THEN bad \cup {"Crash"} ELSE bad
              /\ blines' = [blines EXCEPT ![w] = IF flush THEN <<>> ELSE IF crash THEN @ ELSE t.lines]
              /\ bstart' = [bstart EXCEPT ![w] = IF flush THEN LineOf(newpc) ELSE IF crash THEN @ ELSE t.start]
        /\ inUnit' = [inUnit EXCEPT ![i.u] = @ \ {w}]
  /\ st' = [st EXCEPT ![w] = "Ready"] /\ cur' = [cur EXCEPT ![w] = None]
  /\ nRetired' = [nRetired EXCEPT ![w] = @ + 1]
  /\ UNCHANGED <<fetching, faddr, fetchOrder, dec, rr, path, nIssued>>

\* handleFetchReturn: the line is appended only if it is the one the buffer is waiting for
FetchReturn(w) ==
  /\ fetching[w]
  /\ blines' = [blines EXCEPT ![w] = IF Dev("StaleFetchAppended") \/ faddr[w] = bstart[w] + BufBytes(w)
                                      THEN Append(@, faddr[w]) ELSE @]
  /\ fetching' = [fetching EXCEPT ![w] = FALSE] /\ faddr' = [faddr EXCEPT ![w] = None]
  /\ fetchOrder' = Append(SelectSeq(fetchOrder, LAMBDA x : x # w), w)
  /\ UNCHANGED <<st, pc, bstart, dec, cur, inUnit, rr, back, path, nIssued, nRetired, bad>>

\* ------------------------------------------------------- one scheduler cycle
\* phase 1, EvaluateInternalInst: s_barrier waits for every unfinished wavefront, s_endpgm ends the wavefront
AtBar(s, w) == s[w] = "AtBarrier" \/ (s[w] = "Running" /\ cur[w] # None /\ Code[cur[w]].k = "bar")
P1 ==
  LET allAt == \A x \in Wfs : st[x] = "Done" \/ AtBar(st, x)
      some == \E x \in Wfs : AtBar(st, x)
      fin(w) == st[w] = "Running" /\ cur[w] # None /\ Code[cur[w]].k = "end"
      rel(w) == AtBar(st, w) /\ allAt
  IN [s |-> [w \in Wfs |-> IF fin(w) THEN "Done" ELSE IF rel(w) THEN "Ready" ELSE IF AtBar(st, w) THEN "AtBarrier" ELSE st[w]],
      p |-> [w \in Wfs |-> IF rel(w) THEN cur[w] + Code[cur[w]].n ELSE pc[w]],
      c |-> [w \in Wfs |-> IF fin(w) \/ rel(w) THEN None ELSE cur[w]],
      r |-> [w \in Wfs |-> IF fin(w) \/ rel(w) THEN nRetired[w] + 1 ELSE nRetired[w]]]

\* phase 2, DecodeNextInst: a ready wavefront without a decoded instruction decodes the bytes its buffer holds at PC
ReadSize(w, a) == Code[ReadAt(w, a)].n
CanDecode(s, p, w) ==
  /\ (s[w] = "Ready" \/ (Dev("IssueWhileInFlight") /\ s[w] = "Running")) /\ dec[w] = None /\ Holds(w, p[w])
  /\ Holds(w, ReadSize(w, p[w]) + p[w] - 1)
P2(s, p) == [w \in Wfs |-> IF CanDecode(s, p, w) THEN ReadAt(w, p[w]) ELSE dec[w]]

\* phase 3, DoIssue: per SIMD (starting with lastSIMDID) and per unit class the first ready wavefront in pool order
\* with a decoded instruction; it is issued if the unit's decode stage accepts it
Issuable(s, d, w) == d[w] # None /\ (s[w] = "Ready" \/ (Dev("IssueWhileInFlight") /\ s[w] = "Running"))
ClassOf(d, w) == IF IsInternal(Code[d[w]]) THEN "I" ELSE Code[d[w]].u
Selected(s, d) ==
  {w \in Wfs : Issuable(s, d, w) /\ ~\E x \in Wfs : x < w /\ SimdOf[x] = SimdOf[w] /\ Issuable(s, d, x) /\ ClassOf(d, x) = ClassOf(d, w)}
Rank(w) == ((SimdOf[w] - rr + NSimd) % NSimd) * 1000 + w
\* of the selected ones those that fit: earlier ones (arbiter order) of the same class take the room first
Fits(s, d, w) ==
  ClassOf(d, w) = "I" \/
  Cardinality(inUnit[ClassOf(d, w)]) + Cardinality({x \in Selected(s, d) : ClassOf(d, x) = ClassOf(d, w) /\ Rank(x) < Rank(w)}) < UnitCap[ClassOf(d, w)]
Issued(s, d) == {w \in Selected(s, d) : Fits(s, d, w)}

\* phase 4, DoFetch: the wavefront that fetched longest ago among those that may fetch
MayFetch(s, w) == (~fetching[w] \/ Dev("FetchWhileFetching")) /\ s[w] # "Done" /\ BufBytes(w) < BufCap
Fetcher(s) == IF \E j \in 1..Len(fetchOrder) : MayFetch(s, fetchOrder[j])
              THEN {fetchOrder[CHOOSE j \in 1..Len(fetchOrder) : MayFetch(s, fetchOrder[j]) /\ \A k \in 1..(j - 1) : ~MayFetch(s, fetchOrder[k])]}
              ELSE {}

Tick ==
  LET a == P1
      d == P2(a.s, a.p)
      iss == Issued(a.s, d)
      s3 == [w \in Wfs |-> IF w \in iss THEN "Running" ELSE a.s[w]]
      f == Fetcher(s3)
  IN /\ st' = s3 /\ pc' = a.p /\ nRetired' = a.r
     /\ cur' = [w \in Wfs |-> IF w \in iss THEN d[w] ELSE a.c[w]]
     /\ dec' = [w \in Wfs |-> IF w \in iss THEN None ELSE d[w]]
     /\ inUnit' = [c \in Classes |-> inUnit[c] \cup {w \in iss : ClassOf(d, w) = c}]
     /\ path' = [w \in Wfs |-> IF w \in iss THEN Append(path[w], d[w]) ELSE path[w]]
     /\ nIssued' = [w \in Wfs |-> IF w \in iss THEN nIssued[w] + 1 ELSE nIssued[w]]
     /\ bad' = bad \cup (IF \E w \in iss : a.c[w] # None THEN {"TwoInFlight"} ELSE {})
                   \cup (IF \E w \in f : fetching[w] THEN {"TwoFetches"} ELSE {})
     /\ bstart' = [w \in Wfs |-> IF w \in f /\ blines[w] = <<>> THEN LineOf(a.p[w]) ELSE bstart[w]]
     /\ fetching' = [w \in Wfs |-> fetching[w] \/ w \in f]
     /\ faddr' = [w \in Wfs |-> IF w \in f THEN (IF blines[w] = <<>> THEN LineOf(a.p[w]) ELSE bstart[w] + BufBytes(w)) ELSE faddr[w]]
     /\ rr' = (rr + 1) % NSimd
     /\ UNCHANGED <<blines, fetchOrder, back>>
     \* the cycle changes something (an idle CU does not tick)
     /\ (st' # st \/ dec' # dec \/ fetching' # fetching \/ pc' # pc)

Next == Tick \/ (\E w \in Wfs : FetchReturn(w) \/ (\E t \in BOOLEAN : UnitDone(w, t)))
Spec == Init /\ [][Next]_vars
FairSpec == Spec /\ WF_vars(Tick) /\ \A w \in Wfs : WF_vars(FetchReturn(w)) /\ WF_vars(\E t \in BOOLEAN : UnitDone(w, t))

\* --------------------------------------------------------------- properties
States == {"Ready", "Running", "AtBarrier", "Done"}
TypeOK == \A w \in Wfs : st[w] \in States /\ (st[w] \in {"Running", "AtBarrier"} <=> cur[w] # None) /\ Len(blines[w]) * LineSize <= BufCap + LineSize
NoFlag == bad = {}
\* at most one instruction between issue and retirement; everything issued retires exactly once
OneInFlight == \A w \in Wfs : nIssued[w] - nRetired[w] = (IF cur[w] # None THEN 1 ELSE 0)
\* the buffer holds consecutive lines from its start, so the bytes decoded at PC are the code at PC
BufferConsistent == \A w \in Wfs : \A j \in 1..Len(blines[w]) : blines[w][j] = bstart[w] + (j - 1) * LineSize
DecodeAtPC == \A w \in Wfs : dec[w] # None => dec[w] = pc[w]
\* program order: every issued address follows its predecessor (fall-through or the branch target)
Follows(a, b) == b = a + Code[a].n \/ (Code[a].k = "br" /\ b = Code[a].tgt)
ProgramOrder == \A w \in Wfs : /\ (path[w] # <<>> => path[w][1] = 0)
                               /\ \A j \in 1..(Len(path[w]) - 1) : Follows(path[w][j], path[w][j + 1])
FetchExclusive == \A w \in Wfs : fetching[w] <=> faddr[w] # None
FetchAligned == \A w \in Wfs : faddr[w] # None => faddr[w] % LineSize = 0
UnitsBounded == \A c \in Classes : Cardinality(inUnit[c]) <= UnitCap[c]
AllDone == \A w \in Wfs : st[w] = "Done"
Finishes == <>[]AllDone
=============================================================================
