SPECIFICATION TSpec
CONSTANTS
  Tolerant = FALSE
  LineSize = 64
  BufCap = 256
  NSimd = 4
INVARIANTS OrderInv IssueInv RetireInv FetchInv Report
CONSTRAINT Mark
POSTCONDITION Accepted
CHECK_DEADLOCK FALSE
