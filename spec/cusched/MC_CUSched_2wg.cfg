SPECIFICATION Spec
CONSTANTS
  BufSize = 16
  AceCap = 4
  Deviations <- NoDev
  InOrderMem = TRUE
  MaxLen = 2
  Waits <- W01
  Groups <- G21
  SampledGroups = {}
INVARIANTS TypeOK BarrierOrder CountersExact Rules EndAfterMemory CompletionOnce BarrierBuffered NoHang
CHECK_DEADLOCK FALSE
