SPECIFICATION Spec
CONSTANTS
  BufSize = 1
  AceCap = 1
  Deviations <- NoDev
  InOrderMem = TRUE
  MaxLen = 2
  Waits <- W00
  Groups <- G21
  SampledGroups = {}
INVARIANTS TypeOK BarrierOrder CountersExact Rules EndAfterMemory CompletionOnce BarrierBuffered NoHang
CHECK_DEADLOCK FALSE
