SPECIFICATION Spec
CONSTANTS
  BufSize = 16
  AceCap = 4
  Deviations <- NoDev
  InOrderMem = TRUE
  MaxLen = 3
  Waits <- W01
  Groups <- G2
  SampledGroups = {1}
INVARIANTS TypeOK BarrierOrder CountersExact Rules EndAfterMemory CompletionOnce BarrierBuffered NoHang
CHECK_DEADLOCK FALSE
