SPECIFICATION TSpec
CONSTANTS
  BufSize = 1000000
  AceCap = 1000000
  Deviations = {}
  InOrderMem = FALSE
  MaxLen = 0
  Waits = {}
  Groups <- NoGroups
  SampledGroups = {}
  Tolerant = TRUE
INVARIANTS BarrierOrder CountersExact EndAfterMemory CompletionOnce Report
CONSTRAINT Mark
POSTCONDITION Accepted
CHECK_DEADLOCK FALSE
