SPECIFICATION TSpec
INVARIANTS ExactlyOnce MapWellFormed WithinCapacity NoOverlap RspOnceAfterAll
CONSTRAINT Mark
POSTCONDITION Accepted
CHECK_DEADLOCK FALSE
