--------------------------- MODULE DispatchLedger ---------------------------
(***************************************************************************)
(* Port-level ledger of a command processor (amd/timing/cp): what can be   *)
(* seen on the CP's driver-facing port (LaunchKernelReq / LaunchKernelRsp) *)
(* and on its CU-facing port (MapWGReq / WGCompletionMsg), and the         *)
(* property C09 stated on that ledger.                                     *)
(*                                                                         *)
(* The ledger actions L_* are *unguarded* with respect to the property:    *)
(* whatever the component does is recorded, and every departure from the   *)
(* property adds the name of the broken rule to `bad`.  The invariants     *)
(* below are therefore checkable both on the design model (Dispatch.tla    *)
(* drives the ledger from the dispatcher model) and on logs of the real    *)
(* cp.CommandProcessor (DispatchTrace.tla drives it from port events).     *)
(*                                                                         *)
(* Resources are counted in architectural units, independent of the        *)
(* allocator's granularity: SGPRs (registers of a CU), VGPRs (registers    *)
(* per lane of one SIMD), LDS bytes, wavefront slots per SIMD.  -1 is      *)
(* "unlimited" (emulation CUs).                                            *)
(***************************************************************************)
EXTENDS Integers, Sequences, FiniteSets, TLC

VARIABLES
  cfg,     \* Seq over CUs of [slots: Seq over SIMDs, sregs, vregs: Seq over SIMDs, lds]
  kern,    \* kernel id -> [wgs: set of WG ids, nwf: WG id -> #wavefronts, s, v, l, pid, st, fit]
           \*   s/v = registers per wavefront / per work-item, l = LDS bytes per WG,
           \*   st \in {"queued","running","done"}, fit = CUs (1-based) an idle CU of which can hold one WG
  drvIn,   \* Seq of kernel ids: LaunchKernelReq waiting in ToDriver.incoming
  maps,    \* map id -> [k, w, c, locs]: every MapWGReq ever sent; locs: Seq of [simd, s, v, l] offsets
  mapOf,   \* <<k, w>> -> first map id
  toCU,    \* Seq of map ids in ToCUs.outgoing
  atCU,    \* set of map ids received by their CU and not yet reported complete
  live,    \* Seq over CUs of the set of map ids holding resources there (sent, not reported complete)
  done,    \* set of map ids reported complete by their CU
  cuIn,    \* Seq of [mid, ids] completion messages in ToCUs.incoming
  rsps,    \* Seq of kernel ids: LaunchKernelRsp sent, in order
  drvOut,  \* Seq of kernel ids in ToDriver.outgoing
  bad      \* set of names of broken rules

lvars == <<cfg, kern, drvIn, maps, mapOf, toCU, atCU, live, done, cuIn, rsps, drvOut, bad>>

NCU == Len(cfg)
Range(s) == {s[i] : i \in 1..Len(s)}

L_Init(c) ==
  /\ cfg = c /\ kern = <<>> /\ drvIn = <<>> /\ maps = <<>> /\ mapOf = <<>> /\ toCU = <<>>
  /\ atCU = {} /\ live = [i \in 1..Len(c) |-> {}] /\ done = {} /\ cuIn = <<>>
  /\ rsps = <<>> /\ drvOut = <<>> /\ bad = {}

\* start over with configuration c (concatenated traces)
L_Reset(c) ==
  /\ cfg' = c /\ kern' = <<>> /\ drvIn' = <<>> /\ maps' = <<>> /\ mapOf' = <<>> /\ toCU' = <<>>
  /\ atCU' = {} /\ live' = [i \in 1..Len(c) |-> {}] /\ done' = {} /\ cuIn' = <<>>
  /\ rsps' = <<>> /\ drvOut' = <<>> /\ bad' = {}

\* ------------------------------------------------------------ resource rules
Lim(cap, hi) == cap < 0 \/ hi <= cap          \* -1 = unlimited
Disjoint(a, la, b, lb) == la = 0 \/ lb = 0 \/ a + la <= b \/ b + lb <= a

\* wavefront instances of a recorded map
Wfs(m) == {<<m, i>> : i \in 1..Len(maps[m].locs)}
Loc(x) == maps[x[1]].locs[x[2]]
KOf(x) == kern[maps[x[1]].k]

\* violations caused by adding the map record r (not yet in maps) on CU c
ShapeBad(r) ==
  \/ r.c \notin 1..NCU
  \/ r.k \notin DOMAIN kern
  \/ /\ r.k \in DOMAIN kern /\ r.w \in kern[r.k].wgs
     /\ Len(r.locs) # kern[r.k].nwf[r.w]
  \/ /\ r.c \in 1..NCU
     /\ \E i \in 1..Len(r.locs) : r.locs[i].simd \notin 0..(Len(cfg[r.c].slots) - 1)
  \/ \E i, j \in 1..Len(r.locs) : r.locs[i].l # r.locs[j].l      \* one LDS block per work-group

CapacityBad(r) ==
  LET K == kern[r.k]  C == cfg[r.c]
      n(sd) == Cardinality({i \in 1..Len(r.locs) : r.locs[i].simd = sd})
      resident(sd) == Cardinality({x \in UNION {Wfs(m) : m \in live[r.c]} : Loc(x).simd = sd})
  IN \/ \E i \in 1..Len(r.locs) :
          \/ r.locs[i].s < 0 \/ r.locs[i].v < 0 \/ r.locs[i].l < 0
          \/ ~Lim(C.sregs, r.locs[i].s + K.s)
          \/ ~Lim(C.vregs[r.locs[i].simd + 1], r.locs[i].v + K.v)
          \/ ~Lim(C.lds, r.locs[i].l + K.l)
     \/ \E sd \in 0..(Len(C.slots) - 1) : n(sd) > 0 /\ ~Lim(C.slots[sd + 1], resident(sd) + n(sd))

OverlapBad(r) ==
  LET K == kern[r.k]
      others == UNION {Wfs(m) : m \in live[r.c]}
  IN \/ \E i, j \in 1..Len(r.locs) : i < j /\
          \/ ~Disjoint(r.locs[i].s, K.s, r.locs[j].s, K.s)
          \/ r.locs[i].simd = r.locs[j].simd /\ ~Disjoint(r.locs[i].v, K.v, r.locs[j].v, K.v)
     \/ \E i \in 1..Len(r.locs), x \in others :
          \/ ~Disjoint(r.locs[i].s, K.s, Loc(x).s, KOf(x).s)
          \/ r.locs[i].simd = Loc(x).simd /\ ~Disjoint(r.locs[i].v, K.v, Loc(x).v, KOf(x).v)
          \/ ~Disjoint(r.locs[i].l, K.l, Loc(x).l, KOf(x).l)

MapViolations(r) ==
  LET known == r.k \in DOMAIN kern
      shape == ShapeBad(r) IN
  (IF ~known \/ kern[r.k].st # "running" THEN {"map_kernel_not_running"} ELSE {})
  \cup (IF known /\ r.w \notin kern[r.k].wgs THEN {"map_unknown_wg"} ELSE {})
  \cup (IF <<r.k, r.w>> \in DOMAIN mapOf THEN {"map_twice"} ELSE {})
  \cup (IF known /\ r.pid # kern[r.k].pid THEN {"map_pid"} ELSE {})
  \cup (IF shape THEN {"map_shape"} ELSE {})
  \cup (IF ~shape /\ CapacityBad(r) THEN {"capacity"} ELSE {})
  \cup (IF ~shape /\ OverlapBad(r) THEN {"overlap"} ELSE {})

\* ------------------------------------------------------------------ actions
L_Launch(k, desc) ==
  /\ k \notin DOMAIN kern
  /\ kern' = kern @@ (k :> [desc EXCEPT !.st = "queued"])
  /\ drvIn' = Append(drvIn, k)
  /\ UNCHANGED <<cfg, maps, mapOf, toCU, atCU, live, done, cuIn, rsps, drvOut, bad>>

L_Start(k) ==
  /\ drvIn # <<>> /\ Head(drvIn) = k
  /\ drvIn' = Tail(drvIn)
  /\ kern' = [kern EXCEPT ![k].st = "running"]
  /\ UNCHANGED <<cfg, maps, mapOf, toCU, atCU, live, done, cuIn, rsps, drvOut, bad>>

\* a MapWGReq with id m for work-group w of kernel k leaves for CU c with wavefront locations locs
\* (extra: violations the observer established on the raw message, e.g. misaligned offsets)
L_Map(m, k, w, c, locs, pid, extra) ==
  LET r == [k |-> k, w |-> w, c |-> c, locs |-> locs, pid |-> pid] IN
  /\ m \notin DOMAIN maps
  /\ bad' = bad \cup MapViolations(r) \cup extra
  /\ maps' = maps @@ (m :> r)
  /\ mapOf' = IF <<k, w>> \in DOMAIN mapOf THEN mapOf ELSE mapOf @@ (<<k, w>> :> m)
  /\ live' = IF c \in 1..NCU THEN [live EXCEPT ![c] = @ \cup {m}] ELSE live
  /\ toCU' = Append(toCU, m)
  /\ UNCHANGED <<cfg, kern, drvIn, atCU, done, cuIn, rsps, drvOut>>

L_TakeMap(m) ==
  /\ toCU # <<>> /\ Head(toCU) = m
  /\ toCU' = Tail(toCU)
  /\ atCU' = atCU \cup {m}
  /\ UNCHANGED <<cfg, kern, drvIn, maps, mapOf, live, done, cuIn, rsps, drvOut, bad>>

\* CU c reports the work-groups ids (a non-empty set of map ids it holds) complete in one message
L_Complete(mid, c, ids) ==
  /\ ids # {} /\ ids \subseteq atCU /\ \A m \in ids : maps[m].c = c
  /\ atCU' = atCU \ ids
  /\ done' = done \cup ids
  /\ live' = [live EXCEPT ![c] = @ \ ids]
  /\ cuIn' = Append(cuIn, [mid |-> mid, ids |-> ids])
  /\ UNCHANGED <<cfg, kern, drvIn, maps, mapOf, toCU, rsps, drvOut, bad>>

\* the CP removes the head completion message from its port
L_Consume(mid) ==
  /\ cuIn # <<>> /\ Head(cuIn).mid = mid
  /\ cuIn' = Tail(cuIn)
  /\ UNCHANGED <<cfg, kern, drvIn, maps, mapOf, toCU, atCU, live, done, rsps, drvOut, bad>>

\* a dispatcher took its share ids out of the head completion message and left the rest
L_Strip(ids) ==
  /\ cuIn # <<>> /\ ids # {} /\ ids \subseteq Head(cuIn).ids /\ ids # Head(cuIn).ids
  /\ cuIn' = [cuIn EXCEPT ![1].ids = @ \ ids]
  /\ UNCHANGED <<cfg, kern, drvIn, maps, mapOf, toCU, atCU, live, done, rsps, drvOut, bad>>

AllWGsDone(k) == \A w \in kern[k].wgs : <<k, w>> \in DOMAIN mapOf /\ mapOf[<<k, w>>] \in done

RspViolations(k) ==
  (IF k \notin DOMAIN kern \/ (k \in DOMAIN kern /\ kern[k].st = "queued") THEN {"rsp_kernel_not_started"} ELSE {})
  \cup (IF k \in Range(rsps) THEN {"rsp_twice"} ELSE {})
  \cup (IF k \in DOMAIN kern /\ ~AllWGsDone(k) THEN {"rsp_early"} ELSE {})

L_Rsp(k) ==
  /\ bad' = bad \cup RspViolations(k)
  /\ rsps' = Append(rsps, k)
  /\ drvOut' = Append(drvOut, k)
  /\ kern' = IF k \in DOMAIN kern THEN [kern EXCEPT ![k].st = "done"] ELSE kern
  /\ UNCHANGED <<cfg, drvIn, maps, mapOf, toCU, atCU, live, done, cuIn>>

L_TakeRsp(k) ==
  /\ drvOut # <<>> /\ Head(drvOut) = k
  /\ drvOut' = Tail(drvOut)
  /\ UNCHANGED <<cfg, kern, drvIn, maps, mapOf, toCU, atCU, live, done, cuIn, rsps, bad>>

\* --------------------------------------------------------------- the property
\* every work-group is mapped to a CU at most once, only for a kernel being dispatched
ExactlyOnce == bad \cap {"map_twice", "map_unknown_wg", "map_kernel_not_running"} = {}
\* a map request describes the work-group it carries (one location per wavefront, a real SIMD, the launch's PID)
MapWellFormed == bad \cap {"map_shape", "map_pid"} = {}
\* only when that unit has free wavefront slots, SGPRs, VGPRs and LDS for it
WithinCapacity == "capacity" \notin bad
\* resources of simultaneously resident work-groups never overlap
NoOverlap == "overlap" \notin bad
\* the completion response is sent exactly once, after every work-group was mapped and has completed
RspOnceAfterAll == bad \cap {"rsp_twice", "rsp_early", "rsp_kernel_not_started"} = {}

\* nothing in flight anywhere on the ports or in the CUs
PortsQuiet == drvIn = <<>> /\ toCU = <<>> /\ atCU = {} /\ cuIn = <<>> /\ drvOut = <<>>
AllAnswered == \A k \in DOMAIN kern : kern[k].st = "done"

\* Work-groups of running kernels that still wait for a CU although an idle CU could hold them:
\* legitimate only while the CP still has something to do.
Unmapped(k) == {w \in kern[k].wgs : <<k, w>> \notin DOMAIN mapOf}
Starved == \E k \in DOMAIN kern : /\ kern[k].st = "running" /\ Unmapped(k) # {}
                                  /\ \E c \in kern[k].fit : live[c] = {}

\* a work-group waits although nothing is resident or in flight anywhere: nothing would ever wake the CP
Stuck == /\ \E k \in DOMAIN kern : kern[k].st = "running" /\ Unmapped(k) # {} /\ kern[k].fit # {}
         /\ \A c \in 1..NCU : live[c] = {}
         /\ toCU = <<>> /\ cuIn = <<>>

\* full-state versions (used on the small design model to cross-check the incremental rules)
LiveWfs(c) == UNION {Wfs(m) : m \in live[c]}
NoOverlapFull ==
  \A c \in 1..NCU : \A x, y \in LiveWfs(c) : x # y =>
      /\ Disjoint(Loc(x).s, KOf(x).s, Loc(y).s, KOf(y).s)
      /\ (Loc(x).simd = Loc(y).simd => Disjoint(Loc(x).v, KOf(x).v, Loc(y).v, KOf(y).v))
      /\ (x[1] # y[1] => Disjoint(Loc(x).l, KOf(x).l, Loc(y).l, KOf(y).l))
WithinCapacityFull ==
  \A c \in 1..NCU :
     /\ \A x \in LiveWfs(c) : /\ Lim(cfg[c].sregs, Loc(x).s + KOf(x).s)
                              /\ Lim(cfg[c].vregs[Loc(x).simd + 1], Loc(x).v + KOf(x).v)
                              /\ Lim(cfg[c].lds, Loc(x).l + KOf(x).l)
     /\ \A sd \in 0..(Len(cfg[c].slots) - 1) :
           Lim(cfg[c].slots[sd + 1], Cardinality({x \in LiveWfs(c) : Loc(x).simd = sd}))
ExactlyOnceFull == \A m1, m2 \in DOMAIN maps : (maps[m1].k = maps[m2].k /\ maps[m1].w = maps[m2].w) => m1 = m2
RspFull == /\ \A i, j \in 1..Len(rsps) : i # j => rsps[i] # rsps[j]
           /\ \A i \in 1..Len(rsps) : AllWGsDone(rsps[i])
=============================================================================
