SPECIFICATION SSpec
CONSTANTS
  CUs <- SCUs3
  GS = 2
  GV = 2
  GL = 4
  NDisp = 2
  Alg = "rr"
  Kernels <- SKernels
  MaxLaunch = 4
  Batch = "kernel"
  Deviations <- NoDev
  PortCap = 3
INVARIANTS ExactlyOnce MapWellFormed WithinCapacity NoOverlap RspOnceAfterAll MaskConsistent NoPanic
CHECK_DEADLOCK FALSE
