SPECIFICATION Spec
CONSTANTS
  CUs <- MCCUs2
  GS = 2
  GV = 2
  GL = 4
  NDisp = 2
  Alg = "partition"
  Kernels <- MCKernels
  MaxLaunch = 2
  Batch = "cross"
  Deviations <- NoDev
  PortCap = 2
INVARIANTS TypeOK ExactlyOnce MapWellFormed WithinCapacity NoOverlap RspOnceAfterAll
  NoOverlapFull WithinCapacityFull ExactlyOnceFull RspFull
  MaskConsistent AllReturned ReservedCoversLive CountersAgree NoPanic NeverStarved QuietMeansAnswered
CHECK_DEADLOCK FALSE
