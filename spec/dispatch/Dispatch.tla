------------------------------ MODULE Dispatch ------------------------------
(***************************************************************************)
(* Design model of kernel dispatching in the command processor             *)
(* (amd/timing/cp): cpMiddleware.processLaunchKernelReq, the dispatchers   *)
(* (internal/dispatching/dispatcher.go), the placement algorithms          *)
(* (roundrobin.go, greedy.go, partition.go) and the shared CU resource pool *)
(* (internal/resource, see CUResource.tla).                                *)
(*                                                                         *)
(* One action per message handled / per sub-step of DispatcherImpl.Tick:   *)
(*   Start(d)           processLaunchKernelReq + StartDispatching          *)
(*   Reserve(d)         dispatchNextWG: alg.Next() found a CU              *)
(*   ReserveFail(d)     dispatchNextWG: alg.Next() found none (only the    *)
(*                      SIMD cursors of the CUs tried may move)            *)
(*   SendMap(d)         dispatchNextWG: MapWGReq sent on ToCUs             *)
(*   Process(d)         processMessagesFromCU: head WGCompletionMsg        *)
(*   CompleteKernel(d)  kernelCompleted + completeKernel                   *)
(* The order of dispatchers and sub-steps inside a CP tick, the per-cycle  *)
(* widths and all overhead counters (cycleLeft) are left free, so a CP     *)
(* tick is one interleaving of these actions.  The environment (driver     *)
(* above, CUs below) is explicit: overlapping launches, delayed and        *)
(* reordered completions, batched completion messages (as the emulation    *)
(* CU sends them), back-pressure on every port.                            *)
(*                                                                         *)
(* Every action also drives the port-level ledger (DispatchLedger.tla) on  *)
(* which property C09 is stated.                                           *)
(***************************************************************************)
EXTENDS DispatchLedger, CUResource

CONSTANTS
  CUs,         \* Seq over CUs of [slots: Seq over SIMDs, sUnits, vUnits: Seq over SIMDs, lUnits]
  GS, GV, GL,  \* allocation granularity: SGPRs, VGPRs (per lane), LDS bytes per unit
  NDisp,       \* number of dispatchers
  Alg,         \* "rr" | "greedy" | "partition"
  Kernels,     \* set of [nwg, n, s, v, l]: work-groups, wavefronts per WG, SGPRs per wavefront,
               \*   VGPRs per work-item, LDS bytes per WG  (what the driver may launch)
  MaxLaunch,   \* bound on the number of launches
  Batch,       \* "single" | "kernel" | "cross": what one completion message of a CU may contain
  Deviations,  \* subset of {"MixedBatchPanics", "CompleteIgnoresParked"}: named departures from the design
               \*   MixedBatchPanics: a completion message spanning two dispatchers panics (tree before 12f593b7)
               \*   CompleteIgnoresParked: kernelCompleted() without the currWG.valid guard (a reserved work-group
               \*     whose MapWGReq still waits for room in the ToCUs port does not keep the kernel open)
  PortCap      \* capacity of every port buffer (back-pressure)

VARIABLES
  cus,       \* Seq over CUs of the dispatcher-side resource state [wfFree, smask, vmask, lmask, nextSIMD]
  resv,      \* Seq over CUs: <<k, w>> -> unit locations (CUResourceImpl.reservedWGs)
  disp,      \* Seq over dispatchers of [k, algN, nextCU, curr, nD, nC, inflight]
             \*   k = kernel being dispatched (0 idle), algN = alg.numDispatchedWGs, nextCU = rr cursor (0-based),
             \*   part = partition algorithm's state [np = nextPartition, pd = dispatched per partition,
             \*   cur = fetched, unplaced work-group per partition (-1 none), nxt = next index of its grid builder],
             \*   curr = <<>> or <<[w, c, locs]>> (reserved, MapWGReq not sent yet), nD/nC = numDispatchedWGs/
             \*   numCompletedWGs, inflight = map id -> [w, c]
  panicked,  \* the CP hit log.Panic / panic
  nk, nm, nmsg  \* id counters: launches, map requests, completion messages

dvars == <<cus, resv, disp, panicked, nk, nm, nmsg>>
vars == <<lvars, dvars>>

N == Len(CUs)
NS(c) == Len(CUs[c].slots)
PID == 1

LedgerCfg == [c \in 1..N |-> [slots |-> CUs[c].slots, sregs |-> CUs[c].sUnits * GS,
                              vregs |-> [i \in 1..NS(c) |-> CUs[c].vUnits[i] * GV], lds |-> CUs[c].lUnits * GL]]
FreshCU(c) == [wfFree |-> CUs[c].slots, smask |-> NewMask(CUs[c].sUnits),
               vmask |-> [i \in 1..NS(c) |-> NewMask(CUs[c].vUnits[i])],
               lmask |-> NewMask(CUs[c].lUnits), nextSIMD |-> 0]
Demand(K) == [n |-> K.n, su |-> Units(K.s, GS), vu |-> Units(K.v, GV), lu |-> Units(K.l, GL)]
DemandOf(k) == [n |-> kern[k].n, su |-> Units(kern[k].s, GS), vu |-> Units(kern[k].v, GV), lu |-> Units(kern[k].l, GL)]
KDesc(K) == [wgs |-> 0..(K.nwg - 1), nwf |-> [w \in 0..(K.nwg - 1) |-> K.n], n |-> K.n, s |-> K.s, v |-> K.v, l |-> K.l,
             pid |-> PID, st |-> "queued", fit |-> {c \in 1..N : TryReserve(FreshCU(c), Demand(K)).ok}]
NoPart == [np |-> 0, pd |-> [i \in 1..N |-> 0], cur |-> [i \in 1..N |-> -1], nxt |-> [i \in 1..N |-> 0]]
IdleDisp == [k |-> 0, algN |-> 0, nextCU |-> 0, part |-> NoPart, curr |-> <<>>, nD |-> 0, nC |-> 0, inflight |-> <<>>]

Init ==
  /\ L_Init(LedgerCfg)
  /\ cus = [c \in 1..N |-> FreshCU(c)]
  /\ resv = [c \in 1..N |-> <<>>]
  /\ disp = [d \in 1..NDisp |-> IdleDisp]
  /\ panicked = FALSE /\ nk = 0 /\ nm = 0 /\ nmsg = 0

NWG(k) == Cardinality(kern[k].wgs)
\* partitionAlgorithm: numWGPerPartition
NPer(k) == ((NWG(k) - 1) \div N) + 1

\* ---------------------------------------------------------------- component
\* cpMiddleware.processLaunchKernelReq: the first dispatcher that is not dispatching takes the head request;
\* StartDispatching + alg.StartNewKernel (partition: one grid builder per CU, skipped to its share of the
\* grid; the partition cursor survives from kernel to kernel, as the round-robin cursor does)
Start(d) ==
  /\ ~panicked /\ drvIn # <<>>
  /\ disp[d].k = 0 /\ \A e \in 1..(d - 1) : disp[e].k # 0
  /\ L_Start(Head(drvIn))
  /\ disp' = [disp EXCEPT ![d].k = Head(drvIn), ![d].algN = 0, ![d].nD = 0, ![d].nC = 0,
                          ![d].part = [np |-> @.np, pd |-> [i \in 1..N |-> 0], cur |-> [i \in 1..N |-> -1],
                                       nxt |-> [i \in 1..N |-> (i - 1) * NPer(Head(drvIn))]]]
  /\ UNCHANGED <<cus, resv, panicked, nk, nm, nmsg>>

\* order in which roundRobinAlgorithm.Next() / greedyAlgorithm.Next() try the CUs
CUOrder(d) == [i \in 1..N |-> IF Alg = "rr" THEN ((disp[d].nextCU + i - 1) % N) + 1 ELSE i]

RECURSIVE TryCUs(_, _, _, _)
TryCUs(cs, order, i, wg) ==
  IF i > Len(order) THEN [ok |-> FALSE, cus |-> cs, c |-> 0, locs |-> <<>>]
  ELSE LET c == order[i]
           r == TryReserve(cs[c], wg) IN
       IF r.ok THEN [ok |-> TRUE, cus |-> [cs EXCEPT ![c] = r.cu], c |-> c, locs |-> r.locs]
       ELSE TryCUs([cs EXCEPT ![c] = r.cu], order, i + 1, wg)

\* partitionAlgorithm.nextWG(i) on the private state p: the work-group partition i offers, and whose it is.
\* A partition that has dispatched its share offers a work-group some other partition fetched but could
\* not place; otherwise its own fetched one, or the next of its grid builder (none beyond the grid's end).
PartNextWG(p, i, nper, nwg) ==
  IF p.pd[i] >= nper
  THEN LET J == {j \in 1..N : p.cur[j] >= 0} IN
       IF J = {} THEN [p |-> p, w |-> -1, from |-> i]
       ELSE LET j == CHOOSE x \in J : \A y \in J : x <= y IN [p |-> p, w |-> p.cur[j], from |-> j]
  ELSE IF p.cur[i] >= 0 THEN [p |-> p, w |-> p.cur[i], from |-> i]
  ELSE LET w == IF p.nxt[i] < nwg THEN p.nxt[i] ELSE -1 IN
       [p |-> [p EXCEPT !.cur[i] = w, !.nxt[i] = IF w >= 0 THEN @ + 1 ELSE @], w |-> w, from |-> i]

\* partitionAlgorithm.Next(): partitions in rotation from nextPartition, work-group of partition i only to CU i
RECURSIVE PartTry(_, _, _, _, _, _)
PartTry(cs, p, idx, k, nper, nwg) ==
  IF idx >= N THEN [ok |-> FALSE, cus |-> cs, p |-> p, c |-> 0, locs |-> <<>>, w |-> -1]
  ELSE LET i == ((idx + p.np) % N) + 1
           g == PartNextWG(p, i, nper, nwg) IN
       IF g.w < 0 THEN PartTry(cs, g.p, idx + 1, k, nper, nwg)
       ELSE LET r == TryReserve(cs[i], DemandOf(k)) IN
            IF r.ok THEN [ok |-> TRUE, cus |-> [cs EXCEPT ![i] = r.cu], c |-> i, locs |-> r.locs, w |-> g.w,
                          p |-> [g.p EXCEPT !.cur[g.from] = -1, !.pd[g.from] = @ + 1, !.np = i]]
            ELSE PartTry([cs EXCEPT ![i] = r.cu], g.p, idx + 1, k, nper, nwg)

\* alg.Next() of dispatcher d
AlgNext(d) ==
  LET k == disp[d].k IN
  IF Alg = "partition" THEN PartTry(cus, disp[d].part, 0, k, NPer(k), NWG(k))
  ELSE LET r == TryCUs(cus, CUOrder(d), 1, DemandOf(k)) IN
       [ok |-> r.ok, cus |-> r.cus, p |-> disp[d].part, c |-> r.c, locs |-> r.locs,
        w |-> disp[d].algN]                      \* the grid builder hands out work-groups in index order

CanReserve(d) == ~panicked /\ disp[d].k # 0 /\ disp[d].curr = <<>> /\ disp[d].algN < NWG(disp[d].k)

Reserve(d) ==
  /\ CanReserve(d)
  /\ LET k == disp[d].k
         r == AlgNext(d) IN
     /\ r.ok
     /\ cus' = r.cus
     /\ IF <<k, r.w>> \in DOMAIN resv[r.c]        \* neverReserveTwice
        THEN panicked' = TRUE /\ UNCHANGED <<resv, disp>>
        ELSE /\ resv' = [resv EXCEPT ![r.c] = @ @@ (<<k, r.w>> :> r.locs)]
             /\ disp' = [disp EXCEPT ![d].curr = <<[w |-> r.w, c |-> r.c, locs |-> r.locs]>>,
                                     ![d].algN = @ + 1,
                                     ![d].part = r.p,
                                     ![d].nextCU = IF Alg = "rr" THEN r.c % N ELSE @]
             /\ UNCHANGED panicked
  /\ UNCHANGED <<lvars, nk, nm, nmsg>>

\* alg.Next() placed nothing; what it touched on the way stays touched (SIMD cursors of the CUs tried,
\* work-groups fetched by partitions)
ReserveFail(d) ==
  /\ CanReserve(d)
  /\ LET r == AlgNext(d) IN
     /\ ~r.ok /\ (r.cus # cus \/ r.p # disp[d].part)
     /\ cus' = r.cus
     /\ disp' = [disp EXCEPT ![d].part = r.p]
  /\ UNCHANGED <<lvars, resv, panicked, nk, nm, nmsg>>

\* byte/register offsets as they travel in MapWGReq.Wavefronts
RawLocs(locs) == [i \in 1..Len(locs) |-> [simd |-> locs[i].simd, s |-> locs[i].soff * GS,
                                           v |-> locs[i].voff * GV, l |-> locs[i].loff * GL]]

SendMap(d) ==
  /\ ~panicked /\ disp[d].curr # <<>> /\ Len(toCU) < PortCap
  /\ LET cw == disp[d].curr[1]  m == nm + 1 IN
     /\ L_Map(m, disp[d].k, cw.w, cw.c, RawLocs(cw.locs), PID, {})
     /\ disp' = [disp EXCEPT ![d].curr = <<>>, ![d].nD = @ + 1,
                             ![d].inflight = @ @@ (m :> [w |-> cw.w, c |-> cw.c])]
     /\ nm' = m
  /\ UNCHANGED <<cus, resv, panicked, nk, nmsg>>

\* alg.FreeResources for every id of a set (order immaterial: regions are disjoint)
RECURSIVE FreeAll(_, _, _, _)
FreeAll(cs, rv, infl, ids) ==
  IF ids = {} THEN [cus |-> cs, resv |-> rv, lost |-> FALSE]
  ELSE LET m == CHOOSE x \in ids : TRUE
           c == infl[m].c
           key == <<maps[m].k, infl[m].w>> IN
       IF key \notin DOMAIN rv[c] THEN [cus |-> cs, resv |-> rv, lost |-> TRUE]     \* "work-group not found"
       ELSE FreeAll([cs EXCEPT ![c] = FreeWG(cs[c], rv[c][key], DemandOf(maps[m].k))],
                    [rv EXCEPT ![c] = [q \in DOMAIN rv[c] \ {key} |-> rv[c][q]]],
                    infl, ids \ {m})

\* processMessagesFromCU on the head message of the shared ToCUs port
Process(d) ==
  /\ ~panicked /\ cuIn # <<>>
  /\ LET msg == Head(cuIn)
         mine == msg.ids \cap DOMAIN disp[d].inflight IN
     /\ mine # {}                                   \* count == 0: not mine, leave it for the next dispatcher
     /\ IF mine # msg.ids /\ "MixedBatchPanics" \in Deviations
        THEN /\ panicked' = TRUE                    \* log.Panic("... more than one dispatcher")
             /\ UNCHANGED <<lvars, cus, resv, disp>>
        ELSE LET f == FreeAll(cus, resv, disp[d].inflight, mine) IN
             /\ panicked' = f.lost
             /\ cus' = f.cus /\ resv' = f.resv
             /\ disp' = [disp EXCEPT ![d].nC = @ + Cardinality(mine),
                                     ![d].inflight = [q \in DOMAIN @ \ mine |-> @[q]]]
             /\ IF mine = msg.ids THEN L_Consume(msg.mid) ELSE L_Strip(mine)
  /\ UNCHANGED <<nk, nm, nmsg>>

\* kernelCompleted() /\ completeKernel()
CompleteKernel(d) ==
  /\ ~panicked /\ disp[d].k # 0
  /\ (disp[d].curr = <<>> \/ "CompleteIgnoresParked" \in Deviations)      \* !currWG.valid
  /\ disp[d].algN >= NWG(disp[d].k)        \* !alg.HasNext()
  /\ disp[d].nC >= disp[d].nD
  /\ Len(drvOut) < PortCap
  /\ L_Rsp(disp[d].k)
  /\ disp' = [disp EXCEPT ![d].k = 0]
  /\ UNCHANGED <<cus, resv, panicked, nk, nm, nmsg>>

\* -------------------------------------------------------------- environment
EnvLaunch(K) ==
  /\ nk < MaxLaunch /\ Len(drvIn) < PortCap
  /\ L_Launch(nk + 1, KDesc(K))
  /\ nk' = nk + 1
  /\ UNCHANGED <<cus, resv, disp, panicked, nm, nmsg>>

EnvTakeMap ==
  /\ toCU # <<>> /\ L_TakeMap(Head(toCU))
  /\ UNCHANGED dvars

BatchOK(ids) ==
  CASE Batch = "single" -> Cardinality(ids) = 1
    [] Batch = "kernel" -> \A a, b \in ids : maps[a].k = maps[b].k
    [] OTHER -> TRUE

EnvComplete(c, ids) ==
  /\ Len(cuIn) < PortCap /\ BatchOK(ids)
  /\ L_Complete(nmsg + 1, c, ids)
  /\ nmsg' = nmsg + 1
  /\ UNCHANGED <<cus, resv, disp, panicked, nk, nm>>

EnvTakeRsp ==
  /\ drvOut # <<>> /\ L_TakeRsp(Head(drvOut))
  /\ UNCHANGED dvars

\* --------------------------------------------------------------------- next
CompNext == \E d \in 1..NDisp : Start(d) \/ Reserve(d) \/ ReserveFail(d) \/ SendMap(d) \/ Process(d) \/ CompleteKernel(d)
AtCU(c) == {m \in atCU : maps[m].c = c}
EnvNext ==
  \/ \E K \in Kernels : EnvLaunch(K)
  \/ EnvTakeMap \/ EnvTakeRsp
  \/ \E c \in 1..N : \E ids \in (SUBSET AtCU(c)) \ {{}} : EnvComplete(c, ids)
Next == CompNext \/ EnvNext

Spec == Init /\ [][Next]_vars
Fairness ==
  /\ \A d \in 1..NDisp : /\ WF_vars(Start(d)) /\ WF_vars(Reserve(d)) /\ WF_vars(SendMap(d))
                         /\ WF_vars(Process(d)) /\ WF_vars(CompleteKernel(d))
  /\ WF_vars(EnvTakeMap) /\ WF_vars(EnvTakeRsp)
  /\ WF_vars(\E c \in 1..N : \E ids \in (SUBSET AtCU(c)) \ {{}} : EnvComplete(c, ids))
FairSpec == Spec /\ Fairness

\* --------------------------------------------------------------- invariants
WfIdx(c, key) == 1..Len(resv[c][key])
SUnitsOf(c) == UNION {UNION {{resv[c][key][i].soff + j : j \in 1..DemandOf(key[1]).su} : i \in WfIdx(c, key)} :
                        key \in DOMAIN resv[c]}
LUnitsOf(c) == UNION {{resv[c][key][1].loff + j : j \in 1..DemandOf(key[1]).lu} : key \in DOMAIN resv[c]}
VUnitsOf(c, sd) == UNION {UNION {{resv[c][key][i].voff + j : j \in 1..DemandOf(key[1]).vu} :
                                   i \in {x \in WfIdx(c, key) : resv[c][key][x].simd = sd - 1}} :
                            key \in DOMAIN resv[c]}
WfOn(c, sd) == UNION {{<<key, i>> : i \in {x \in WfIdx(c, key) : resv[c][key][x].simd = sd - 1}} : key \in DOMAIN resv[c]}

\* the allocation masks say exactly what the reserved work-groups hold
MaskConsistent ==
  panicked \/ \A c \in 1..N :
     /\ UsedUnits(cus[c].smask) = SUnitsOf(c)
     /\ UsedUnits(cus[c].lmask) = LUnitsOf(c)
     /\ \A sd \in 1..NS(c) : /\ UsedUnits(cus[c].vmask[sd]) = VUnitsOf(c, sd)
                             /\ cus[c].wfFree[sd] = CUs[c].slots[sd] - Cardinality(WfOn(c, sd))
                             /\ cus[c].wfFree[sd] >= 0

\* resources are all returned when the work-groups have finished
AllReturned == panicked \/ \A c \in 1..N : DOMAIN resv[c] = {} => cus[c] = [FreshCU(c) EXCEPT !.nextSIMD = cus[c].nextSIMD]

\* what the dispatcher believes is reserved covers what really is in use (ledger `live`)
ReservedCoversLive ==
  panicked \/ \A c \in 1..N : \A m \in live[c] : <<maps[m].k, maps[m].w>> \in DOMAIN resv[c]

CountersAgree ==
  \A d \in 1..NDisp : /\ disp[d].nD - disp[d].nC = Cardinality(DOMAIN disp[d].inflight)
                      /\ disp[d].k # 0 => (kern[disp[d].k].st = "running" /\ disp[d].nD + Len(disp[d].curr) = disp[d].algN)
                      /\ \A e \in 1..NDisp : (d # e /\ disp[d].k # 0) => disp[d].k # disp[e].k

NoPanic == ~panicked

\* the CP has nothing left to do (it would go to sleep) ...
CompIdle == ~ENABLED CompNext
\* ... then no work-group of a running kernel is left waiting although an idle CU could take it,
\* (a work-group already reserved whose MapWGReq waits for room in the ToCUs port is not waiting for a CU)
\* (the partition placement pins work-groups to CUs: only "nothing resident anywhere" is excluded there)
NeverStarved == (~panicked /\ CompIdle /\ Len(toCU) < PortCap) => (IF Alg = "partition" THEN ~Stuck ELSE ~Starved)
\* ... and with nothing in flight anywhere every launch has been answered
QuietMeansAnswered == (~panicked /\ CompIdle /\ PortsQuiet) => AllAnswered

\* every launch is eventually answered (fair CUs and driver)
EveryKernelCompletes == \A k \in 1..MaxLaunch : [](k \in DOMAIN kern => <>(k \in DOMAIN kern /\ kern[k].st = "done"))

TypeOK == /\ nk \in 0..MaxLaunch /\ panicked \in BOOLEAN
          /\ Len(drvIn) <= PortCap /\ Len(toCU) <= PortCap /\ Len(cuIn) <= PortCap /\ Len(drvOut) <= PortCap
=============================================================================
