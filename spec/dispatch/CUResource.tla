----------------------------- MODULE CUResource -----------------------------
(***************************************************************************)
(* The dispatcher's per-CU resource bookkeeping, shaped like               *)
(* amd/timing/cp/internal/resource (resourcemask.go, curesourceimpl.go).   *)
(*                                                                         *)
(* A mask is a sequence over {0 (free), 1 (reserved)}; offsets are 0-based *)
(* as in the code.  ReserveResourceForWG runs to completion inside one     *)
(* dispatcher step, so the temporary "to reserve" marks of the code are    *)
(* the intermediate masks of the recursive operators below: on failure the *)
(* original masks are kept (clearTempReservation), on success the marked   *)
(* masks are committed (reserveResources).  nextSIMD is *not* rolled back, *)
(* as in the code.                                                         *)
(*                                                                         *)
(* A CU state is [wfFree, smask, vmask, lmask, nextSIMD]; a work-group     *)
(* demand is [n, su, vu, lu]: wavefronts, SGPR units per wavefront, VGPR   *)
(* units per wavefront, LDS units per work-group.                          *)
(***************************************************************************)
EXTENDS Integers, Sequences, FiniteSets

\* unitsOccupy(amount, granularity)
Units(amount, gran) == IF amount % gran = 0 THEN amount \div gran ELSE amount \div gran + 1

FreeRun(mask, o, len) == \A i \in 1..len : mask[o + i] = 0

\* resourceMaskImpl.nextRegion(length, free): lowest offset of `len` contiguous free units, -1 if none
NextRegion(mask, len) ==
  IF len = 0 THEN 0
  ELSE LET C == {o \in 0..(Len(mask) - len) : FreeRun(mask, o, len)} IN
       IF C = {} THEN -1 ELSE CHOOSE o \in C : \A p \in C : o <= p

\* resourceMaskImpl.setStatus(offset, length, v)
SetRange(mask, o, len, v) == [i \in 1..Len(mask) |-> IF i > o /\ i <= o + len THEN v ELSE mask[i]]

NewMask(n) == [i \in 1..n |-> 0]
UsedUnits(mask) == {i \in 1..Len(mask) : mask[i] # 0}

\* withinSGPRLimitation: one region per wavefront, first fit, each marked before the next search
RECURSIVE AllocS(_, _, _, _)
AllocS(mask, n, req, acc) ==
  IF n = 0 THEN [ok |-> TRUE, mask |-> mask, offs |-> acc]
  ELSE LET o == NextRegion(mask, req) IN
       IF o < 0 THEN [ok |-> FALSE, mask |-> mask, offs |-> acc]
       ELSE AllocS(SetRange(mask, o, req, 1), n - 1, req, Append(acc, o))

\* matchWfWithSIMDs: per wavefront, rotate from nextSIMD over the SIMDs and take the first one with a
\* VGPR region and a wavefront slot left; nextSIMD ends just after the SIMD taken (or where it started
\* when a full rotation found nothing)
RECURSIVE MatchV(_, _, _, _, _, _)
MatchV(vm, free, next, n, req, acc) ==
  IF n = 0 THEN [ok |-> TRUE, vm |-> vm, free |-> free, next |-> next, locs |-> acc]
  ELSE LET NS == Len(vm)
           SimdAt(j) == ((next + j) % NS) + 1
           J == {j \in 0..(NS - 1) : NextRegion(vm[SimdAt(j)], req) >= 0 /\ free[SimdAt(j)] > 0} IN
       IF J = {} THEN [ok |-> FALSE, vm |-> vm, free |-> free, next |-> next, locs |-> acc]
       ELSE LET j == CHOOSE x \in J : \A y \in J : x <= y
                s == SimdAt(j)
                o == NextRegion(vm[s], req) IN
            MatchV([vm EXCEPT ![s] = SetRange(vm[s], o, req, 1)], [free EXCEPT ![s] = @ - 1],
                   (next + j + 1) % NS, n - 1, req, Append(acc, [simd |-> s - 1, voff |-> o]))

\* CUResourceImpl.ReserveResourceForWG: SGPRs, then LDS, then SIMDs/VGPRs; all or nothing
TryReserve(cu, wg) ==
  LET a == AllocS(cu.smask, wg.n, wg.su, <<>>) IN
  IF ~a.ok THEN [ok |-> FALSE, cu |-> cu, locs |-> <<>>]
  ELSE LET lo == NextRegion(cu.lmask, wg.lu) IN
    IF lo < 0 THEN [ok |-> FALSE, cu |-> cu, locs |-> <<>>]
    ELSE LET m == MatchV(cu.vmask, cu.wfFree, cu.nextSIMD, wg.n, wg.vu, <<>>) IN
      IF ~m.ok THEN [ok |-> FALSE, cu |-> [cu EXCEPT !.nextSIMD = m.next], locs |-> <<>>]
      ELSE [ok |-> TRUE,
            cu |-> [wfFree |-> m.free, smask |-> a.mask, vmask |-> m.vm,
                    lmask |-> SetRange(cu.lmask, lo, wg.lu, 1), nextSIMD |-> m.next],
            locs |-> [i \in 1..wg.n |-> [simd |-> m.locs[i].simd, voff |-> m.locs[i].voff,
                                          soff |-> a.offs[i], loff |-> lo]]]

\* CUResourceImpl.FreeResourcesForWG: per wavefront location give back the slot, the LDS block, the
\* SGPR region and the VGPR region
RECURSIVE FreeLocs(_, _, _, _)
FreeLocs(cu, locs, i, wg) ==
  IF i > Len(locs) THEN cu
  ELSE LET L == locs[i] IN
       FreeLocs([cu EXCEPT !.wfFree[L.simd + 1] = @ + 1,
                           !.lmask = SetRange(@, L.loff, wg.lu, 0),
                           !.smask = SetRange(@, L.soff, wg.su, 0),
                           !.vmask[L.simd + 1] = SetRange(@, L.voff, wg.vu, 0)],
                locs, i + 1, wg)
FreeWG(cu, locs, wg) == FreeLocs(cu, locs, 1, wg)
=============================================================================
