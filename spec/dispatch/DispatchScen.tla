---------------------------- MODULE DispatchScen ----------------------------
(* Dispatch with a history variable naming the step taken: `tlc -simulate`  *)
(* on this module yields behaviours whose environment steps become replay   *)
(* scenarios for the real command processor (component steps that show on   *)
(* a port become "await", internal ones are dropped).  Checked with         *)
(* NoPanic on the as-implemented deviations it yields the counterexample    *)
(* that is replayed against the code.                                       *)
EXTENDS Dispatch
VARIABLE act

SCU == [slots |-> <<1, 1>>, sUnits |-> 4, vUnits |-> <<2, 2>>, lUnits |-> 2]
SCUb == [slots |-> <<2, 1>>, sUnits |-> 4, vUnits |-> <<3, 2>>, lUnits |-> 3]
SCUs2 == <<SCU, SCU>>
SCUs3 == <<SCU, SCUb, SCU>>
SKA == [nwg |-> 3, n |-> 2, s |-> 2, v |-> 1, l |-> 3]
SKB == [nwg |-> 2, n |-> 1, s |-> 3, v |-> 3, l |-> 0]
SKC == [nwg |-> 4, n |-> 1, s |-> 1, v |-> 2, l |-> 5]
SKD == [nwg |-> 5, n |-> 3, s |-> 1, v |-> 1, l |-> 1]
SKernels == {SKA, SKB, SKC, SKD}
SKernelsB == {SKB}
NoDev == {}
AsImplemented == {"MixedBatchPanics"}
ParkedDev == {"CompleteIgnoresParked"}
SKernelsP == {SKB, SKC}

WGsOf(ids) == {<<maps[m].k, maps[m].w>> : m \in ids}

SInit == Init /\ act = [a |-> "Init"]
SNext ==
  \/ \E d \in 1..NDisp : Start(d) /\ act' = [a |-> "Await", e |-> "Start"]
  \/ \E d \in 1..NDisp : (Reserve(d) \/ ReserveFail(d)) /\ act' = [a |-> "Internal"]
  \/ \E d \in 1..NDisp : SendMap(d) /\ act' = [a |-> "Await", e |-> "MapWG"]
  \/ \E d \in 1..NDisp : Process(d) /\ act' = [a |-> "Await", e |-> "Consume"]
  \/ \E d \in 1..NDisp : CompleteKernel(d) /\ act' = [a |-> "Await", e |-> "Rsp"]
  \/ \E K \in Kernels : EnvLaunch(K) /\ act' = [a |-> "EnvLaunch", K |-> K]
  \/ EnvTakeMap /\ act' = [a |-> "EnvTakeMap"]
  \/ EnvTakeRsp /\ act' = [a |-> "EnvTakeRsp"]
  \/ \E c \in 1..N : \E ids \in (SUBSET AtCU(c)) \ {{}} : EnvComplete(c, ids) /\ act' = [a |-> "EnvComplete", wgs |-> WGsOf(ids)]
SSpec == SInit /\ [][SNext]_<<vars, act>>
=============================================================================
