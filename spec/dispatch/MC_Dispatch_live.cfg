SPECIFICATION FairSpec
CONSTANTS
  CUs <- MCCUs2
  GS = 2
  GV = 2
  GL = 4
  NDisp = 2
  Alg = "rr"
  Kernels <- MCKernelsL
  MaxLaunch = 2
  Batch = "cross"
  Deviations <- NoDev
  PortCap = 1
PROPERTIES EveryKernelCompletes
CHECK_DEADLOCK FALSE
