---------------------------- MODULE MC_Dispatch ----------------------------
EXTENDS Dispatch
\* two CUs x two SIMDs, one wavefront slot per SIMD, 4 SGPR units, 2 VGPR units per SIMD, 2 LDS units
MCCU == [slots |-> <<1, 1>>, sUnits |-> 4, vUnits |-> <<2, 2>>, lUnits |-> 2]
MCCUs2 == <<MCCU, MCCU>>
\* a second shape: unequal SIMDs, two slots on SIMD 0
MCCUb == [slots |-> <<2, 1>>, sUnits |-> 4, vUnits |-> <<3, 2>>, lUnits |-> 3]
MCCUs2b == <<MCCUb, MCCU>>
MCCUs3 == <<MCCU, MCCUb, MCCU>>
\* demands are not multiples of the granularity (unitsOccupy rounds up)
KA == [nwg |-> 3, n |-> 2, s |-> 2, v |-> 1, l |-> 3]      \* fills both SIMDs of MCCU
KB == [nwg |-> 2, n |-> 1, s |-> 3, v |-> 3, l |-> 0]      \* 2 SGPR units, a whole VGPR file of MCCU
KC == [nwg |-> 2, n |-> 1, s |-> 1, v |-> 2, l |-> 5]      \* 2 LDS units
MCKernels == {KA, KB}
MCKernels3 == {KA, KB, KC}
MCKernelsL == {KB}
KAq == [nwg |-> 2, n |-> 2, s |-> 2, v |-> 1, l |-> 3]
MCKernelsQ == {KAq, KB}
NoDev == {}
AsImplemented == {"MixedBatchPanics"}
ParkedDev == {"CompleteIgnoresParked"}
=============================================================================
