--------------------------- MODULE DispatchTrace ---------------------------
(***************************************************************************)
(* Trace specification: is a port-event log of the real                    *)
(* cp.CommandProcessor a behaviour of the port-level ledger, with the      *)
(* property's invariants holding in every state?                           *)
(*                                                                         *)
(*  log line      hook (port, position)                      ledger action *)
(*  Launch        ToDriver  Recvd            LaunchKernelReq  L_Launch     *)
(*  Start         ToDriver  RetrieveIncoming LaunchKernelReq  L_Start      *)
(*  MapWG         ToCUs     Send             MapWGReq         L_Map        *)
(*  TakeMap       ToCUs     RetrieveOutgoing MapWGReq         L_TakeMap    *)
(*  Complete      ToCUs     Recvd            WGCompletionMsg  L_Complete   *)
(*  Consume       ToCUs     RetrieveIncoming WGCompletionMsg  L_Consume    *)
(*  Strip         a delivered WGCompletionMsg lost ids     L_Strip      *)
(*  Rsp           ToDriver  Send             LaunchKernelRsp  L_Rsp        *)
(*  TakeRsp       ToDriver  RetrieveOutgoing LaunchKernelRsp  L_TakeRsp    *)
(*  Idle          the engine has no event left: the CP went to sleep       *)
(*  Quiesce       Idle, and the harness has drained every port and CU      *)
(*  Panic         the CP panicked: never a behaviour                       *)
(***************************************************************************)
EXTENDS DispatchLedger, CUResource, TraceLib, Json

TraceLog == ndJsonDeserialize("trace.ndjson")
N == Len(TraceLog)

VARIABLES l,    \* position in TraceLog
          wc,   \* 1: the placement algorithm of the run is work-conserving (round-robin, greedy); 0: partition
          pcap, \* capacity of the CP's ToCUs port in this run
          held, \* Seq over CUs: map ids the dispatchers still account for (sent, completion not yet consumed)
          ff    \* <<conforming, examined>>: MapWG lines whose offsets are the first-fit choice of CUResource.tla
tvars == <<lvars, l, wc, pcap, held, ff>>

ASSUME HWInit

Ev == TraceLog[l]
Is(e) == l <= N /\ Ev.e = e /\ l' = l + 1

CfgOf(cs) == [i \in 1..Len(cs) |-> [slots |-> cs[i].slots, sregs |-> cs[i].sregs, vregs |-> cs[i].vregs, lds |-> cs[i].lds]]
EmptyCfg == <<>>

TInit == L_Init(EmptyCfg) /\ l = 1 /\ wc = 1 /\ pcap = 4096 /\ held = <<>> /\ ff = <<0, 0>>

TReset == Is("Reset") /\ L_Reset(CfgOf(Ev.cus)) /\ wc' = Ev.wc /\ pcap' = Ev.pcap /\ held' = [i \in 1..Len(Ev.cus) |-> {}] /\ UNCHANGED ff

DescOf(ev) ==
  LET ids == {ev.wgs[i][1] : i \in 1..Len(ev.wgs)} IN
  [wgs |-> ids,
   nwf |-> [w \in ids |-> ev.wgs[CHOOSE i \in 1..Len(ev.wgs) : ev.wgs[i][1] = w][2]],
   s |-> ev.s, v |-> ev.v, l |-> ev.l, pid |-> ev.pid, st |-> "queued", fit |-> Range(ev.fit)]

LocsOf(ev) == [i \in 1..Len(ev.locs) |-> [simd |-> ev.locs[i][1], s |-> ev.locs[i][2], v |-> ev.locs[i][3], l |-> ev.locs[i][4]]]

\* ---- model fidelity (no verdict): does the real allocator choose what CUResource.tla's first fit chooses?
\* The dispatcher-side masks are rebuilt from the map requests it still accounts for, at the allocation
\* granularity of internal/resource (16 SGPRs, 4 VGPRs per lane, 256 B of LDS).
HGS == 16  HGV == 4  HGL == 256
MaskOf(n, regions) == [i \in 1..n |-> IF \E r \in regions : i > r[1] /\ i <= r[1] + r[2] THEN 1 ELSE 0]
RECURSIVE VFits(_, _, _, _)
VFits(locs, i, vu, vms) ==     \* vms: VGPR masks per SIMD, earlier wavefronts of this work-group marked
  IF i > Len(locs) THEN TRUE
  ELSE LET sd == locs[i].simd + 1
           o == NextRegion(vms[sd], vu) IN
       /\ o >= 0 /\ o * HGV = locs[i].v
       /\ VFits(locs, i + 1, vu, [vms EXCEPT ![sd] = SetRange(@, o, vu, 1)])
Limited(c) == cfg[c].sregs >= 0 /\ cfg[c].lds >= 0 /\ \A i \in 1..Len(cfg[c].vregs) : cfg[c].vregs[i] >= 0
FirstFit(ev) ==
  LET c == ev.c  K == kern[ev.k]  locs == LocsOf(ev)
      hw == UNION {Wfs(m) : m \in held[c]}
      smask == MaskOf(cfg[c].sregs \div HGS, {<<Loc(x).s \div HGS, Units(KOf(x).s, HGS)>> : x \in hw})
      lmask == MaskOf(cfg[c].lds \div HGL, {<<Loc(x).l \div HGL, Units(KOf(x).l, HGL)>> : x \in hw})
      vms == [sd \in 1..Len(cfg[c].vregs) |->
                MaskOf(cfg[c].vregs[sd] \div HGV,
                       {<<Loc(x).v \div HGV, Units(KOf(x).v, HGV)>> : x \in {y \in hw : Loc(y).simd = sd - 1}})]
      a == AllocS(smask, Len(locs), Units(K.s, HGS), <<>>)
      lo == NextRegion(lmask, Units(K.l, HGL)) IN
  /\ a.ok /\ \A i \in 1..Len(locs) : a.offs[i] * HGS = locs[i].s
  /\ lo >= 0 /\ \A i \in 1..Len(locs) : lo * HGL = locs[i].l
  /\ VFits(locs, 1, Units(K.v, HGV), vms)
\* (with a small ToCUs port other dispatchers may hold reservations for parked work-groups that no event shows)
Examinable(ev) == pcap >= 4096 /\ ev.c \in 1..NCU /\ ev.k \in DOMAIN kern /\ Len(ev.locs) > 0 /\ Limited(ev.c)
                  /\ \A i \in 1..Len(ev.locs) : ev.locs[i][1] \in 0..(Len(cfg[ev.c].slots) - 1)
FFNext(ev) == IF ~Examinable(ev) THEN ff
              ELSE <<ff[1] + (IF FirstFit(ev) THEN 1 ELSE 0), ff[2] + 1>>
HeldAdd(ev) == IF ev.c \in 1..NCU THEN [held EXCEPT ![ev.c] = @ \cup {ev.m}] ELSE held
HeldDrop(ids) == [c \in 1..Len(held) |-> held[c] \ ids]

TLaunch  == Is("Launch") /\ L_Launch(Ev.k, DescOf(Ev)) /\ UNCHANGED <<wc, pcap, held, ff>>
TStart   == Is("Start") /\ L_Start(Ev.k) /\ UNCHANGED <<wc, pcap, held, ff>>
TMap     == /\ Is("MapWG") /\ L_Map(Ev.m, Ev.k, Ev.w, Ev.c, LocsOf(Ev), Ev.pid, IF Ev.al = 1 THEN {} ELSE {"map_shape"})
            /\ ff' = FFNext(Ev) /\ held' = HeldAdd(Ev) /\ UNCHANGED <<wc, pcap>>
TTakeMap == Is("TakeMap") /\ L_TakeMap(Ev.m) /\ UNCHANGED <<wc, pcap, held, ff>>
TComplete == Is("Complete") /\ L_Complete(Ev.mid, Ev.c, Range(Ev.ids)) /\ UNCHANGED <<wc, pcap, held, ff>>
TConsume == Is("Consume") /\ L_Consume(Ev.mid) /\ held' = HeldDrop(Head(cuIn).ids) /\ UNCHANGED <<wc, pcap, ff>>
\* a dispatcher took its share out of the head completion message and left the rest in the port
TStrip   == /\ Is("Strip") /\ cuIn # <<>> /\ Head(cuIn).mid = Ev.mid /\ L_Strip(Range(Ev.ids))
            /\ held' = HeldDrop(Range(Ev.ids)) /\ UNCHANGED <<wc, pcap, ff>>
TRsp     == Is("Rsp") /\ L_Rsp(Ev.k) /\ UNCHANGED <<wc, pcap, held, ff>>
TTakeRsp == Is("TakeRsp") /\ L_TakeRsp(Ev.k) /\ UNCHANGED <<wc, pcap, held, ff>>

\* The CP sleeps (no event pending).  Under a work-conserving placement it may not leave a work-group
\* waiting that an idle CU could hold (resources are all returned when a work-group finishes), unless its
\* ToCUs port is full; under any placement it may not sleep with a work-group waiting while nothing at all
\* is resident or in flight (nothing would ever wake it).
TIdle == /\ Is("Idle")
         /\ Len(toCU) < pcap => (IF wc = 1 THEN ~Starved ELSE ~Stuck)
         /\ UNCHANGED <<lvars, wc, pcap, held, ff>>

\* The harness drained every port, every CU reported everything, no event is pending: every launch
\* must have been answered.
TQuiesce == Is("Quiesce") /\ PortsQuiet /\ AllAnswered /\ UNCHANGED <<lvars, wc, pcap, held, ff>>

TNext == TReset \/ TLaunch \/ TStart \/ TMap \/ TTakeMap \/ TComplete \/ TConsume \/ TStrip \/ TRsp \/ TTakeRsp
         \/ TIdle \/ TQuiesce

TSpec == TInit /\ [][TNext]_tvars

Mark == HWNote(l) /\ (l = N + 1 => PrintT(<<"FIRSTFIT", ff[1], ff[2]>>))   \* CONSTRAINT: records progress
Accepted == HWReport(N)           \* POSTCONDITION
=============================================================================
