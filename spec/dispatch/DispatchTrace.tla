--------------------------- MODULE DispatchTrace ---------------------------
(***************************************************************************)
(* Trace specification: is a port-event log of the real                    *)
(* cp.CommandProcessor a behaviour of the port-level ledger, with the      *)
(* property's invariants holding in every state?                           *)
(*                                                                         *)
(*  log line      hook (port, position)                      ledger action *)
(*  Launch        ToDriver  Recvd            LaunchKernelReq  L_Launch     *)
(*  Start         ToDriver  RetrieveIncoming LaunchKernelReq  L_Start      *)
(*  MapWG         ToCUs     Send             MapWGReq         L_Map        *)
(*  TakeMap       ToCUs     RetrieveOutgoing MapWGReq         L_TakeMap    *)
(*  Complete      ToCUs     Recvd            WGCompletionMsg  L_Complete   *)
(*  Consume       ToCUs     RetrieveIncoming WGCompletionMsg  L_Consume    *)
(*  Rsp           ToDriver  Send             LaunchKernelRsp  L_Rsp        *)
(*  TakeRsp       ToDriver  RetrieveOutgoing LaunchKernelRsp  L_TakeRsp    *)
(*  Idle          the engine has no event left: the CP went to sleep       *)
(*  Quiesce       Idle, and the harness has drained every port and CU      *)
(*  Panic         the CP panicked: never a behaviour                       *)
(***************************************************************************)
EXTENDS DispatchLedger, TraceLib, Json

TraceLog == ndJsonDeserialize("trace.ndjson")
N == Len(TraceLog)

VARIABLES l,    \* position in TraceLog
          wc    \* 1: the placement algorithm of the run is work-conserving (round-robin, greedy); 0: partition
tvars == <<lvars, l, wc>>

ASSUME HWInit

Ev == TraceLog[l]
Is(e) == l <= N /\ Ev.e = e /\ l' = l + 1

CfgOf(cs) == [i \in 1..Len(cs) |-> [slots |-> cs[i].slots, sregs |-> cs[i].sregs, vregs |-> cs[i].vregs, lds |-> cs[i].lds]]
EmptyCfg == <<>>

TInit == L_Init(EmptyCfg) /\ l = 1 /\ wc = 1

TReset == Is("Reset") /\ L_Reset(CfgOf(Ev.cus)) /\ wc' = Ev.wc

DescOf(ev) ==
  LET ids == {ev.wgs[i][1] : i \in 1..Len(ev.wgs)} IN
  [wgs |-> ids,
   nwf |-> [w \in ids |-> ev.wgs[CHOOSE i \in 1..Len(ev.wgs) : ev.wgs[i][1] = w][2]],
   s |-> ev.s, v |-> ev.v, l |-> ev.l, pid |-> ev.pid, st |-> "queued", fit |-> Range(ev.fit)]

LocsOf(ev) == [i \in 1..Len(ev.locs) |-> [simd |-> ev.locs[i][1], s |-> ev.locs[i][2], v |-> ev.locs[i][3], l |-> ev.locs[i][4]]]

TLaunch  == Is("Launch") /\ L_Launch(Ev.k, DescOf(Ev)) /\ UNCHANGED wc
TStart   == Is("Start") /\ L_Start(Ev.k) /\ UNCHANGED wc
TMap     == Is("MapWG") /\ L_Map(Ev.m, Ev.k, Ev.w, Ev.c, LocsOf(Ev), Ev.pid, IF Ev.al = 1 THEN {} ELSE {"map_shape"}) /\ UNCHANGED wc
TTakeMap == Is("TakeMap") /\ L_TakeMap(Ev.m) /\ UNCHANGED wc
TComplete == Is("Complete") /\ L_Complete(Ev.mid, Ev.c, Range(Ev.ids)) /\ UNCHANGED wc
TConsume == Is("Consume") /\ L_Consume(Ev.mid) /\ UNCHANGED wc
TRsp     == Is("Rsp") /\ L_Rsp(Ev.k) /\ UNCHANGED wc
TTakeRsp == Is("TakeRsp") /\ L_TakeRsp(Ev.k) /\ UNCHANGED wc

\* The CP sleeps (no event pending).  Under a work-conserving placement it may not leave a work-group
\* waiting that an idle CU could hold (resources are all returned when a work-group finishes), unless its
\* ToCUs port is full; under any placement it may not sleep with a work-group waiting while nothing at all
\* is resident or in flight (nothing would ever wake it).
TIdle == /\ Is("Idle")
         /\ Len(toCU) < 4096 => (IF wc = 1 THEN ~Starved ELSE ~Stuck)
         /\ UNCHANGED <<lvars, wc>>

\* The harness drained every port, every CU reported everything, no event is pending: every launch
\* must have been answered.
TQuiesce == Is("Quiesce") /\ PortsQuiet /\ AllAnswered /\ UNCHANGED <<lvars, wc>>

TNext == TReset \/ TLaunch \/ TStart \/ TMap \/ TTakeMap \/ TComplete \/ TConsume \/ TRsp \/ TTakeRsp
         \/ TIdle \/ TQuiesce

TSpec == TInit /\ [][TNext]_tvars

Mark == HWNote(l)                 \* CONSTRAINT: records progress
Accepted == HWReport(N)           \* POSTCONDITION
=============================================================================
