SPECIFICATION SSpec
CONSTANTS
  CUs <- SCUs2
  GS = 2
  GV = 2
  GL = 4
  NDisp = 2
  Alg = "rr"
  Kernels <- SKernelsB
  MaxLaunch = 2
  Batch = "cross"
  Deviations <- AsImplemented
  PortCap = 2
INVARIANTS NoPanic
CHECK_DEADLOCK FALSE
