SPECIFICATION SSpec
CONSTANTS
  CUs <- SCUs2
  GS = 2
  GV = 2
  GL = 4
  NDisp = 2
  Alg = "rr"
  Kernels <- SKernelsP
  MaxLaunch = 2
  Batch = "single"
  Deviations <- ParkedDev
  PortCap = 1
INVARIANTS RspOnceAfterAll
CHECK_DEADLOCK FALSE
