SPECIFICATION Spec
CONSTANTS
  CUs <- MCCUs3
  GS = 2
  GV = 2
  GL = 4
  NDisp = 2
  Alg = "rr"
  Kernels <- MCKernels3
  MaxLaunch = 2
  Batch = "cross"
  Deviations <- NoDev
  PortCap = 1
INVARIANTS TypeOK ExactlyOnce MapWellFormed WithinCapacity NoOverlap RspOnceAfterAll
  NoOverlapFull WithinCapacityFull ExactlyOnceFull RspFull
  MaskConsistent AllReturned ReservedCoversLive CountersAgree NoPanic NeverStarved QuietMeansAnswered
CHECK_DEADLOCK FALSE
