SPECIFICATION Spec
CONSTANTS
  Cap = 3
  PortCap = 3
  Payloads <- MCPayloads
  RspData <- MCRspData
  MaxReq = 5
  MaxFlush = 2
INVARIANTS TypeOK InOrder ExactlyOnce NoGhost Bounded RspPayload AllAnswered
CHECK_DEADLOCK FALSE
