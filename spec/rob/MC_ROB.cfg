SPECIFICATION Spec
CONSTANTS
  Cap = 2
  PortCap = 2
  Payloads <- MCPayloads
  RspData <- MCRspData
  MaxReq = 3
  MaxFlush = 1
INVARIANTS TypeOK InOrder ExactlyOnce NoGhost Bounded RspPayload AllAnswered
CHECK_DEADLOCK FALSE
