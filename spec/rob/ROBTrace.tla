----------------------------- MODULE ROBTrace -----------------------------
(***************************************************************************)
(* Trace specification: is a port-event log of the real rob.ReorderBuffer  *)
(* a behaviour of ROB?  One log line = one port hook event.  An            *)
(* implementation sub-step that shows up as two hook events (Send on       *)
(* Bottom + RetrieveIncoming on Top for one topDown) is accepted with the  *)
(* halves in either order; the spec action fires on the second half.       *)
(***************************************************************************)
EXTENDS ROB, TraceLib, Json

TraceLog == ndJsonDeserialize("trace.ndjson")
N == Len(TraceLog)

VARIABLES l,        \* position in TraceLog
          half,     \* pending half of a TopDown: [k |-> "none"|"fwd"|"acc", id, p]
          mode,     \* "run" | "ack" (CtrlRsp seen, CtrlTake pending)
          drainTop, drainBot, \* what a restart still has to pull out of Top / Bottom
          cap       \* configured capacity of the run being validated (logged by Reset)
tvars == <<vars, l, half, mode, drainTop, drainBot, cap>>

ASSUME HWInit

Ev == TraceLog[l]
Is(e) == l <= N /\ Ev.e = e /\ l' = l + 1
NoHalf == [k |-> "none", id |-> 0, p |-> <<>>]
Quiet == half.k = "none" /\ mode = "run"
Same == UNCHANGED <<half, mode, drainTop, drainBot, cap>>

TInit == Init /\ l = 1 /\ half = NoHalf /\ mode = "run" /\ drainTop = <<>> /\ drainBot = <<>> /\ cap = 0

\* ------------------------------------------------------------ environment
TEnvReq   == Is("EnvReq") /\ EnvReq(Ev.id, Ev.p) /\ Same
TTakeDown == Is("EnvTakeDown") /\ botOut # <<>> /\ Head(botOut).id = Ev.id /\ EnvTakeDown /\ Same
TEnvRsp   == Is("EnvRsp") /\ EnvRsp(Ev.id, Ev.d) /\ Same
TTakeUp   == Is("EnvTakeUp") /\ topOut # <<>> /\ Head(topOut).to = Ev.id /\ EnvTakeUp /\ Same
TEnvCtrl  == Is("EnvCtrl") /\ EnvCtrl(Ev.k) /\ Same
TTakeCtrl == Is("EnvTakeCtrl") /\ EnvTakeCtrl /\ Same

\* -------------------------------------------------------------- component
TForward ==
  /\ Is("Forward") /\ mode = "run"
  /\ IF half.k = "none"
     THEN /\ half' = [k |-> "fwd", id |-> Ev.id, p |-> Ev.p]
          /\ UNCHANGED <<vars, mode, drainTop, drainBot, cap>>
     ELSE /\ half.k = "acc"
          /\ TopDown(half.id, Ev.id)
          /\ Head(topIn).p = Ev.p                  \* payload preserved downwards
          /\ half' = NoHalf /\ UNCHANGED <<mode, drainTop, drainBot, cap>>

TAccept ==
  /\ Is("Accept")
  /\ IF mode = "ack"
     THEN \* restart() pulling leftovers out of Top
          /\ drainTop # <<>> /\ Head(drainTop) = Ev.id
          /\ drainTop' = Tail(drainTop) /\ UNCHANGED <<vars, half, mode, drainBot, cap>>
     ELSE IF half.k = "none"
     THEN /\ half' = [k |-> "acc", id |-> Ev.id, p |-> <<>>]
          /\ UNCHANGED <<vars, mode, drainTop, drainBot, cap>>
     ELSE /\ half.k = "fwd"
          /\ TopDown(Ev.id, half.id)
          /\ Head(topIn).p = half.p
          /\ half' = NoHalf /\ UNCHANGED <<mode, drainTop, drainBot, cap>>

TParse ==
  /\ Is("ParseBottom")
  /\ IF mode = "ack"
     THEN /\ drainBot # <<>> /\ Head(drainBot) = Ev.id
          /\ drainBot' = Tail(drainBot) /\ UNCHANGED <<vars, half, mode, drainTop, cap>>
     ELSE /\ half.k = "none" /\ ParseBottom(Ev.id) /\ Head(botIn).data = Ev.d /\ Same

TBottomUp ==
  /\ Is("BottomUp") /\ Quiet /\ BottomUp(Ev.id)
  /\ Head(trans).data = Ev.d                      \* lower level's payload returned upwards
  /\ Same

TCtrlRsp ==
  /\ Is("CtrlRsp") /\ Quiet /\ ctrlIn # <<>>
  /\ \/ /\ Head(ctrlIn) = "discard" /\ Discard
        /\ drainTop' = <<>> /\ drainBot' = <<>>
     \/ /\ Head(ctrlIn) = "restart" /\ Restart
        /\ drainTop' = [i \in 1..Len(topIn) |-> topIn[i].id]
        /\ drainBot' = [i \in 1..Len(botIn) |-> botIn[i].to]
  /\ mode' = "ack" /\ UNCHANGED <<half, cap>>

TCtrlTake ==
  /\ Is("CtrlTake") /\ mode = "ack" /\ drainTop = <<>> /\ drainBot = <<>>
  /\ mode' = "run" /\ UNCHANGED <<vars, half, drainTop, drainBot, cap>>

\* The driver drained every port, answered every outstanding request and ran the
\* engine until no event was pending: the component must have nothing left to do.
TQuiesce ==
  /\ Is("Quiesce") /\ Quiet /\ Quiescent /\ RetiredIds = Kept
  /\ UNCHANGED vars /\ Same

\* concatenated traces: start over
TReset == Is("Reset") /\ Quiet
          /\ topIn' = <<>> /\ trans' = <<>> /\ botOut' = <<>> /\ outstanding' = {}
          /\ botIn' = <<>> /\ topOut' = <<>> /\ ctrlIn' = <<>> /\ ctrlOut' = 0
          /\ flushing' = FALSE /\ accepted' = <<>> /\ retired' = <<>> /\ discarded' = {}
          /\ lowerRsp' = <<>> /\ botOf' = <<>> /\ usedTop' = {} /\ usedBot' = {} /\ nFlush' = 0
          /\ cap' = Ev.cap /\ UNCHANGED <<half, mode, drainTop, drainBot>>

TNext == TEnvReq \/ TTakeDown \/ TEnvRsp \/ TTakeUp \/ TEnvCtrl \/ TTakeCtrl
         \/ TForward \/ TAccept \/ TParse \/ TBottomUp \/ TCtrlRsp \/ TCtrlTake
         \/ TQuiesce \/ TReset

TSpec == TInit /\ [][TNext]_tvars

TBounded == Len(trans) <= cap    \* never more than the configured capacity in flight

Mark == HWNote(l)                 \* CONSTRAINT: records progress
Accepted == HWReport(N)           \* POSTCONDITION
=============================================================================
