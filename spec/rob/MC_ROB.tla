------------------------------ MODULE MC_ROB ------------------------------
EXTENDS ROB
MCPayloads == {[k |-> "r", a |-> 64, n |-> 4, d |-> <<>>, m |-> <<>>, pid |-> 1],
               [k |-> "w", a |-> 128, n |-> 4, d |-> <<9,9,9,9>>, m |-> <<1,0,1,0>>, pid |-> 2]}
MCRspData == {<<7>>, <<8>>}
MCRspData1 == {<<7>>}
\* observation/history variables are excluded from the state view only where they cannot influence behaviour
=============================================================================
