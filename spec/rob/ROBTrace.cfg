SPECIFICATION TSpec
CONSTANTS
  Cap = 1000000
  PortCap = 1000000
  Payloads = {}
  RspData = {}
  MaxReq = 0
  MaxFlush = 0
INVARIANTS InOrder ExactlyOnce NoGhost TBounded RspPayload
CONSTRAINT Mark
POSTCONDITION Accepted
CHECK_DEADLOCK FALSE
