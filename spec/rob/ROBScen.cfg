SPECIFICATION SSpec
CONSTANTS
  Cap = 2
  PortCap = 3
  Payloads <- MCPayloads
  RspData <- MCRspData
  MaxReq = 6
  MaxFlush = 2
INVARIANTS InOrder ExactlyOnce NoGhost Bounded RspPayload
CHECK_DEADLOCK FALSE
