------------------------------- MODULE ROB -------------------------------
(***************************************************************************)
(* Reorder buffer (amd/timing/rob/rob.go).                                 *)
(*                                                                         *)
(* One action per sub-step of ReorderBuffer.Tick (topDown, parseBottom,    *)
(* bottomUp, discardTransactions, restart); the order of sub-steps inside  *)
(* a tick and the per-cycle width are left free, so any tick of the        *)
(* implementation is one interleaving of these actions.  The environment   *)
(* (requester above, memory below, controller) is explicit: it may delay,  *)
(* reorder responses and apply back-pressure on every port.                *)
(*                                                                         *)
(* Requests carry a payload record (kind, address, size, data digest, mask *)
(* digest, pid); responses carry a data digest.                            *)
(***************************************************************************)
EXTENDS Integers, Sequences, FiniteSets, TLC

CONSTANTS Cap,        \* bufferSize
          PortCap,    \* capacity of each port buffer (back-pressure); large for trace validation
          Payloads,   \* set of request payload records the environment may issue (MC only)
          RspData,    \* set of response data digests the lower level may answer with (MC only)
          MaxReq,     \* bound on the number of requests issued (MC only)
          MaxFlush    \* bound on discard/restart rounds (MC only)

VARIABLES
  topIn,       \* Seq of [id, p]            requests waiting in Top.incoming
  trans,       \* Seq of [top, p, bot, rsp, data]  accepted, in accept order
  botOut,      \* Seq of [id, p]            forwarded requests in Bottom.outgoing
  outstanding, \* set of [id, p]            requests the lower level owes an answer for
  botIn,       \* Seq of [to, data]         responses waiting in Bottom.incoming
  topOut,      \* Seq of [to, data]         responses in Top.outgoing
  ctrlIn,      \* Seq of "discard"|"restart" waiting in Control.incoming
  ctrlOut,     \* Nat                        acknowledgements in Control.outgoing
  flushing,
  \* history
  accepted,    \* Seq of top ids in accept order
  retired,     \* Seq of [to, data] in retire order
  discarded,   \* set of top ids dropped by a flush
  lowerRsp,    \* function bottom id -> data the lower level answered with
  botOf,       \* function top id -> bottom id
  usedTop, usedBot, nFlush

vars == <<topIn,trans,botOut,outstanding,botIn,topOut,ctrlIn,ctrlOut,flushing,
          accepted,retired,discarded,lowerRsp,botOf,usedTop,usedBot,nFlush>>

NoData == -1

Init ==
  /\ topIn = <<>> /\ trans = <<>> /\ botOut = <<>> /\ outstanding = {}
  /\ botIn = <<>> /\ topOut = <<>> /\ ctrlIn = <<>> /\ ctrlOut = 0
  /\ flushing = FALSE /\ accepted = <<>> /\ retired = <<>> /\ discarded = {}
  /\ lowerRsp = <<>> /\ botOf = <<>> /\ usedTop = {} /\ usedBot = {} /\ nFlush = 0

Ids(s) == {s[i].id : i \in 1..Len(s)}

\* ---------------------------------------------------------------- component
\* topDown(): accept the head request of Top, forward a duplicate with a fresh id.
TopDown(t, b) ==
  /\ ~flushing
  /\ topIn # <<>> /\ Head(topIn).id = t
  /\ Len(trans) < Cap
  /\ Len(botOut) < PortCap
  /\ b \notin usedBot /\ usedBot' = usedBot \cup {b}
  /\ topIn' = Tail(topIn)
  /\ trans' = Append(trans, [top |-> t, p |-> Head(topIn).p, bot |-> b, rsp |-> FALSE, data |-> NoData])
  /\ botOut' = Append(botOut, [id |-> b, p |-> Head(topIn).p])
  /\ accepted' = Append(accepted, t)
  /\ botOf' = botOf @@ (t :> b)
  /\ UNCHANGED <<outstanding,botIn,topOut,ctrlIn,ctrlOut,flushing,retired,discarded,lowerRsp,usedTop,nFlush>>

\* parseBottom(): take the head response of Bottom; responses to unknown ids are dropped.
ParseBottom(b) ==
  /\ ~flushing
  /\ botIn # <<>> /\ Head(botIn).to = b
  /\ botIn' = Tail(botIn)
  /\ trans' = [i \in 1..Len(trans) |->
                 IF trans[i].bot = b THEN [trans[i] EXCEPT !.rsp = TRUE, !.data = Head(botIn).data]
                 ELSE trans[i]]
  /\ UNCHANGED <<topIn,botOut,outstanding,topOut,ctrlIn,ctrlOut,flushing,accepted,retired,discarded,lowerRsp,botOf,usedTop,usedBot,nFlush>>

\* bottomUp(): retire the oldest transaction if (and only if) it has its response.
BottomUp(t) ==
  /\ ~flushing
  /\ trans # <<>> /\ Head(trans).rsp /\ Head(trans).top = t
  /\ Len(topOut) < PortCap
  /\ trans' = Tail(trans)
  /\ topOut' = Append(topOut, [to |-> t, data |-> Head(trans).data])
  /\ retired' = Append(retired, [to |-> t, data |-> Head(trans).data])
  /\ UNCHANGED <<topIn,botOut,outstanding,botIn,ctrlIn,ctrlOut,flushing,accepted,discarded,lowerRsp,botOf,usedTop,usedBot,nFlush>>

\* discardTransactions(): acknowledge, forget every transaction, stop the pipeline.
Discard ==
  /\ ctrlIn # <<>> /\ Head(ctrlIn) = "discard"
  /\ ctrlOut < PortCap
  /\ ctrlIn' = Tail(ctrlIn) /\ ctrlOut' = ctrlOut + 1
  /\ flushing' = TRUE
  /\ discarded' = discarded \cup {trans[i].top : i \in 1..Len(trans)}
  /\ trans' = <<>>
  /\ UNCHANGED <<topIn,botOut,outstanding,botIn,topOut,accepted,retired,lowerRsp,botOf,usedTop,usedBot,nFlush>>

\* restart(): acknowledge, forget everything including whatever waits in Top and Bottom.
Restart ==
  /\ ctrlIn # <<>> /\ Head(ctrlIn) = "restart"
  /\ ctrlOut < PortCap
  /\ ctrlIn' = Tail(ctrlIn) /\ ctrlOut' = ctrlOut + 1
  /\ flushing' = FALSE
  /\ discarded' = discarded \cup {trans[i].top : i \in 1..Len(trans)} \cup Ids(topIn)
  /\ trans' = <<>> /\ topIn' = <<>> /\ botIn' = <<>>
  /\ UNCHANGED <<botOut,outstanding,topOut,accepted,retired,lowerRsp,botOf,usedTop,usedBot,nFlush>>

\* -------------------------------------------------------------- environment
EnvReq(t, p) ==
  /\ t \notin usedTop /\ usedTop' = usedTop \cup {t}
  /\ Len(topIn) < PortCap
  /\ topIn' = Append(topIn, [id |-> t, p |-> p])
  /\ UNCHANGED <<trans,botOut,outstanding,botIn,topOut,ctrlIn,ctrlOut,flushing,accepted,retired,discarded,lowerRsp,botOf,usedBot,nFlush>>

EnvTakeDown ==          \* the lower level receives a forwarded request
  /\ botOut # <<>>
  /\ outstanding' = outstanding \cup {Head(botOut)} /\ botOut' = Tail(botOut)
  /\ UNCHANGED <<topIn,trans,botIn,topOut,ctrlIn,ctrlOut,flushing,accepted,retired,discarded,lowerRsp,botOf,usedTop,usedBot,nFlush>>

EnvRsp(b, d) ==         \* the lower level answers any outstanding request, in any order
  /\ \E o \in outstanding : o.id = b /\ outstanding' = outstanding \ {o}
  /\ Len(botIn) < PortCap
  /\ botIn' = Append(botIn, [to |-> b, data |-> d])
  /\ lowerRsp' = lowerRsp @@ (b :> d)
  /\ UNCHANGED <<topIn,trans,botOut,topOut,ctrlIn,ctrlOut,flushing,accepted,retired,discarded,botOf,usedTop,usedBot,nFlush>>

EnvTakeUp ==            \* the requester receives a response
  /\ topOut # <<>> /\ topOut' = Tail(topOut)
  /\ UNCHANGED <<topIn,trans,botOut,outstanding,botIn,ctrlIn,ctrlOut,flushing,accepted,retired,discarded,lowerRsp,botOf,usedTop,usedBot,nFlush>>

EnvCtrl(k) ==           \* the controller follows the flush protocol: discard, then restart
  /\ ctrlIn = <<>>
  /\ k = IF flushing THEN "restart" ELSE "discard"
  /\ ctrlIn' = <<k>>
  /\ nFlush' = nFlush + (IF k = "discard" THEN 1 ELSE 0)
  /\ UNCHANGED <<topIn,trans,botOut,outstanding,botIn,topOut,ctrlOut,flushing,accepted,retired,discarded,lowerRsp,botOf,usedTop,usedBot>>

EnvTakeCtrl ==
  /\ ctrlOut > 0 /\ ctrlOut' = ctrlOut - 1
  /\ UNCHANGED <<topIn,trans,botOut,outstanding,botIn,topOut,ctrlIn,flushing,accepted,retired,discarded,lowerRsp,botOf,usedTop,usedBot,nFlush>>

\* ---------------------------------------------------------------- MC next
NextTop == Cardinality(usedTop) + 1
NextBot == 100 + Cardinality(usedBot) + 1

CompNext ==
  \/ \E t \in usedTop : TopDown(t, NextBot) \/ BottomUp(t)
  \/ \E b \in usedBot : ParseBottom(b)
  \/ Discard \/ Restart

EnvNext ==
  \/ (NextTop <= MaxReq /\ \E p \in Payloads : EnvReq(NextTop, p))
  \/ EnvTakeDown \/ EnvTakeUp \/ EnvTakeCtrl
  \/ \E b \in usedBot, d \in RspData : EnvRsp(b, d)
  \/ \E k \in {"discard", "restart"} : (k = "discard" => nFlush < MaxFlush) /\ EnvCtrl(k)

Next == CompNext \/ EnvNext

Fairness == /\ WF_vars(\E t \in usedTop : TopDown(t, NextBot)) /\ WF_vars(\E t \in usedTop : BottomUp(t))
            /\ WF_vars(\E b \in usedBot : ParseBottom(b)) /\ WF_vars(Discard) /\ WF_vars(Restart)
            /\ WF_vars(EnvTakeDown) /\ WF_vars(EnvTakeUp) /\ WF_vars(EnvTakeCtrl)
            /\ WF_vars(\E b \in usedBot, d \in RspData : EnvRsp(b, d))
            /\ WF_vars(EnvCtrl("restart"))

Spec == Init /\ [][Next]_vars
FairSpec == Spec /\ Fairness

\* -------------------------------------------------------------- properties
IsPrefix(s, t) == Len(s) <= Len(t) /\ \A i \in 1..Len(s) : s[i] = t[i]
Kept == SelectSeq(accepted, LAMBDA t : t \notin discarded)
RetiredIds == [i \in 1..Len(retired) |-> retired[i].to]

\* responses leave in accept order (requests dropped by a flush excepted)
InOrder == IsPrefix(RetiredIds, Kept)
\* one response per request at most; never for a discarded request
ExactlyOnce == \A i, j \in 1..Len(retired) : i # j => retired[i].to # retired[j].to
NoGhost == \A i \in 1..Len(retired) : retired[i].to \notin discarded
\* capacity
Bounded == Len(trans) <= Cap
\* the response carries the lower level's payload for the duplicate of that very request
RspPayload == \A i \in 1..Len(retired) :
                 LET t == retired[i].to IN
                 /\ t \in DOMAIN botOf
                 /\ botOf[t] \in DOMAIN lowerRsp
                 /\ retired[i].data = lowerRsp[botOf[t]]
\* quiescent = nothing left to do for component or environment
Quiescent == /\ topIn = <<>> /\ trans = <<>> /\ botOut = <<>> /\ outstanding = {}
             /\ botIn = <<>> /\ topOut = <<>> /\ ctrlIn = <<>> /\ ctrlOut = 0 /\ ~flushing
\* when quiescent, every kept request was answered
AllAnswered == Quiescent => RetiredIds = Kept
\* every accepted, non-discarded request is eventually answered
Progress == \A t \in 1..MaxReq : [](t \in usedTop => <>(t \in discarded \/ \E i \in 1..Len(retired) : retired[i].to = t))

TypeOK == /\ Len(trans) <= Cap /\ flushing \in BOOLEAN /\ ctrlOut \in 0..PortCap
=============================================================================
