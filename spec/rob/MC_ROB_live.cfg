SPECIFICATION FairSpec
CONSTANTS
  Cap = 2
  PortCap = 2
  Payloads <- MCPayloads
  RspData <- MCRspData1
  MaxReq = 2
  MaxFlush = 1
PROPERTIES Progress
CHECK_DEADLOCK FALSE
