----------------------------- MODULE ROBScen -----------------------------
(* ROB with a history variable naming the step taken: `tlc -simulate` on   *)
(* this module yields behaviours whose environment steps become replay     *)
(* scenarios for the real component (component steps become "await").      *)
EXTENDS ROB
VARIABLE act
MCPayloads == {[k |-> "r", a |-> 64,  n |-> 4, d |-> <<>>, m |-> <<>>, pid |-> 1],
               [k |-> "r", a |-> 128, n |-> 8, d |-> <<>>, m |-> <<>>, pid |-> 2],
               [k |-> "w", a |-> 64,  n |-> 4, d |-> <<9,8,7,6>>, m |-> <<1,0,1,1>>, pid |-> 1],
               [k |-> "w", a |-> 192, n |-> 2, d |-> <<5,4>>, m |-> <<1,1>>, pid |-> 2]}
MCRspData == {<<7,7,1,2>>, <<8,0,0,8>>}

SInit == Init /\ act = [a |-> "Init"]
SNext ==
  \/ \E t \in usedTop : TopDown(t, NextBot) /\ act' = [a |-> "Await", e |-> "Forward"]
  \/ \E t \in usedTop : BottomUp(t) /\ act' = [a |-> "Await", e |-> "BottomUp"]
  \/ \E b \in usedBot : ParseBottom(b) /\ act' = [a |-> "Await", e |-> "ParseBottom"]
  \/ (Discard \/ Restart) /\ act' = [a |-> "Await", e |-> "CtrlTake"]
  \/ (NextTop <= MaxReq /\ \E p \in Payloads : EnvReq(NextTop, p) /\ act' = [a |-> "EnvReq", p |-> p])
  \/ EnvTakeDown /\ act' = [a |-> "EnvTakeDown"]
  \/ EnvTakeUp /\ act' = [a |-> "EnvTakeUp"]
  \/ EnvTakeCtrl /\ act' = [a |-> "EnvTakeCtrl"]
  \/ \E b \in usedBot, d \in RspData : EnvRsp(b, d) /\ act' = [a |-> "EnvRsp", b |-> b, d |-> d]
  \/ \E k \in {"discard", "restart"} : (k = "discard" => nFlush < MaxFlush) /\ EnvCtrl(k) /\ act' = [a |-> "EnvCtrl", k |-> k]
SSpec == SInit /\ [][SNext]_<<vars, act>>
=============================================================================
