SPECIFICATION TSpec
CONSTANTS
  NGPU = 3
  PortCap = 1000000
  PT0MC <- NoPT
  PPagesMC <- NoPP
  MaxReq = 0
  MaxHost = 0
  ReleaseSrcEarly = FALSE
  ReplySlot = "overwrite"
INVARIANTS NoReplyDropped ContentsPreserved TableMapsToDestination NoAlias HeldApart OthersUnchanged CopyOnlyWhenQuiet OnePageAtATime HandshakeOrder ReplyOnce
CONSTRAINT Mark
POSTCONDITION Accepted
CHECK_DEADLOCK FALSE
