SPECIFICATION Spec
CONSTANTS
  GPUs = {1, 2, 3}
  Unit = 1
  PortCap = 1
  MCFrames <- Frames3
  FrameChunks = 2
  MaxMig = 2
  Serial = TRUE
  Requesters = {1, 2, 3}
  MCPages <- Pages2
  SkipZero = FALSE
  AcceptGuard = "handling"
INVARIANTS TypeOK ContentsCopied NothingElseChanged CompleteOnce OneAtATime RoutedBack InRange AllServed
CHECK_DEADLOCK FALSE
