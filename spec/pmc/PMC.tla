------------------------------- MODULE PMC -------------------------------
(***************************************************************************)
(* Page migration controllers (amd/timing/pagemigrationcontroller/pmc.go). *)
(*                                                                         *)
(* One PMC per GPU.  A PMC plays two roles at once:                        *)
(*   requester: accepts a PageMigrationReqToPMC from its control port,     *)
(*              pulls the page chunk by chunk from the owner's PMC, writes *)
(*              every returned chunk into its local memory and reports     *)
(*              completion once every write is acknowledged;               *)
(*   owner:     turns every DataPullReq into a local memory read and       *)
(*              returns the data in a DataPullRsp.                         *)
(*                                                                         *)
(* One action per port-visible sub-step of PageMigrationController.Tick    *)
(* (the internal slices between two sub-steps of one tick are folded into  *)
(* the action that ends at a port operation); the order of sub-steps in a  *)
(* tick, per-cycle widths and the order in which queued messages are sent  *)
(* are left free.  The environment is explicit: the control side (CP), the *)
(* inter-GPU network (delay, reordering, back-pressure) and the two memory  *)
(* controllers (any service order, any latency) with their storage.        *)
(*                                                                         *)
(* Addresses are byte addresses, a chunk is Unit bytes, data is a sequence *)
(* of Unit bytes.                                                          *)
(***************************************************************************)
EXTENDS Integers, Sequences, FiniteSets, TLC

CONSTANTS GPUs,        \* set of GPU numbers
          Unit,        \* bytes per transfer (onDemandPagingDataTransferSize; 64 in the code)
          PortCap,     \* capacity of every port buffer (1 in the code)
          MCFrames,    \* MC only: [g -> set of page frame base addresses]
          FrameChunks, \* MC only: chunks per page frame
          MaxMig,      \* MC only: bound on migration requests
          Serial,      \* MC only: TRUE = the driver's discipline, one migration in flight globally
          Requesters,  \* MC only: the GPUs whose PMC receives migration requests
          MCPages,     \* MC only: [g -> the frames of MCFrames[g] that hold a page initially]; the others are free
                       \*   frames with stale contents.  A migration moves a page into a free frame; afterwards the
                       \*   source frame is free and may be handed out again (A -> B -> A into reused frames)
          SkipZero,    \* named deviation: TRUE = a returned chunk that is all zero is not written ("the destination
                       \*   was just allocated and is zero") but counted as in place.  MC_PMC_skipzero.cfg must fail.
          AcceptGuard  \* "handling": the next request is taken when isHandlingPageMigration is false (the code)
                       \* "slot": ... when currentMigrationRequest is nil - a wrong guard kept as a named
                       \*   deviation: the two differ exactly while a completion is stalled on a full control
                       \*   port; MC_PMC_slot.cfg must find the counterexample (the environment reaches the window)

VARIABLES
  \* ---- requester side of PMC g
  ctrlIn,     \* [g -> Seq(req)]   control port, incoming buffer
  cur,        \* [g -> req]        currentMigrationRequest (NoReq if none)
  handling,   \* [g -> BOOLEAN]    isHandlingPageMigration
  toPull,     \* [g -> SUBSET Nat] chunk numbers whose DataPullReq is not sent yet (toPullFromAnotherPMC)
  wmap,       \* [g -> [id -> addr]] reqIDToWriteAddressMap
  pending,    \* [g -> Int]        numDataRspPendingForPageMigration (-1 = idle)
  writeQ,     \* [g -> Seq([addr, data])] writeReqLocalMemPort
  toCtrl,     \* [g -> Seq(req)]   toSendToCtrlPort (0 or 1 element: the request being reported)
  ctrlOut,    \* [g -> Seq(req)]   control port, outgoing buffer
  \* ---- owner side of PMC g
  readQ,      \* [g -> Seq([id, addr, n])] pulls received, read not sent yet (toSendLocalMemPort)
  requester,  \* [g -> GPU or 0]   requestingPMCtrlPort (source of the last pull received)
  rspQ,       \* [g -> Seq([id, data, dst])] toRspToAnotherPMC
  \* ---- ports shared by both roles
  remOut, remIn,   \* [g -> Seq(msg)] remote port
  memOut, memIn,   \* [g -> Seq(msg)] local memory port
  \* ---- environment
  net,        \* set of messages travelling between PMCs
  memPend,    \* [g -> set of memory requests received by the memory controller, unanswered]
  mem,        \* [g -> [addr -> byte]] storage behind the memory controller of GPU g
  \* ---- history
  issued,     \* [g -> Seq(req)]   requests delivered to PMC g
  accepted,   \* [g -> Seq(req)]   requests taken from the control port
  done,       \* [g -> Seq(req)]   requests reported complete (at the Send on the control port)
  usedIds,    \* message ids in use
  pullSrc,    \* [id -> g]         who sent pull id
  mem0        \* initial storage

reqv  == <<ctrlIn, cur, handling, toPull, wmap, pending, writeQ, toCtrl, ctrlOut>>
ownv  == <<readQ, requester, rspQ>>
portv == <<remOut, remIn, memOut, memIn>>
envv  == <<net, memPend, mem>>
histv == <<issued, accepted, done, usedIds, pullSrc, mem0>>
vars  == <<reqv, ownv, portv, envv, histv>>

\* snap: ghost - the contents of the source page when the request was issued
NoReq == [id |-> 0, from |-> 0, to |-> 0, n |-> 0, owner |-> 0, src |-> "", snap |-> <<>>]

Pull(id, s, d, a)   == [k |-> "pull", id |-> id, src |-> s, dst |-> d, addr |-> a, n |-> Unit, data |-> <<>>]
Data(id, s, d, dat) == [k |-> "data", id |-> id, src |-> s, dst |-> d, addr |-> 0, n |-> 0, data |-> dat]
Rd(id, a, n)        == [k |-> "r", id |-> id, addr |-> a, n |-> n, data |-> <<>>]
Wr(id, a, dat)      == [k |-> "w", id |-> id, addr |-> a, n |-> Len(dat), data |-> dat]
MRsp(k, id, dat)    == [k |-> k, id |-> id, data |-> dat]
RemoveAt(s, i) == SubSeq(s, 1, i - 1) \o SubSeq(s, i + 1, Len(s))

EmptyInit(memory) ==
  /\ ctrlIn = [g \in GPUs |-> <<>>] /\ cur = [g \in GPUs |-> NoReq]
  /\ handling = [g \in GPUs |-> FALSE] /\ toPull = [g \in GPUs |-> {}]
  /\ wmap = [g \in GPUs |-> <<>>] /\ pending = [g \in GPUs |-> -1]
  /\ writeQ = [g \in GPUs |-> <<>>] /\ toCtrl = [g \in GPUs |-> <<>>] /\ ctrlOut = [g \in GPUs |-> <<>>]
  /\ readQ = [g \in GPUs |-> <<>>] /\ requester = [g \in GPUs |-> 0] /\ rspQ = [g \in GPUs |-> <<>>]
  /\ remOut = [g \in GPUs |-> <<>>] /\ remIn = [g \in GPUs |-> <<>>]
  /\ memOut = [g \in GPUs |-> <<>>] /\ memIn = [g \in GPUs |-> <<>>]
  /\ net = {} /\ memPend = [g \in GPUs |-> {}] /\ mem = memory
  /\ issued = [g \in GPUs |-> <<>>] /\ accepted = [g \in GPUs |-> <<>>] /\ done = [g \in GPUs |-> <<>>]
  /\ usedIds = {} /\ pullSrc = <<>> /\ mem0 = memory

\* ============================================================ requester role
\* processFromCtrlPort + processPageMigrationReqFromCtrlPort (same tick): take the next
\* request only when no migration is being handled; split the page into chunks.
AcceptMig(g) ==
  /\ ctrlIn[g] # <<>>
  /\ IF AcceptGuard = "slot" THEN cur[g] = NoReq ELSE ~handling[g]
  /\ LET r == Head(ctrlIn[g]) IN
     /\ ctrlIn'   = [ctrlIn   EXCEPT ![g] = Tail(@)]
     /\ cur'      = [cur      EXCEPT ![g] = r]
     /\ accepted' = [accepted EXCEPT ![g] = Append(@, r)]
     /\ IF handling[g]   \* only reachable with the "slot" guard: the request sits in the slot, unstarted
        THEN UNCHANGED <<handling, toPull, pending>>
        ELSE /\ handling' = [handling EXCEPT ![g] = TRUE]
             /\ toPull'   = [toPull   EXCEPT ![g] = 0..(r.n - 1)]
             /\ pending'  = [pending  EXCEPT ![g] = r.n]
  /\ UNCHANGED <<wmap, writeQ, toCtrl, ctrlOut, ownv, portv, envv, issued, done, usedIds, pullSrc, mem0>>

\* sendMigrationReqToAnotherPMC: one DataPullReq for chunk c leaves through the remote port;
\* the write address of its answer is remembered under the request id.
SendPull(g, c, id) ==
  /\ c \in toPull[g] /\ Len(remOut[g]) < PortCap
  /\ id \notin usedIds /\ usedIds' = usedIds \cup {id}
  /\ remOut'  = [remOut EXCEPT ![g] = Append(@, Pull(id, g, cur[g].owner, cur[g].from + c * Unit))]
  /\ wmap'    = [wmap   EXCEPT ![g] = @ @@ (id :> cur[g].to + c * Unit)]
  /\ toPull'  = [toPull EXCEPT ![g] = @ \ {c}]
  /\ pullSrc' = pullSrc @@ (id :> g)
  /\ UNCHANGED <<ctrlIn, cur, handling, pending, writeQ, toCtrl, ctrlOut, ownv, remIn, memOut, memIn, envv,
                 issued, accepted, done, mem0>>

\* processFromOutside/handleDataPullRsp + processDataPullRsp: a returned chunk becomes a
\* local write at the address remembered for its id (unknown id: the code panics - no action).
\* one chunk of the page is in place (processWriteDoneRspFromMemCtrl's bookkeeping)
ChunkDone(g) ==
  IF pending[g] = 1
  THEN /\ pending' = [pending EXCEPT ![g] = -1]
       /\ toCtrl'  = [toCtrl  EXCEPT ![g] = <<cur[g]>>]
       /\ cur'     = [cur     EXCEPT ![g] = NoReq]
  ELSE /\ pending' = [pending EXCEPT ![g] = @ - 1]
       /\ UNCHANGED <<cur, toCtrl>>
AllZero(d) == \A i \in 1..Len(d) : d[i] = 0

RecvPullRsp(g) ==
  /\ remIn[g] # <<>> /\ Head(remIn[g]).k = "data"
  /\ LET m == Head(remIn[g]) IN
     /\ m.id \in DOMAIN wmap[g]
     /\ wmap'   = [wmap   EXCEPT ![g] = [i \in (DOMAIN @) \ {m.id} |-> @[i]]]
     /\ IF SkipZero /\ AllZero(m.data)
        THEN pending[g] > 0 /\ ChunkDone(g) /\ UNCHANGED writeQ
        ELSE /\ writeQ' = [writeQ EXCEPT ![g] = Append(@, [addr |-> wmap[g][m.id], data |-> m.data])]
             /\ UNCHANGED <<cur, pending, toCtrl>>
  /\ remIn' = [remIn EXCEPT ![g] = Tail(@)]
  /\ UNCHANGED <<ctrlIn, handling, toPull, ctrlOut, ownv, remOut, memOut, memIn, envv, histv>>

\* sendWriteReqLocalMemPort (the code sends in queue order; any queued write may go first here)
SendWrite(g, i, id) ==
  /\ i \in 1..Len(writeQ[g]) /\ Len(memOut[g]) < PortCap
  /\ id \notin usedIds /\ usedIds' = usedIds \cup {id}
  /\ memOut' = [memOut EXCEPT ![g] = Append(@, Wr(id, writeQ[g][i].addr, writeQ[g][i].data))]
  /\ writeQ' = [writeQ EXCEPT ![g] = RemoveAt(@, i)]
  /\ UNCHANGED <<ctrlIn, cur, handling, toPull, wmap, pending, toCtrl, ctrlOut, ownv, remOut, remIn, memIn, envv,
                 issued, accepted, done, pullSrc, mem0>>

\* sendMigrationCompleteRspToCtrlPort: report completion; only now the next request may be taken.
SendComplete(g) ==
  /\ toCtrl[g] # <<>> /\ Len(ctrlOut[g]) < PortCap
  /\ ctrlOut'  = [ctrlOut  EXCEPT ![g] = Append(@, Head(toCtrl[g]))]
  /\ toCtrl'   = [toCtrl   EXCEPT ![g] = <<>>]
  /\ handling' = [handling EXCEPT ![g] = FALSE]
  /\ cur'      = [cur      EXCEPT ![g] = NoReq]   \* the code clears the slot once more here
  /\ done'     = [done     EXCEPT ![g] = Append(@, Head(toCtrl[g]))]
  /\ UNCHANGED <<ctrlIn, toPull, wmap, pending, writeQ, ownv, portv, envv, issued, accepted, usedIds, pullSrc, mem0>>

\* ================================================================ owner role
\* processFromOutside/handleDataPullReq + processReadPageReqFromAnotherPMC
RecvPull(g) ==
  /\ remIn[g] # <<>> /\ Head(remIn[g]).k = "pull"
  /\ LET m == Head(remIn[g]) IN
     /\ readQ'     = [readQ     EXCEPT ![g] = Append(@, [id |-> m.id, addr |-> m.addr, n |-> m.n])]
     /\ requester' = [requester EXCEPT ![g] = m.src]
  /\ remIn' = [remIn EXCEPT ![g] = Tail(@)]
  /\ UNCHANGED <<reqv, rspQ, remOut, memOut, memIn, envv, histv>>

\* sendReadReqLocalMemPort: the read carries the id of the pull it serves
SendRead(g, i) ==
  /\ i \in 1..Len(readQ[g]) /\ Len(memOut[g]) < PortCap
  /\ memOut' = [memOut EXCEPT ![g] = Append(@, Rd(readQ[g][i].id, readQ[g][i].addr, readQ[g][i].n))]
  /\ readQ'  = [readQ  EXCEPT ![g] = RemoveAt(@, i)]
  /\ UNCHANGED <<reqv, requester, rspQ, remOut, remIn, memIn, envv, histv>>

\* sendDataReadyRspToRequestingPMC
SendPullRsp(g, i) ==
  /\ i \in 1..Len(rspQ[g]) /\ Len(remOut[g]) < PortCap
  /\ remOut' = [remOut EXCEPT ![g] = Append(@, Data(rspQ[g][i].id, g, rspQ[g][i].dst, rspQ[g][i].data))]
  /\ rspQ'   = [rspQ   EXCEPT ![g] = RemoveAt(@, i)]
  /\ UNCHANGED <<reqv, readQ, requester, remIn, memOut, memIn, envv, histv>>

\* ======================================================== both roles: memory replies
\* processFromMemCtrl + processDataReadyRspFromMemCtrl / processWriteDoneRspFromMemCtrl
RecvMem(g) ==
  /\ memIn[g] # <<>>
  /\ LET m == Head(memIn[g]) IN
     \/ /\ m.k = "d"       \* data for a pull: goes back to the PMC recorded as the requester
        /\ rspQ' = [rspQ EXCEPT ![g] = Append(@, [id |-> m.id, data |-> m.data, dst |-> requester[g]])]
        /\ UNCHANGED <<cur, pending, toCtrl>>
     \/ /\ m.k = "wd"      \* one chunk is in place (a write-done while idle: the code panics - no action)
        /\ pending[g] > 0 /\ ChunkDone(g)
        /\ UNCHANGED rspQ
  /\ memIn' = [memIn EXCEPT ![g] = Tail(@)]
  /\ UNCHANGED <<ctrlIn, handling, toPull, wmap, writeQ, ctrlOut, readQ, requester, remOut, remIn, memOut, envv, histv>>

\* =============================================================== environment
EnvMig(g, r) ==         \* the control side hands a migration request to PMC g
  /\ Len(ctrlIn[g]) < PortCap
  /\ r.id \notin usedIds /\ usedIds' = usedIds \cup {r.id}
  /\ r.n >= 1 /\ r.owner \in GPUs \ {g}
  /\ ctrlIn' = [ctrlIn EXCEPT ![g] = Append(@, r)]
  /\ issued' = [issued EXCEPT ![g] = Append(@, r)]
  /\ UNCHANGED <<cur, handling, toPull, wmap, pending, writeQ, toCtrl, ctrlOut, ownv, portv, envv,
                 accepted, done, pullSrc, mem0>>

TakeComplete(g) ==      \* the control side receives the completion
  /\ ctrlOut[g] # <<>> /\ ctrlOut' = [ctrlOut EXCEPT ![g] = Tail(@)]
  /\ UNCHANGED <<ctrlIn, cur, handling, toPull, wmap, pending, writeQ, toCtrl, ownv, portv, envv, histv>>

NetTake(g) ==           \* the network picks up the head of the remote port of g
  /\ remOut[g] # <<>>
  /\ net' = net \cup {Head(remOut[g])} /\ remOut' = [remOut EXCEPT ![g] = Tail(@)]
  /\ UNCHANGED <<reqv, ownv, remIn, memOut, memIn, memPend, mem, histv>>

NetDeliver(m) ==        \* ... and delivers any travelling message (any order, any delay)
  /\ m \in net /\ m.dst \in GPUs /\ Len(remIn[m.dst]) < PortCap
  /\ net' = net \ {m} /\ remIn' = [remIn EXCEPT ![m.dst] = Append(@, m)]
  /\ UNCHANGED <<reqv, ownv, remOut, memOut, memIn, memPend, mem, histv>>

MemTake(g) ==           \* memory controller g receives the head request
  /\ memOut[g] # <<>>
  /\ memPend' = [memPend EXCEPT ![g] = @ \cup {Head(memOut[g])}]
  /\ memOut' = [memOut EXCEPT ![g] = Tail(@)]
  /\ UNCHANGED <<reqv, ownv, remOut, remIn, memIn, net, mem, histv>>

InMem(g, a, n) == \A b \in 0..(n - 1) : (a + b) \in DOMAIN mem[g]
ReadMem(g, a, n) == [i \in 1..n |-> mem[g][a + i - 1]]

MemRsp(g, q) ==         \* ... executes any received request and answers it
  /\ q \in memPend[g] /\ Len(memIn[g]) < PortCap
  /\ InMem(g, q.addr, q.n)
  /\ memPend' = [memPend EXCEPT ![g] = @ \ {q}]
  /\ IF q.k = "r"
     THEN /\ memIn' = [memIn EXCEPT ![g] = Append(@, MRsp("d", q.id, ReadMem(g, q.addr, q.n)))]
          /\ UNCHANGED mem
     ELSE /\ memIn' = [memIn EXCEPT ![g] = Append(@, MRsp("wd", q.id, <<>>))]
          /\ mem' = [mem EXCEPT ![g] = [a \in q.addr..(q.addr + q.n - 1) |-> q.data[a - q.addr + 1]] @@ @]
  /\ UNCHANGED <<reqv, ownv, remOut, remIn, memOut, net, histv>>

\* ------------------------------------------------------------------ MC next
\* MC numbering of messages: deterministic in (request, chunk) so that the order in which ids are
\* drawn does not multiply states (the implementation draws them from a global generator)
NextReqId == 1 + Cardinality(UNION {{r.id : r \in {issued[g][i] : i \in 1..Len(issued[g])}} : g \in GPUs})
PullId(g, c)  == cur[g].id * 100 + c
WriteId(g, i) == cur[g].id * 100 + 50 + ((writeQ[g][i].addr - cur[g].to) \div Unit)
ReqsOf(s) == {s[i] : i \in 1..Len(s)}
AllIssued == UNION {ReqsOf(issued[g]) : g \in GPUs}
DoneAll == UNION {ReqsOf(done[g]) : g \in GPUs}
\* frame <<g, b>> holds a page: it did initially or a migration put one there, and no migration took it away since
Holds(g, b) == (IF b \in MCPages[g] THEN 1 ELSE 0)
               + Cardinality({r \in ReqsOf(done[g]) : r.to = b}) - Cardinality({r \in DoneAll : r.owner = g /\ r.from = b}) = 1
\* ... is the source or the destination of a migration that was issued and is not complete
InFlight(g, b) == \/ \E r \in ReqsOf(issued[g]) \ ReqsOf(done[g]) : r.to = b
                  \/ \E r \in AllIssued \ DoneAll : r.owner = g /\ r.from = b
SrcOK(g, b) == Holds(g, b) /\ ~InFlight(g, b)     \* a page that is not being moved
DstOK(g, b) == ~Holds(g, b) /\ ~InFlight(g, b)    \* a free frame (fresh or used before: stale contents)
Outstanding == \E g \in GPUs : Len(issued[g]) # Len(done[g])
NumIssued == Cardinality(AllIssued)

MCEnvMig ==
  /\ NumIssued < MaxMig
  /\ Serial => ~Outstanding
  /\ \E g \in Requesters, o \in GPUs, n \in 1..FrameChunks :
       /\ o # g
       /\ \E sb \in MCFrames[o], db \in MCFrames[g] :
            /\ SrcOK(o, sb) /\ DstOK(g, db)
            /\ EnvMig(g, [id |-> NextReqId, from |-> sb, to |-> db, n |-> n, owner |-> o, src |-> "CP",
                          snap |-> ReadMem(o, sb, n * Unit)])

CompNext ==
  \E g \in GPUs :
    \/ AcceptMig(g) \/ RecvPullRsp(g) \/ SendComplete(g) \/ RecvPull(g) \/ RecvMem(g)
    \/ \E c \in toPull[g] : SendPull(g, c, PullId(g, c))
    \/ \E i \in 1..Len(writeQ[g]) : SendWrite(g, i, WriteId(g, i))
    \/ \E i \in 1..Len(readQ[g]) : SendRead(g, i)
    \/ \E i \in 1..Len(rspQ[g]) : SendPullRsp(g, i)

EnvServe ==
  \/ \E g \in GPUs : TakeComplete(g) \/ NetTake(g) \/ MemTake(g) \/ \E q \in memPend[g] : MemRsp(g, q)
  \/ \E m \in net : NetDeliver(m)

Next == CompNext \/ EnvServe \/ MCEnvMig

\* every cell has a value of its own, except that the first chunk of every frame is all zero (frames start at
\* multiples of 8): pages have zero chunks, free frames hold non-zero garbage behind them
MCMem == [g \in GPUs |-> [a \in UNION {b..(b + FrameChunks * Unit - 1) : b \in MCFrames[g]} |->
            IF a % 8 < Unit /\ a - (a % 8) \in MCPages[g] THEN 0 ELSE 100 * g + a]]
Init == EmptyInit(MCMem)

Fairness ==
  /\ \A g \in GPUs :
       /\ WF_vars(AcceptMig(g)) /\ WF_vars(RecvPullRsp(g)) /\ WF_vars(SendComplete(g))
       /\ WF_vars(RecvPull(g)) /\ WF_vars(RecvMem(g))
       /\ WF_vars(\E c \in toPull[g] : SendPull(g, c, PullId(g, c)))
       /\ WF_vars(\E i \in 1..Len(writeQ[g]) : SendWrite(g, i, WriteId(g, i)))
       /\ WF_vars(\E i \in 1..Len(readQ[g]) : SendRead(g, i))
       /\ WF_vars(\E i \in 1..Len(rspQ[g]) : SendPullRsp(g, i))
       /\ WF_vars(TakeComplete(g)) /\ WF_vars(NetTake(g)) /\ WF_vars(MemTake(g))
       /\ WF_vars(\E q \in memPend[g] : MemRsp(g, q))
  /\ WF_vars(\E m \in net : NetDeliver(m))

Spec == Init /\ [][Next]_vars
FairSpec == Spec /\ Fairness

\* -------------------------------------------------------------- properties
IsPrefix(s, t) == Len(s) <= Len(t) /\ \A i \in 1..Len(s) : s[i] = t[i]
PageBytes(r) == 0..(r.n * Unit - 1)

\* a page reported complete is, byte for byte, the source page as it was when the request was issued - the WHOLE
\* page, whatever the destination frame held before (until a later request re-uses that frame)
ContentsCopied ==
  \A g \in GPUs : \A i \in 1..Len(done[g]) :
    LET r == done[g][i] IN
      (\A j \in (i + 1)..Len(issued[g]) : issued[g][j].to # r.to) =>
        \A b \in PageBytes(r) : mem[g][r.to + b] = r.snap[b + 1]

\* a cell only ever changes inside the destination page of an accepted migration, and only to
\* the byte of the source page that belongs there
NothingElseChanged ==
  \A g \in GPUs : \A a \in DOMAIN mem[g] :
    mem[g][a] # mem0[g][a] =>
      \E i \in 1..Len(accepted[g]) :
        LET r == accepted[g][i] IN
          /\ a >= r.to /\ a < r.to + r.n * Unit
          /\ mem[g][a] = r.snap[a - r.to + 1]

\* completion is reported once per request, in request order, never for a request not issued
CompleteOnce ==
  \A g \in GPUs : /\ IsPrefix(done[g], accepted[g]) /\ IsPrefix(accepted[g], issued[g])
                  /\ \A i, j \in 1..Len(done[g]) : i # j => done[g][i].id # done[g][j].id

\* one migration at a time per PMC: a request is accepted only after the previous one was reported
OneAtATime ==
  \A g \in GPUs : /\ Len(accepted[g]) = Len(done[g]) + (IF handling[g] THEN 1 ELSE 0)
                  /\ Len(toCtrl[g]) <= 1
                  /\ (pending[g] = -1) \/ (handling[g] /\ pending[g] >= 0)

\* the window in which the two accept guards differ: a completion waits behind an undrained one while the
\* next request already sits in the control port.  StalledWindow is only a reachability probe: the check
\* requires TLC to find it reachable (MC_PMC_window.cfg: "invariant" ~StalledWindow must be violated).
StalledWindow == \E g \in GPUs : toCtrl[g] # <<>> /\ Len(ctrlOut[g]) = PortCap /\ ctrlIn[g] # <<>>
NoStalledWindow == ~StalledWindow
\* ... and in that window nothing is taken from the control port
StalledWindowOK == \A g \in GPUs : (toCtrl[g] # <<>>) => (handling[g] /\ cur[g] = NoReq)

\* every returned chunk goes back to the PMC that asked for it
RoutedBack ==
  /\ \A g \in GPUs : \A i \in 1..Len(rspQ[g]) : rspQ[g][i].dst = pullSrc[rspQ[g][i].id]
  /\ \A m \in net : m.k = "data" => m.dst = pullSrc[m.id]

\* memory is only accessed inside the storage
InRange == \A g \in GPUs : \A q \in memPend[g] : InMem(g, q.addr, q.n)

Quiescent ==
  \A g \in GPUs :
    /\ ctrlIn[g] = <<>> /\ ~handling[g] /\ toPull[g] = {} /\ writeQ[g] = <<>> /\ toCtrl[g] = <<>>
    /\ ctrlOut[g] = <<>> /\ readQ[g] = <<>> /\ rspQ[g] = <<>> /\ remOut[g] = <<>> /\ remIn[g] = <<>>
    /\ memOut[g] = <<>> /\ memIn[g] = <<>> /\ memPend[g] = {} /\ net = {}

\* nothing is lost: when everything has drained, every request was reported complete
AllServed == Quiescent => \A g \in GPUs : done[g] = issued[g] /\ wmap[g] = <<>>

\* every request is eventually reported complete
Progress == \A g \in GPUs : \A k \in 1..MaxMig : (Len(issued[g]) >= k) ~> (Len(done[g]) >= k)

TypeOK == \A g \in GPUs : /\ handling[g] \in BOOLEAN /\ pending[g] \in -1..FrameChunks
                          /\ Len(ctrlIn[g]) <= PortCap /\ Len(remOut[g]) <= PortCap /\ Len(remIn[g]) <= PortCap
                          /\ Len(memOut[g]) <= PortCap /\ Len(memIn[g]) <= PortCap /\ Len(ctrlOut[g]) <= PortCap
=============================================================================
