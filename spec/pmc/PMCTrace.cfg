SPECIFICATION TSpec
CONSTANTS
  GPUs = {1, 2, 3}
  Unit = 64
  PortCap = 1000000
  MCFrames <- NoFrames
  FrameChunks = 0
  MaxMig = 0
  Serial = FALSE
  Requesters = {1, 2, 3}
  MCPages <- NoFrames
  SkipZero = FALSE
  AcceptGuard = "handling"
INVARIANTS TContentsCopied TNothingElseChanged CompleteOnce OneAtATime RoutedBack
CONSTRAINT Mark
POSTCONDITION Accepted
CHECK_DEADLOCK FALSE
