SPECIFICATION FairSpec
CONSTANTS
  GPUs = {1, 2}
  Unit = 1
  PortCap = 1
  MCFrames <- Frames2
  FrameChunks = 2
  MaxMig = 2
  Serial = TRUE
  Requesters = {1, 2}
  MCPages <- Pages1
  SkipZero = FALSE
  AcceptGuard = "handling"
PROPERTIES Progress
CHECK_DEADLOCK FALSE
