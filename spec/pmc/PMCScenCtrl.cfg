SPECIFICATION SSpec
CONSTANTS
  GPUs = {1, 2}
  Unit = 1
  PortCap = 1
  MCFrames <- ScenFrames
  FrameChunks = 2
  MaxMig = 3
  Serial = FALSE
  Requesters = {1}
  MCPages <- ScenPagesCtrl
  SkipZero = FALSE
  AcceptGuard = "handling"
  LazyCtrl = TRUE
INVARIANTS ContentsCopied NothingElseChanged CompleteOnce OneAtATime RoutedBack
CHECK_DEADLOCK FALSE
