------------------------------ MODULE MC_PMC ------------------------------
EXTENDS PMC
\* two page frames per GPU, FrameChunks chunks each
Frames2 == [g \in GPUs |-> {0, 8}]
Frames3 == [g \in GPUs |-> {0, 8, 16}]
\* history variables do not influence behaviour but the properties read them: no VIEW
=============================================================================
