------------------------------ MODULE MC_PMC ------------------------------
EXTENDS PMC
\* two page frames per GPU, FrameChunks chunks each
Frames2 == [g \in GPUs |-> {0, 8}]
Frames3 == [g \in GPUs |-> {0, 8, 16}]
Pages1 == [g \in GPUs |-> {0}]        \* one page per GPU, the other frames are free
Pages2 == [g \in GPUs |-> {0, 8}]
PagesCtrl == [g \in GPUs |-> IF g = 1 THEN {} ELSE {0, 8, 16}]   \* GPU 1 only receives pages
\* history variables do not influence behaviour but the properties read them: no VIEW
=============================================================================
