----------------------------- MODULE PMCTrace -----------------------------
(***************************************************************************)
(* Trace specification: is a port-event log of real                        *)
(* PageMigrationControllers (one per GPU, harness/cmd/c19) a behaviour of   *)
(* PMC?  One log line = one port hook event = one action of PMC with the   *)
(* logged arguments; the storage behind the scripted memory controllers is *)
(* the specification's `mem`, every byte the memories return and the final *)
(* storage dump are compared with it.                                      *)
(***************************************************************************)
EXTENDS PMC, TraceLib, Json

TraceLog == ndJsonDeserialize("trace.ndjson")
N == Len(TraceLog)

VARIABLES l,      \* position in TraceLog
          half    \* transfers whose delivery was logged before the pick-up: set of <<src, kind, id>>
tvars == <<vars, l, half>>

ASSUME HWInit

NoFrames == [g \in GPUs |-> {}]
Ev == TraceLog[l]
Is(e) == l <= N /\ Ev.e = e /\ l' = l + 1

TInit == EmptyInit([g \in GPUs |-> <<>>]) /\ l = 1 /\ half = {}
Same == UNCHANGED half

\* ------------------------------------------------------------ environment
TEnvMig ==
  /\ Is("EnvMig") /\ Ev.size % Unit = 0
  /\ Ev.owner \in GPUs /\ InMem(Ev.owner, Ev.from, Ev.size)
  /\ EnvMig(Ev.g, [id |-> Ev.id, from |-> Ev.from, to |-> Ev.to, n |-> Ev.size \div Unit,
                   owner |-> Ev.owner, src |-> Ev.src, snap |-> ReadMem(Ev.owner, Ev.from, Ev.size)])
TTakeComplete == Is("TakeComplete") /\ TakeComplete(Ev.g)
\* One transfer between two controllers shows up as two hook events (RetrieveOutgoing at the sender,
\* Recvd at the receiver).  A connection that stores messages logs the pick-up first; akita's
\* DirectConnection delivers the head of the sender's buffer and only then removes it: the delivery
\* is then NetTake;NetDeliver at once and the pick-up line that follows is only ticked off.
TNetTake ==
  /\ Is("NetTake")
  /\ \/ /\ remOut[Ev.g] # <<>> /\ Head(remOut[Ev.g]).id = Ev.id /\ Head(remOut[Ev.g]).k = Ev.k
        /\ NetTake(Ev.g) /\ Same
     \/ /\ <<Ev.g, Ev.k, Ev.id>> \in half /\ half' = half \ {<<Ev.g, Ev.k, Ev.id>>} /\ UNCHANGED vars
TNetDeliver ==
  /\ Is("NetDeliver")
  /\ \/ /\ \E m \in net : m.id = Ev.id /\ m.k = Ev.k /\ m.dst = Ev.g /\ NetDeliver(m)
        /\ Same
     \/ \E s \in GPUs :
          /\ remOut[s] # <<>>
          /\ LET m == Head(remOut[s]) IN
               /\ m.id = Ev.id /\ m.k = Ev.k /\ m.dst = Ev.g /\ s # Ev.g
               /\ Len(remIn[Ev.g]) < PortCap
               /\ remOut' = [remOut EXCEPT ![s] = Tail(@)]
               /\ remIn' = [remIn EXCEPT ![Ev.g] = Append(@, m)]
               /\ half' = half \cup {<<s, m.k, m.id>>}
          /\ UNCHANGED <<reqv, ownv, memOut, memIn, envv, histv>>
TMemTake ==
  /\ Is("MemTake") /\ memOut[Ev.g] # <<>> /\ Head(memOut[Ev.g]).id = Ev.id /\ MemTake(Ev.g)
TMemRsp ==
  /\ Is("MemRsp")
  /\ \E q \in memPend[Ev.g] :
       /\ q.id = Ev.id /\ (q.k = "r") = (Ev.k = "d")
       /\ q.k = "r" => (InMem(Ev.g, q.addr, q.n) /\ Ev.data = ReadMem(Ev.g, q.addr, q.n))  \* storage = mem
       /\ MemRsp(Ev.g, q)

\* -------------------------------------------------------------- controller
TAccept ==
  /\ Is("Accept") /\ ctrlIn[Ev.g] # <<>> /\ Head(ctrlIn[Ev.g]).id = Ev.id /\ AcceptMig(Ev.g)
TSendPull ==
  /\ Is("SendPull")
  /\ LET g == Ev.g IN
       /\ cur[g] # NoReq /\ Ev.dst = cur[g].owner /\ Ev.n = Unit
       /\ \E c \in toPull[g] : cur[g].from + c * Unit = Ev.addr /\ SendPull(g, c, Ev.id)
TRecvPull ==
  /\ Is("RecvPull") /\ remIn[Ev.g] # <<>> /\ Head(remIn[Ev.g]).id = Ev.id /\ RecvPull(Ev.g)
TSendRead ==
  /\ Is("SendRead")
  /\ \E i \in 1..Len(readQ[Ev.g]) :
       LET q == readQ[Ev.g][i] IN q.id = Ev.id /\ q.addr = Ev.addr /\ q.n = Ev.n /\ SendRead(Ev.g, i)
TRecvMem ==
  /\ Is("RecvMem") /\ memIn[Ev.g] # <<>>
  /\ Head(memIn[Ev.g]).id = Ev.id /\ Head(memIn[Ev.g]).k = Ev.k /\ RecvMem(Ev.g)
TSendPullRsp ==
  /\ Is("SendPullRsp")
  /\ \E i \in 1..Len(rspQ[Ev.g]) :
       LET x == rspQ[Ev.g][i] IN x.id = Ev.id /\ x.data = Ev.data /\ x.dst = Ev.dst /\ SendPullRsp(Ev.g, i)
TRecvPullRsp ==
  /\ Is("RecvPullRsp") /\ remIn[Ev.g] # <<>> /\ Head(remIn[Ev.g]).id = Ev.id /\ RecvPullRsp(Ev.g)
TSendWrite ==
  /\ Is("SendWrite") /\ Ev.masked = 0
  /\ \E i \in 1..Len(writeQ[Ev.g]) :
       LET w == writeQ[Ev.g][i] IN w.addr = Ev.addr /\ w.data = Ev.data /\ SendWrite(Ev.g, i, Ev.id)
TSendComplete ==
  /\ Is("SendComplete") /\ toCtrl[Ev.g] # <<>> /\ Head(toCtrl[Ev.g]).src = Ev.dst /\ SendComplete(Ev.g)

\* the host (application) fills a page of GPU g directly in the storage (system-level runs)
THostWrite ==
  /\ Is("HostWrite") /\ InMem(Ev.g, Ev.base, Len(Ev.bytes))
  /\ LET new == [a \in Ev.base..(Ev.base + Len(Ev.bytes) - 1) |-> Ev.bytes[a - Ev.base + 1]] IN
     /\ mem' = [mem EXCEPT ![Ev.g] = new @@ @]
     /\ mem0' = [mem0 EXCEPT ![Ev.g] = new @@ @]
  \* a page that arrived by a completed migration and is overwritten by its owner: the migration's claim on
  \* the contents ends here (the ghost snapshot of that request follows the write)
  /\ LET doneIds == {done[Ev.g][i].id : i \in 1..Len(done[Ev.g])}
         Patch(q) == [i \in 1..Len(q) |->
                        IF q[i].id \in doneIds /\ q[i].to = Ev.base /\ q[i].n * Unit <= Len(Ev.bytes)
                        THEN [q[i] EXCEPT !.snap = SubSeq(Ev.bytes, 1, q[i].n * Unit)] ELSE q[i]]
     IN /\ done' = [done EXCEPT ![Ev.g] = Patch(@)]
        /\ accepted' = [accepted EXCEPT ![Ev.g] = Patch(@)]
        /\ issued' = [issued EXCEPT ![Ev.g] = Patch(@)]
  /\ UNCHANGED <<reqv, ownv, portv, net, memPend, usedIds, pullSrc>>

\* ------------------------------------------------------------ observations
\* dump of the real storage behind memory controller g: must be the specification's memory
TStorage ==
  /\ Is("Storage")
  /\ \A i \in 1..Len(Ev.bytes) :
       /\ (Ev.base + i - 1) \in DOMAIN mem[Ev.g]
       /\ mem[Ev.g][Ev.base + i - 1] = Ev.bytes[i]
  /\ UNCHANGED vars

\* the harness served every port and every request until no event was pending: nothing may be left
TQuiesce ==
  /\ Is("Quiesce") /\ Quiescent
  /\ \A g \in GPUs : done[g] = issued[g] /\ DOMAIN wmap[g] = {}
  /\ UNCHANGED vars

\* concatenated traces: start over with the storage described by the line
FrameIdx(g) == {i \in 1..Len(Ev.frames) : Ev.frames[i].g = g}
FrameMem(g) ==
  [a \in UNION {(Ev.frames[i].base)..(Ev.frames[i].base + Len(Ev.frames[i].bytes) - 1) : i \in FrameIdx(g)} |->
     LET i == CHOOSE i \in FrameIdx(g) :
                a >= Ev.frames[i].base /\ a < Ev.frames[i].base + Len(Ev.frames[i].bytes)
     IN Ev.frames[i].bytes[a - Ev.frames[i].base + 1]]
TReset ==
  /\ Is("Reset")
  /\ LET memory == [g \in GPUs |-> FrameMem(g)] IN
     /\ ctrlIn' = [g \in GPUs |-> <<>>] /\ cur' = [g \in GPUs |-> NoReq]
     /\ handling' = [g \in GPUs |-> FALSE] /\ toPull' = [g \in GPUs |-> {}]
     /\ wmap' = [g \in GPUs |-> <<>>] /\ pending' = [g \in GPUs |-> -1]
     /\ writeQ' = [g \in GPUs |-> <<>>] /\ toCtrl' = [g \in GPUs |-> <<>>] /\ ctrlOut' = [g \in GPUs |-> <<>>]
     /\ readQ' = [g \in GPUs |-> <<>>] /\ requester' = [g \in GPUs |-> 0] /\ rspQ' = [g \in GPUs |-> <<>>]
     /\ remOut' = [g \in GPUs |-> <<>>] /\ remIn' = [g \in GPUs |-> <<>>]
     /\ memOut' = [g \in GPUs |-> <<>>] /\ memIn' = [g \in GPUs |-> <<>>]
     /\ net' = {} /\ memPend' = [g \in GPUs |-> {}] /\ mem' = memory
     /\ issued' = [g \in GPUs |-> <<>>] /\ accepted' = [g \in GPUs |-> <<>>] /\ done' = [g \in GPUs |-> <<>>]
     /\ usedIds' = {} /\ pullSrc' = <<>> /\ mem0' = memory

TNext == \/ TNetTake \/ TNetDeliver
         \/ /\ \/ TEnvMig \/ TTakeComplete \/ TMemTake \/ TMemRsp
               \/ TAccept \/ TSendPull \/ TRecvPull \/ TSendRead \/ TRecvMem \/ TSendPullRsp
               \/ TRecvPullRsp \/ TSendWrite \/ TSendComplete \/ TStorage \/ THostWrite
            /\ Same
         \/ (half = {} /\ (TQuiesce \/ TReset) /\ Same)

TSpec == TInit /\ [][TNext]_tvars

\* The two storage invariants walk over every byte of the storage.  Their truth can only change when the
\* storage changes (a write is answered), when a completion is reported or when a request is accepted,
\* so on a trace they are evaluated in exactly the states reached by those lines (4 KiB pages otherwise
\* cost minutes per migration).
Prev == IF l > 1 /\ l <= N + 1 THEN TraceLog[l - 1] ELSE [e |-> "none", k |-> ""]
WroteJustNow == (Prev.e = "MemRsp" /\ Prev.k = "wd") \/ Prev.e = "HostWrite"
TContentsCopied == (WroteJustNow \/ Prev.e = "SendComplete") => ContentsCopied
TNothingElseChanged == (WroteJustNow \/ Prev.e = "Accept") => NothingElseChanged

Mark == HWNote(l)
Accepted == HWReport(N)
=============================================================================
