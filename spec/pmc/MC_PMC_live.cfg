SPECIFICATION FairSpec
CONSTANTS
  GPUs = {1, 2}
  Unit = 1
  PortCap = 1
  MCFrames <- Frames2
  FrameChunks = 1
  MaxMig = 2
  Serial = FALSE
  Requesters = {1, 2}
  MCPages <- Pages1
  SkipZero = FALSE
  AcceptGuard = "handling"
PROPERTIES Progress
CHECK_DEADLOCK FALSE
