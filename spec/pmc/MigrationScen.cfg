SPECIFICATION SSpec
CONSTANTS
  NGPU = 2
  PortCap = 1
  PT0MC <- PT3
  PPagesMC <- PP6
  MaxReq = 3
  ReplySlot = "hold"
INVARIANTS NoReplyDropped ContentsPreserved TableMapsToDestination NoAlias OthersUnchanged CopyOnlyWhenQuiet OnePageAtATime HandshakeOrder ReplyOnce
CHECK_DEADLOCK FALSE
