SPECIFICATION SSpec
CONSTANTS
  NGPU = 2
  PortCap = 1
  PT0MC <- PT3
  PPagesMC <- PP6
  MaxReq = 3
  MaxHost = 2
  ReleaseSrcEarly = FALSE
  ReplySlot = "hold"
INVARIANTS NoReplyDropped ContentsPreserved TableMapsToDestination NoAlias HeldApart OthersUnchanged CopyOnlyWhenQuiet OnePageAtATime HandshakeOrder ReplyOnce
CHECK_DEADLOCK FALSE
