SPECIFICATION FairSpec
CONSTANTS
  NGPU = 2
  PortCap = 1
  PT0MC <- PT3
  PPagesMC <- PP4
  MaxReq = 2
  MaxHost = 0
  ReleaseSrcEarly = FALSE
  ReplySlot = "hold"
PROPERTIES Progress
CHECK_DEADLOCK FALSE
