SPECIFICATION FairSpec
CONSTANTS
  NGPU = 2
  PortCap = 1
  PT0MC <- PT3
  PPagesMC <- PP4
  MaxReq = 2
  ReplySlot = "hold"
PROPERTIES Progress
CHECK_DEADLOCK FALSE
