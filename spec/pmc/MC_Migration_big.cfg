SPECIFICATION Spec
CONSTANTS
  NGPU = 3
  PortCap = 1
  PT0MC <- PT4
  PPagesMC <- PP5
  MaxReq = 2
  ReplySlot = "hold"
INVARIANTS NoReplyDropped ContentsPreserved TableMapsToDestination NoAlias Allocated OthersUnchanged CopyOnlyWhenQuiet OnePageAtATime HandshakeOrder ReplyOnce ReplyNotDropped AllServed
CHECK_DEADLOCK FALSE
