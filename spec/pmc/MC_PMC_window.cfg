SPECIFICATION Spec
CONSTANTS
  GPUs = {1, 2}
  Unit = 1
  PortCap = 1
  MCFrames <- Frames3
  FrameChunks = 1
  MaxMig = 3
  Serial = FALSE
  Requesters = {1}
  MCPages <- PagesCtrl
  SkipZero = FALSE
  AcceptGuard = "handling"
INVARIANTS NoStalledWindow
CHECK_DEADLOCK FALSE
