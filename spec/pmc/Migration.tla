----------------------------- MODULE Migration -----------------------------
(***************************************************************************)
(* Driver side of on-demand page migration (amd/driver/driver.go:          *)
(* parseFromMMU ... processRDMARestartRspToDriver).                        *)
(*                                                                         *)
(* For one PageMigrationReqToDriver the driver                             *)
(*   1. drains the RDMA engine of every GPU,                               *)
(*   2. shoots down the TLBs of every GPU that accessed the pages,         *)
(*   3. re-homes every requested page: allocates a fresh physical page on  *)
(*      the requesting GPU and points the page table at it,                *)
(*   4. has the pages copied one at a time (PageMigrationReqToCP),         *)
(*   5. restarts the GPUs, answers the MMU, restarts the RDMA engines,     *)
(* and only then takes the next request from the MMU port.                 *)
(*                                                                         *)
(* One action per message handled / per page prepared.  The environment    *)
(* (MMU, command processors with their PMCs and memories) is explicit:     *)
(* a GPU answers any command it received, in any order, after any delay;   *)
(* a page copy is executed exactly as the PageMigrationReqToCP describes   *)
(* it (read `from` on the GPU named by the PMC port, write `to` on the GPU *)
(* the command is addressed to).  Physical pages are <<device, ppn>>.      *)
(***************************************************************************)
EXTENDS Integers, Sequences, FiniteSets, TLC

CONSTANTS NGPU,       \* number of GPUs (devices 1..NGPU; device 0 is the CPU)
          PortCap,    \* capacity of the MMU port buffers (1 in the code)
          PT0MC,      \* MC only: initial page table [vpn -> [dev, ppn, mig]]
          PPagesMC,   \* MC only: [g -> set of physical page numbers of device g]
          MaxReq,     \* MC only: bound on MMU requests
          MaxHost,    \* MC only: bound on host actions (allocate / write / free) beside the handshakes
          ReleaseSrcEarly, \* named deviation: TRUE = the source frame of a re-homed page counts as free at once
                      \*   (an allocation may receive it while the copy is pending) - MC_Migration_relsrc.cfg must fail
          ReplySlot   \* "hold": a new request is taken only after the previous reply left (intended design)
                      \* "overwrite": as implemented - toSendToMMU is one slot that the next handshake
                      \*   overwrites if the MMU port stayed blocked (deviation, see design/C19.md)

GPUs == 1..NGPU

VARIABLES
  \* ---- driver
  mmuIn,       \* Seq(req)   MMU port, incoming
  cur,         \* req        currentPageMigrationReq (NoReq if none)
  handling,    \* BOOLEAN    isCurrentlyHandlingMigrationReq
  toSend,      \* Seq(cmd)   requestsToSend
  migQ,        \* Seq(cmd)   migrationReqToSendToCP
  toPrepare,   \* set of <<g, v>> pages of the current request not re-homed yet
  oneInFlight, \* BOOLEAN    isCurrentlyMigratingOnePage
  drainAck, shootAck, migAck, restartAck, rdmaAck,   \* the num*ACK counters
  toMMU,       \* Seq(req)   toSendToMMU (0 or 1)
  mmuOut,      \* Seq(req)   MMU port, outgoing
  gpuOut,      \* Seq(cmd)   GPU port, outgoing
  gpuIn,       \* Seq(rsp)   GPU port, incoming
  \* ---- memory management
  pt,          \* [vpn -> [dev, ppn, mig]] page table
  held,        \* set of <<dev, ppn>>: source frames of page copies in flight (page re-homed, copy not done).
               \* Such a frame is still OWNED: the allocator must not hand it out before the copy completed
               \* (afterwards it may - or may leak it, as the code does - the specification allows both)
  \* ---- environment
  cpIn,        \* [g -> set of commands received by GPU g, unanswered]
  data,        \* [<<dev, ppn>> -> contents]
  quiet,       \* [g -> set of {"rdma","tlb"}]  what is currently drained / shot down on GPU g
  \* ---- history
  issued, accepted, replied,   \* Seq(req)
  inflight,    \* set of vpn re-homed and not copied yet
  moved,       \* set of vpn named in an accepted request
  nHost,       \* MC only: host actions taken
  dropped,     \* ids of requests whose reply was overwritten before it left (ReplySlot = "overwrite")
  pt0, content0

drvv  == <<mmuIn, cur, handling, toSend, migQ, toPrepare, oneInFlight, drainAck, shootAck, migAck, restartAck,
           rdmaAck, toMMU, mmuOut, gpuOut, gpuIn>>
memv  == <<pt, held>>
envv  == <<cpIn, data, quiet>>
histv == <<issued, accepted, replied, inflight, moved, dropped, pt0, content0>>
vars  == <<drvv, memv, envv, histv, nHost>>
fvars == <<drvv, memv, envv, histv>>

\* req: [id, host, accessing (set of GPUs), want ([g -> Seq(vpn)], only requesting GPUs), size, src]
NoReq == [id |-> 0, host |-> 0, accessing |-> {}, want |-> <<>>, size |-> 0, src |-> ""]
Cmd(k, g)  == [k |-> k, gpu |-> g, id |-> 0, v |-> 0, owner |-> 0, fdev |-> 0, from |-> 0, to |-> 0, size |-> 0, vs |-> {}]
Rsp(k, g)  == [k |-> k, gpu |-> g]
Pages(r)   == UNION {{r.want[g][i] : i \in 1..Len(r.want[g])} : g \in DOMAIN r.want}
Pairs(r)   == UNION {{<<g, r.want[g][i]>> : i \in 1..Len(r.want[g])} : g \in DOMAIN r.want}
Sorted(S)  == CHOOSE s \in [1..Cardinality(S) -> S] : \A i, j \in 1..Cardinality(S) : i < j => s[i] < s[j]
SeqOf(S, f(_)) == LET s == Sorted(S) IN [i \in 1..Cardinality(S) |-> f(s[i])]

EmptyInit(table, contents) ==
  /\ mmuIn = <<>> /\ cur = NoReq /\ handling = FALSE /\ toSend = <<>> /\ migQ = <<>> /\ toPrepare = {}
  /\ oneInFlight = FALSE /\ drainAck = 0 /\ shootAck = 0 /\ migAck = 0 /\ restartAck = 0 /\ rdmaAck = 0
  /\ toMMU = <<>> /\ mmuOut = <<>> /\ gpuOut = <<>> /\ gpuIn = <<>>
  /\ pt = table /\ held = {}
  /\ cpIn = [g \in GPUs |-> {}] /\ data = contents /\ quiet = [g \in GPUs |-> {}]
  /\ issued = <<>> /\ accepted = <<>> /\ replied = <<>> /\ inflight = {} /\ moved = {} /\ dropped = {}
  /\ pt0 = table /\ content0 = [v \in DOMAIN table |-> contents[<<table[v].dev, table[v].ppn>>]]

\* ==================================================================== driver
\* parseFromMMU + initiateRDMADrain: the next request is taken only when none is being handled
TakeMMU ==
  /\ ~handling /\ mmuIn # <<>>
  /\ ReplySlot = "hold" => toMMU = <<>>
  /\ cur' = Head(mmuIn) /\ mmuIn' = Tail(mmuIn) /\ handling' = TRUE
  /\ toSend' = toSend \o SeqOf(GPUs, LAMBDA g : Cmd("drain", g))
  /\ drainAck' = drainAck + NGPU
  /\ accepted' = Append(accepted, Head(mmuIn))
  /\ moved' = moved \cup Pages(Head(mmuIn))
  /\ UNCHANGED <<migQ, toPrepare, oneInFlight, shootAck, migAck, restartAck, rdmaAck, toMMU, mmuOut, gpuOut, gpuIn,
                 memv, envv, issued, replied, inflight, dropped, pt0, content0>>

\* sendToGPUs: queued commands leave through the GPU port (the code sends in queue order)
SendCmd(i, id) ==
  /\ i \in 1..Len(toSend)
  /\ gpuOut' = Append(gpuOut, [toSend[i] EXCEPT !.id = id])
  /\ toSend' = SubSeq(toSend, 1, i - 1) \o SubSeq(toSend, i + 1, Len(toSend))
  /\ UNCHANGED <<mmuIn, cur, handling, migQ, toPrepare, oneInFlight, drainAck, shootAck, migAck, restartAck, rdmaAck,
                 toMMU, mmuOut, gpuIn, memv, envv, issued, accepted, replied, inflight, moved, dropped, pt0, content0>>

\* sendMigrationReqToCP: one page copy at a time, only after every page was re-homed
\* (the code sends in queue order; the order of the page copies does not matter here)
SendMig(i, id) ==
  /\ i \in 1..Len(migQ) /\ ~oneInFlight /\ toPrepare = {}
  /\ gpuOut' = Append(gpuOut, [migQ[i] EXCEPT !.id = id])
  /\ migQ' = SubSeq(migQ, 1, i - 1) \o SubSeq(migQ, i + 1, Len(migQ)) /\ oneInFlight' = TRUE
  /\ UNCHANGED <<mmuIn, cur, handling, toSend, toPrepare, drainAck, shootAck, migAck, restartAck, rdmaAck,
                 toMMU, mmuOut, gpuIn, memv, envv, issued, accepted, replied, inflight, moved, dropped, pt0, content0>>

\* preparePageForMigration (one iteration of the loops in processShootdownCompleteRsp):
\* allocate a fresh page p on the requesting GPU g, point the table at it, queue the copy
DataAt(pp) == IF pp \in DOMAIN data THEN data[pp] ELSE -1
LiveFrames == {<<pt[u].dev, pt[u].ppn>> : u \in DOMAIN pt}
\* a frame the allocator may hand out: no live virtual page sits on it and it is not the source of a pending copy
FreeFrame(g, p) == <<g, p>> \notin LiveFrames /\ (ReleaseSrcEarly \/ <<g, p>> \notin held)

Rehome(g, v, p) ==
  /\ <<g, v>> \in toPrepare /\ FreeFrame(g, p)
  /\ v \in DOMAIN pt
  /\ pt' = [pt EXCEPT ![v] = [dev |-> g, ppn |-> p, mig |-> TRUE]]
  /\ held' = held \cup {<<pt[v].dev, pt[v].ppn>>}
  /\ migQ' = Append(migQ, [Cmd("mig", g) EXCEPT !.v = v, !.owner = cur.host, !.fdev = pt[v].dev, !.from = pt[v].ppn, !.to = p,
                                                 !.size = cur.size])
  /\ migAck' = migAck + 1
  /\ toPrepare' = toPrepare \ {<<g, v>>}
  /\ inflight' = inflight \cup {v}
  /\ UNCHANGED <<mmuIn, cur, handling, toSend, oneInFlight, drainAck, shootAck, restartAck, rdmaAck, toMMU, mmuOut,
                 gpuOut, gpuIn, envv, issued, accepted, replied, moved, dropped, pt0, content0>>

\* processReturnReq: one response from a GPU
RecvRsp ==
  /\ gpuIn # <<>> /\ gpuIn' = Tail(gpuIn)
  /\ LET m == Head(gpuIn) IN
     \/ /\ m.k = "drain" /\ drainAck > 0 /\ drainAck' = drainAck - 1
        /\ IF drainAck = 1     \* sendShootDownReqs
           THEN /\ toSend' = toSend \o SeqOf(cur.accessing, LAMBDA g : [Cmd("shoot", g) EXCEPT !.vs = Pages(cur)])
                /\ shootAck' = Cardinality(cur.accessing)
           ELSE UNCHANGED <<toSend, shootAck>>
        /\ UNCHANGED <<cur, handling, toPrepare, oneInFlight, migAck, restartAck, rdmaAck, toMMU, inflight, dropped>>
     \/ /\ m.k = "shoot" /\ shootAck > 0 /\ shootAck' = shootAck - 1
        /\ toPrepare' = IF shootAck = 1 THEN Pairs(cur) ELSE toPrepare
        /\ UNCHANGED <<cur, handling, toSend, oneInFlight, drainAck, migAck, restartAck, rdmaAck, toMMU, inflight, dropped>>
     \/ /\ m.k = "mig" /\ migAck > 0 /\ migAck' = migAck - 1 /\ oneInFlight' = FALSE
        /\ IF migAck = 1       \* prepareGPURestartReqs + preparePageMigrationRspToMMU
           THEN /\ toSend' = toSend \o SeqOf(cur.accessing, LAMBDA g : Cmd("restart", g))
                /\ restartAck' = restartAck + Cardinality(cur.accessing)
                /\ toMMU' = <<cur>>
                /\ dropped' = dropped \cup {toMMU[i].id : i \in 1..Len(toMMU)}
           ELSE UNCHANGED <<toSend, restartAck, toMMU, dropped>>
        /\ UNCHANGED <<cur, handling, toPrepare, drainAck, shootAck, rdmaAck, inflight>>
     \/ /\ m.k = "restart" /\ restartAck > 0 /\ restartAck' = restartAck - 1
        /\ IF restartAck = 1   \* prepareRDMARestartReqs
           THEN /\ toSend' = toSend \o SeqOf(GPUs, LAMBDA g : Cmd("rdmarestart", g))
                /\ rdmaAck' = rdmaAck + NGPU
           ELSE UNCHANGED <<toSend, rdmaAck>>
        /\ UNCHANGED <<cur, handling, toPrepare, oneInFlight, drainAck, shootAck, migAck, toMMU, inflight, dropped>>
     \/ /\ m.k = "rdmarestart" /\ rdmaAck > 0 /\ rdmaAck' = rdmaAck - 1
        /\ IF rdmaAck = 1 THEN cur' = NoReq /\ handling' = FALSE ELSE UNCHANGED <<cur, handling>>
        /\ UNCHANGED <<toSend, toPrepare, oneInFlight, drainAck, shootAck, migAck, restartAck, toMMU, inflight, dropped>>
  /\ UNCHANGED <<mmuIn, migQ, mmuOut, gpuOut, memv, envv, issued, accepted, replied, moved, pt0, content0>>

\* sendToMMU
SendReply ==
  /\ toMMU # <<>> /\ Len(mmuOut) < PortCap
  /\ mmuOut' = Append(mmuOut, Head(toMMU)) /\ toMMU' = <<>>
  /\ replied' = Append(replied, Head(toMMU))
  /\ UNCHANGED <<mmuIn, cur, handling, toSend, migQ, toPrepare, oneInFlight, drainAck, shootAck, migAck, restartAck,
                 rdmaAck, gpuOut, gpuIn, memv, envv, issued, accepted, inflight, moved, dropped, pt0, content0>>

\* =============================================================== environment
EnvMMUReq(r) ==
  /\ Len(mmuIn) < PortCap
  /\ mmuIn' = Append(mmuIn, r) /\ issued' = Append(issued, r)
  /\ UNCHANGED <<cur, handling, toSend, migQ, toPrepare, oneInFlight, drainAck, shootAck, migAck, restartAck, rdmaAck,
                 toMMU, mmuOut, gpuOut, gpuIn, memv, envv, accepted, replied, inflight, moved, dropped, pt0, content0>>

TakeReply ==
  /\ mmuOut # <<>> /\ mmuOut' = Tail(mmuOut)
  /\ UNCHANGED <<mmuIn, cur, handling, toSend, migQ, toPrepare, oneInFlight, drainAck, shootAck, migAck, restartAck,
                 rdmaAck, toMMU, gpuOut, gpuIn, memv, envv, histv>>

GPUTake ==              \* the command at the head of the GPU port reaches its command processor
  /\ gpuOut # <<>>
  /\ cpIn' = [cpIn EXCEPT ![Head(gpuOut).gpu] = @ \cup {Head(gpuOut)}]
  /\ gpuOut' = Tail(gpuOut)
  /\ UNCHANGED <<mmuIn, cur, handling, toSend, migQ, toPrepare, oneInFlight, drainAck, shootAck, migAck, restartAck,
                 rdmaAck, toMMU, mmuOut, gpuIn, memv, data, quiet, histv>>

\* GPU g executes command c and answers.  A page copy reads `from` on the GPU whose PMC the
\* command names and writes `to` on g.
GPURsp(g, c, val) ==
  /\ c \in cpIn[g]
  /\ cpIn' = [cpIn EXCEPT ![g] = @ \ {c}]
  /\ gpuIn' = Append(gpuIn, Rsp(c.k, g))
  /\ data' = IF c.k = "mig" THEN (<<g, c.to>> :> val) @@ data ELSE data
  /\ quiet' = CASE c.k = "drain"       -> [quiet EXCEPT ![g] = @ \cup {"rdma"}]
                [] c.k = "shoot"       -> [quiet EXCEPT ![g] = @ \cup {"tlb"}]
                [] c.k = "restart"     -> [quiet EXCEPT ![g] = @ \ {"tlb"}]
                [] c.k = "rdmarestart" -> [quiet EXCEPT ![g] = @ \ {"rdma"}]
                [] OTHER               -> quiet
  /\ inflight' = IF c.k = "mig" THEN inflight \ {c.v} ELSE inflight
  /\ held' = IF c.k = "mig" THEN held \ {<<c.fdev, c.from>>} ELSE held   \* the copy is done: the source frame is no longer needed
  /\ UNCHANGED <<mmuIn, cur, handling, toSend, migQ, toPrepare, oneInFlight, drainAck, shootAck, migAck, restartAck,
                 rdmaAck, toMMU, mmuOut, gpuOut, pt, issued, accepted, replied, moved, dropped, pt0, content0>>

\* ---------------------------------------------------------------- the host (application threads), at any time
HostFrame == <<mmuIn, cur, handling, toSend, migQ, toPrepare, oneInFlight, drainAck, shootAck, migAck, restartAck,
               rdmaAck, toMMU, mmuOut, gpuOut, gpuIn, held, cpIn, quiet, issued, accepted, replied, inflight, moved,
               dropped, pt0>>
\* AllocateMemory: a new virtual page v on a frame the allocator may hand out; val = what the frame holds
HostAlloc(v, g, p, val) ==
  /\ v \notin DOMAIN pt /\ FreeFrame(g, p)
  /\ pt' = (v :> [dev |-> g, ppn |-> p, mig |-> FALSE]) @@ pt
  /\ data' = (<<g, p>> :> val) @@ data
  /\ content0' = (v :> val) @@ content0
  /\ UNCHANGED HostFrame
\* the application fills a page that is not being migrated
HostWrite(v, val) ==
  /\ v \in DOMAIN pt /\ v \notin inflight /\ \A pr \in toPrepare : pr[2] # v
  /\ data' = (<<pt[v].dev, pt[v].ppn>> :> val) @@ data
  /\ content0' = [content0 EXCEPT ![v] = val]
  /\ UNCHANGED <<pt>> /\ UNCHANGED HostFrame
\* FreeMemory of a page that is not being migrated
HostFree(v) ==
  /\ v \in DOMAIN pt /\ v \notin inflight /\ \A pr \in toPrepare : pr[2] # v
  /\ \A i \in 1..Len(mmuIn) : v \notin Pages(mmuIn[i])
  /\ (cur # NoReq /\ v \in Pages(cur)) => \E i \in 1..Len(replied) : replied[i].id = cur.id   \* its migration was answered
  /\ pt' = [u \in (DOMAIN pt) \ {v} |-> pt[u]]
  /\ content0' = [u \in (DOMAIN content0) \ {v} |-> content0[u]]
  /\ UNCHANGED data /\ UNCHANGED HostFrame

\* ------------------------------------------------------------------ MC next
\* the MMU asks for pages that live on `host`, on behalf of one GPU other than the host
MCEnvReq ==
  /\ Len(issued) < MaxReq
  /\ \E h \in GPUs : \E g \in GPUs \ {h} :
       \E vs \in (SUBSET {v \in DOMAIN pt : pt[v].dev = h /\ v \notin UNION {Pages(issued[i]) : i \in 1..Len(issued)}}) \ {{}} :
         \E acc \in (SUBSET GPUs) \ {{}} :
           /\ h \in acc
           /\ EnvMMUReq([id |-> Len(issued) + 1, host |-> h, accessing |-> acc,
                         want |-> (g :> SeqOf(vs, LAMBDA v : v)), size |-> 1, src |-> "MMU"])

\* MC: the allocator hands out the lowest frame it may hand out (a trace binds the real allocator's choice)
HasFree(g) == \E p \in PPagesMC[g] : FreeFrame(g, p)
LowestFree(g) == CHOOSE p \in PPagesMC[g] : FreeFrame(g, p) /\ \A q \in PPagesMC[g] : FreeFrame(g, q) => p <= q
DoRehome == \E pr \in toPrepare : HasFree(pr[1]) /\ Rehome(pr[1], pr[2], LowestFree(pr[1]))
\* host actions of the model: a new page (vpn 100 + n), a write of a fresh value, a free
MCHost ==
  /\ nHost < MaxHost /\ nHost' = nHost + 1
  /\ \/ \E g \in GPUs : HasFree(g) /\ HostAlloc(100 + nHost, g, LowestFree(g), DataAt(<<g, LowestFree(g)>>))
     \/ \E v \in DOMAIN pt : HostWrite(v, 900 + nHost)
     \/ \E v \in {u \in DOMAIN pt : u >= 100} : HostFree(v)
DoSendCmd == toSend # <<>> /\ SendCmd(1, 0)
Copied(c) == IF c.k = "mig" /\ <<c.owner, c.from>> \in DOMAIN data THEN data[<<c.owner, c.from>>] ELSE -1
DoGPURsp == \E g \in GPUs : \E c \in cpIn[g] : GPURsp(g, c, Copied(c))

Next == \/ (TakeMMU \/ RecvRsp \/ SendReply \/ TakeReply \/ GPUTake \/ MCEnvReq \/ DoSendCmd \/ SendMig(1, 0) \/ DoRehome \/ DoGPURsp)
           /\ UNCHANGED nHost
        \/ MCHost

MCPhys == UNION {{<<g, p>> : p \in PPagesMC[g]} : g \in GPUs}
Init == EmptyInit(PT0MC, [pp \in MCPhys |-> 100 * pp[1] + pp[2]]) /\ nHost = 0
Spec == Init /\ [][Next]_vars

Fairness ==
  /\ WF_fvars(TakeMMU) /\ WF_fvars(RecvRsp) /\ WF_fvars(SendReply) /\ WF_fvars(TakeReply) /\ WF_fvars(GPUTake)
  /\ WF_fvars(DoSendCmd) /\ WF_fvars(SendMig(1, 0)) /\ WF_fvars(DoRehome) /\ WF_fvars(DoGPURsp)
FairSpec == Spec /\ Fairness

\* -------------------------------------------------------------- properties
IsPrefix(s, t) == Len(s) <= Len(t) /\ \A i \in 1..Len(s) : s[i] = t[i]
Outstanding(k) == {c \in UNION {cpIn[g] : g \in GPUs} : c.k = k} \cup {gpuOut[i] : i \in {j \in 1..Len(gpuOut) : gpuOut[j].k = k}}

\* the contents seen through the page table are those of before the migration (pages being copied excepted)
ContentsPreserved == \A v \in DOMAIN pt : v \notin inflight => DataAt(<<pt[v].dev, pt[v].ppn>>) = content0[v]

\* when the MMU is answered, every requested page is mapped on the GPU that asked for it and has been copied
TableMapsToDestination ==
  \A i \in 1..Len(toMMU) : \A pr \in Pairs(toMMU[i]) :
    pr[2] \in DOMAIN pt => (pt[pr[2]].dev = pr[1] /\ pr[2] \notin inflight)   \* (unless the host freed it meanwhile)

\* no two virtual pages share a physical page; a re-homed page sits on a page of its own device
NoAlias == \A v, u \in DOMAIN pt : v # u => <<pt[v].dev, pt[v].ppn>> # <<pt[u].dev, pt[u].ppn>>
\* the source frame of a pending copy belongs to that copy: no live virtual page sits on it
HeldApart == held \cap LiveFrames = {}

\* pages not named in any accepted request keep their mapping
OthersUnchanged == \A v \in (DOMAIN pt) \cap (DOMAIN pt0) : v \notin moved => pt[v] = pt0[v]

\* a page is only copied while every RDMA engine is drained and every accessing GPU is shot down
CopyOnlyWhenQuiet ==
  \A c \in UNION {cpIn[g] : g \in GPUs} :
    c.k = "mig" => /\ \A g \in GPUs : "rdma" \in quiet[g]
                   /\ \A g \in cur.accessing : "tlb" \in quiet[g]

\* one page copy at a time
OnePageAtATime == Cardinality(Outstanding("mig")) + Cardinality({i \in 1..Len(gpuIn) : gpuIn[i].k = "mig"}) <= 1

\* handshake order
HandshakeOrder ==
  /\ (Outstanding("shoot") # {} \/ shootAck > 0) => drainAck = 0
  /\ (Outstanding("mig") # {} \/ migQ # <<>> \/ toPrepare # {}) => (drainAck = 0 /\ shootAck = 0)
  /\ Outstanding("restart") # {} => (migAck = 0 /\ migQ = <<>>)
  /\ Outstanding("rdmarestart") # {} => restartAck = 0

\* the MMU is answered once per request, in request order; requests that arrive during a
\* migration are taken afterwards
ReplyOnce ==
  /\ IsPrefix(replied, accepted) /\ IsPrefix(accepted, issued)
  /\ handling => Len(accepted) >= 1
NoReplyDropped == dropped = {}
\* ... and a reply is never dropped: the reply of request k is on its way before request k+1 is taken
ReplyNotDropped == Len(accepted) - Len(replied) <= (IF handling THEN 1 ELSE 0) + Len(toMMU)

Quiescent ==
  /\ mmuIn = <<>> /\ ~handling /\ toSend = <<>> /\ migQ = <<>> /\ toPrepare = {} /\ toMMU = <<>> /\ mmuOut = <<>>
  /\ gpuOut = <<>> /\ gpuIn = <<>> /\ \A g \in GPUs : cpIn[g] = {}
AllServed == Quiescent => /\ replied = issued /\ inflight = {} /\ \A g \in GPUs : quiet[g] = {}
                          /\ drainAck = 0 /\ shootAck = 0 /\ migAck = 0 /\ restartAck = 0 /\ rdmaAck = 0

Progress == /\ \A k \in 1..MaxReq : (Len(issued) >= k) ~> (Len(replied) >= k)
            /\ handling ~> ~handling
=============================================================================
