--------------------------- MODULE MigrationScen ---------------------------
(* Migration with a history variable naming the step taken: `tlc -simulate` *)
(* on this module yields behaviours whose environment steps (MMU requests,  *)
(* command pick-up, GPU answers in the chosen order, reply pick-up) become  *)
(* replay scenarios for the real driver.Driver; driver steps are awaited.   *)
EXTENDS Migration
VARIABLE act
PT3 == (1 :> [dev |-> 1, ppn |-> 1, mig |-> FALSE]) @@ (2 :> [dev |-> 1, ppn |-> 2, mig |-> FALSE])
       @@ (3 :> [dev |-> 2, ppn |-> 1, mig |-> FALSE])
PP6 == [g \in GPUs |-> 1..6]

SInit == Init /\ act = [a |-> "Init"]
Aw(e) == act' = [a |-> "Await", e |-> e]
SNextDrv ==
  \/ TakeMMU /\ Aw("TakeMMU")
  \/ RecvRsp /\ Aw("RecvRsp")
  \/ SendReply /\ Aw("Reply")
  \/ DoSendCmd /\ Aw("Cmd")
  \/ SendMig(1, 0) /\ Aw("Cmd")
  \/ DoRehome /\ Aw("PTChange")
  \/ TakeReply /\ act' = [a |-> "TakeReply"]
  \/ GPUTake /\ act' = [a |-> "GPUTake"]
  \/ \E g \in GPUs : \E c \in cpIn[g] : GPURsp(g, c, Copied(c)) /\ act' = [a |-> "GPURsp", g |-> g, k |-> c.k]
  \/ /\ Len(issued) < MaxReq
     /\ \E h \in GPUs : \E g \in GPUs \ {h} :
          \E vs \in (SUBSET {v \in DOMAIN pt : pt[v].dev = h /\ v \notin UNION {Pages(issued[i]) : i \in 1..Len(issued)}}) \ {{}} :
            \E acc \in (SUBSET GPUs) \ {{}} :
              /\ h \in acc
              /\ EnvMMUReq([id |-> Len(issued) + 1, host |-> h, accessing |-> acc,
                            want |-> (g :> SeqOf(vs, LAMBDA v : v)), size |-> 1, src |-> "MMU"])
              /\ act' = [a |-> "EnvMMUReq", host |-> h, g |-> g, vs |-> SeqOf(vs, LAMBDA v : v),
                         acc |-> SeqOf(acc, LAMBDA x : x)]
SNext ==
  \/ /\ nHost < MaxHost /\ nHost' = nHost + 1
     /\ \/ \E g \in GPUs : HasFree(g) /\ HostAlloc(100 + nHost, g, LowestFree(g), DataAt(<<g, LowestFree(g)>>))
                             /\ act' = [a |-> "HostAlloc", g |-> g, v |-> 100 + nHost]
        \/ \E v \in DOMAIN pt : HostWrite(v, 900 + nHost) /\ act' = [a |-> "HostWrite", v |-> v]
        \/ \E v \in {u \in DOMAIN pt : u >= 100} : HostFree(v) /\ act' = [a |-> "HostFree", v |-> v]
  \/ UNCHANGED nHost /\ SNextDrv
SSpec == SInit /\ [][SNext]_<<vars, act>>
=============================================================================
