SPECIFICATION Spec
CONSTANTS
  NGPU = 2
  PortCap = 1
  PT0MC <- PT3
  PPagesMC <- PP4
  MaxReq = 2
  MaxHost = 0
  ReleaseSrcEarly = FALSE
  ReplySlot = "hold"
INVARIANTS NoReplyDropped ContentsPreserved TableMapsToDestination NoAlias HeldApart OthersUnchanged CopyOnlyWhenQuiet OnePageAtATime HandshakeOrder ReplyOnce ReplyNotDropped AllServed
CHECK_DEADLOCK FALSE
