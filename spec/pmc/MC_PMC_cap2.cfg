SPECIFICATION Spec
CONSTANTS
  GPUs = {1, 2}
  Unit = 1
  PortCap = 2
  MCFrames <- Frames3
  FrameChunks = 2
  MaxMig = 3
  Serial = TRUE
  Requesters = {1, 2}
  MCPages <- Pages2
  SkipZero = FALSE
  AcceptGuard = "handling"
INVARIANTS TypeOK ContentsCopied NothingElseChanged CompleteOnce OneAtATime RoutedBack InRange AllServed
CHECK_DEADLOCK FALSE
