SPECIFICATION Spec
CONSTANTS
  GPUs = {1, 2}
  Unit = 2
  PortCap = 1
  MCFrames <- Frames3
  FrameChunks = 2
  MaxMig = 2
  Serial = FALSE
  Requesters = {1, 2}
  MCPages <- Pages2
  SkipZero = FALSE
  AcceptGuard = "handling"
INVARIANTS TypeOK ContentsCopied NothingElseChanged CompleteOnce OneAtATime RoutedBack InRange AllServed
CHECK_DEADLOCK FALSE
