-------------------------- MODULE MigrationTrace --------------------------
(***************************************************************************)
(* Trace specification: is a log of the real driver.Driver's MMU and GPU   *)
(* ports (harness/cmd/c19, -drv) a behaviour of Migration?  One log line = *)
(* one port hook event = one action with the logged arguments.  The real   *)
(* vm.PageTable is polled after every cycle: each change (PTChange) must   *)
(* be the re-homing of one requested page onto a fresh page of the         *)
(* requesting GPU; the final dump (Final) must be the specification's      *)
(* table, and the contents read through it (digests of the real storage    *)
(* in system-level runs) must be the contents of before the migrations.    *)
(***************************************************************************)
EXTENDS Migration, TraceLib, Json

TraceLog == ndJsonDeserialize("trace.ndjson")
N == Len(TraceLog)

VARIABLES l, ranges, pid
tvars == <<vars, l, ranges, pid>>

ASSUME HWInit

NoPT == <<>>
NoPP == [g \in GPUs |-> {}]
Ev == TraceLog[l]
Is(e) == l <= N /\ Ev.e = e /\ l' = l + 1
Same == UNCHANGED <<ranges, pid, nHost>>
SetOf(s) == {s[i] : i \in 1..Len(s)}

TInit == EmptyInit(<<>>, <<>>) /\ nHost = 0 /\ l = 1 /\ ranges = <<>> /\ pid = 0

\* ------------------------------------------------------------ environment
WantOf(w) == [g \in {w[i][1] : i \in 1..Len(w)} |-> w[CHOOSE i \in 1..Len(w) : w[i][1] = g][2]]
TMMUReq ==
  /\ Is("MMUReq") /\ Ev.pid = pid /\ Same
  /\ EnvMMUReq([id |-> Ev.id, host |-> Ev.host, accessing |-> SetOf(Ev.accessing), want |-> WantOf(Ev.want),
                size |-> Ev.size, src |-> Ev.src])
TTakeReply == Is("TakeReply") /\ mmuOut # <<>> /\ Head(mmuOut).id = Ev.id /\ TakeReply /\ Same
TGPUTake == Is("GPUTake") /\ gpuOut # <<>> /\ Head(gpuOut).id = Ev.id /\ Head(gpuOut).gpu = Ev.gpu /\ GPUTake /\ Same
\* the GPU answers; for a page copy the line carries the digest of the destination page as found in the
\* storage at that moment: that observation, not the intended copy, becomes the specification's contents
TGPURsp ==
  /\ Is("GPURsp") /\ Ev.gpu \in GPUs /\ Same
  /\ \E c \in cpIn[Ev.gpu] :
       /\ c.k = Ev.k
       /\ IF c.k = "mig" THEN c.id = Ev.id /\ GPURsp(Ev.gpu, c, Ev.dig) ELSE GPURsp(Ev.gpu, c, 0)

\* ------------------------------------------------------------------ driver
TTakeMMU == Is("TakeMMU") /\ mmuIn # <<>> /\ Head(mmuIn).id = Ev.id /\ TakeMMU /\ Same
TCmd ==
  /\ Is("Cmd") /\ Same
  /\ IF Ev.k = "mig"
     THEN \E i \in 1..Len(migQ) :
            /\ LET c == migQ[i] IN
                 /\ c.gpu = Ev.gpu /\ c.owner = Ev.owner /\ c.from = Ev.from /\ c.to = Ev.to /\ c.size = Ev.size
                 /\ c.fdev = Ev.fromdev /\ c.gpu = Ev.todev /\ Ev.off = 0
            /\ SendMig(i, Ev.id)
     ELSE \E i \in 1..Len(toSend) :
            /\ toSend[i].k = Ev.k /\ toSend[i].gpu = Ev.gpu
            /\ Ev.k = "shoot" => (SetOf(Ev.vs) = toSend[i].vs /\ Ev.pid = pid)
            /\ SendCmd(i, Ev.id)
TRecvRsp ==
  /\ Is("RecvRsp") /\ gpuIn # <<>> /\ Head(gpuIn).k = Ev.k /\ Head(gpuIn).gpu = Ev.gpu /\ RecvRsp /\ Same
TReply ==
  /\ Is("Reply") /\ toMMU # <<>> /\ Same
  /\ Head(toMMU).id = Ev.id /\ SetOf(Ev.vs) = Pages(Head(toMMU)) /\ Len(Ev.vs) = Cardinality(Pages(Head(toMMU)))
  /\ Ev.dst = Head(toMMU).src
  /\ SendReply
\* the real page table changed: one requested page re-homed onto a fresh page of the requesting GPU
TPTChange ==
  /\ Is("PTChange") /\ Same
  /\ Ev.valid = 1 /\ Ev.mig = 1 /\ Ev.off = 0 /\ Ev.dev \in GPUs
  /\ Ev.ppn >= ranges[Ev.dev + 1][2] /\ Ev.ppn < ranges[Ev.dev + 1][3]
  /\ Rehome(Ev.dev, Ev.vpn, Ev.ppn)

\* ------------------------------------------------------------------- host
InDev(g, p) == g \in GPUs /\ p >= ranges[g + 1][2] /\ p < ranges[g + 1][3]
\* AllocateMemory returned: the real allocator handed out frame <<dev, ppn>> - it must be a frame nobody owns
\* (no live page on it, not the source of a pending page copy); dig = what the frame holds
THostAlloc == Is("HostAlloc") /\ Same /\ InDev(Ev.dev, Ev.ppn) /\ HostAlloc(Ev.vpn, Ev.dev, Ev.ppn, Ev.dig)
THostAllocFail == Is("HostAllocFail") /\ Same /\ UNCHANGED vars     \* the allocator refused (out of memory)
THostWrite == Is("HostWrite") /\ Same /\ HostWrite(Ev.vpn, Ev.dig)
THostFree == Is("HostFree") /\ Same /\ HostFree(Ev.vpn)

\* ------------------------------------------------------------ observations
\* final dump of the real page table and of the contents read through it
TFinal ==
  /\ Is("Final") /\ Same
  /\ {Ev.pt[i][1] : i \in 1..Len(Ev.pt)} = DOMAIN pt
  /\ \A i \in 1..Len(Ev.pt) :
       LET e == Ev.pt[i] IN
         /\ pt[e[1]].dev = e[2] /\ pt[e[1]].ppn = e[3]
         /\ DataAt(<<e[2], e[3]>>) = e[4] /\ e[4] = content0[e[1]]
  /\ UNCHANGED vars

TQuiesce ==
  /\ Is("Quiesce") /\ Same
  /\ Quiescent /\ replied = issued /\ inflight = {} /\ \A g \in GPUs : quiet[g] = {}
  /\ drainAck = 0 /\ shootAck = 0 /\ migAck = 0 /\ restartAck = 0 /\ rdmaAck = 0
  /\ UNCHANGED vars

TReset ==
  /\ Is("Reset") /\ Ev.gpus = NGPU
  /\ ranges' = Ev.ranges /\ pid' = Ev.pid
  /\ LET table == [v \in {Ev.pt[i][1] : i \in 1..Len(Ev.pt)} |->
                     LET i == CHOOSE i \in 1..Len(Ev.pt) : Ev.pt[i][1] = v
                     IN [dev |-> Ev.pt[i][2], ppn |-> Ev.pt[i][3], mig |-> FALSE]]
         contents == [pp \in {<<Ev.content[i][1], Ev.content[i][2]>> : i \in 1..Len(Ev.content)} |->
                        Ev.content[CHOOSE i \in 1..Len(Ev.content) : <<Ev.content[i][1], Ev.content[i][2]>> = pp][3]]
     IN
     /\ mmuIn' = <<>> /\ cur' = NoReq /\ handling' = FALSE /\ toSend' = <<>> /\ migQ' = <<>> /\ toPrepare' = {}
     /\ oneInFlight' = FALSE /\ drainAck' = 0 /\ shootAck' = 0 /\ migAck' = 0 /\ restartAck' = 0 /\ rdmaAck' = 0
     /\ toMMU' = <<>> /\ mmuOut' = <<>> /\ gpuOut' = <<>> /\ gpuIn' = <<>>
     /\ pt' = table /\ held' = {} /\ nHost' = 0
     /\ cpIn' = [g \in GPUs |-> {}] /\ data' = contents /\ quiet' = [g \in GPUs |-> {}]
     /\ issued' = <<>> /\ accepted' = <<>> /\ replied' = <<>> /\ inflight' = {} /\ moved' = {} /\ dropped' = {}
     /\ pt0' = table /\ content0' = [v \in DOMAIN table |-> contents[<<table[v].dev, table[v].ppn>>]]

TNext == THostAlloc \/ THostAllocFail \/ THostWrite \/ THostFree \/ TMMUReq \/ TTakeReply \/ TGPUTake \/ TGPURsp \/ TTakeMMU \/ TCmd \/ TRecvRsp \/ TReply \/ TPTChange
         \/ TFinal \/ TQuiesce \/ TReset

TSpec == TInit /\ [][TNext]_tvars

Mark == HWNote(l)
Accepted == HWReport(N)
=============================================================================
