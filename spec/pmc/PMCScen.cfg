SPECIFICATION SSpec
CONSTANTS
  GPUs = {1, 2}
  Unit = 1
  PortCap = 1
  MCFrames <- ScenFrames
  FrameChunks = 3
  MaxMig = 4
  Serial = FALSE
  Requesters = {1, 2}
  MCPages <- ScenPages
  SkipZero = FALSE
  AcceptGuard = "handling"
  LazyCtrl = FALSE
INVARIANTS ContentsCopied NothingElseChanged CompleteOnce OneAtATime RoutedBack
CHECK_DEADLOCK FALSE
