SPECIFICATION Spec
CONSTANTS
  GPUs = {1, 2}
  Unit = 2
  PortCap = 1
  MCFrames <- Frames2
  FrameChunks = 2
  MaxMig = 3
  Serial = TRUE
  Requesters = {1, 2}
  MCPages <- Pages1
  SkipZero = FALSE
  AcceptGuard = "handling"
INVARIANTS TypeOK ContentsCopied NothingElseChanged CompleteOnce OneAtATime RoutedBack InRange AllServed
CHECK_DEADLOCK FALSE
