--------------------------- MODULE MC_Migration ---------------------------
EXTENDS Migration
\* three virtual pages: two on GPU 1, one on GPU 2; four physical pages per GPU
PT3 == (1 :> [dev |-> 1, ppn |-> 1, mig |-> FALSE]) @@ (2 :> [dev |-> 1, ppn |-> 2, mig |-> FALSE])
       @@ (3 :> [dev |-> 2, ppn |-> 1, mig |-> FALSE])
PP4 == [g \in GPUs |-> 1..4]
PP5 == [g \in GPUs |-> 1..5]
PT4 == PT3 @@ (4 :> [dev |-> 3, ppn |-> 1, mig |-> FALSE])
=============================================================================
