SPECIFICATION TSpec
CONSTANTS
  NGPU = 2
  PortCap = 1000000
  PT0MC <- NoPT
  PPagesMC <- NoPP
  MaxReq = 0
  ReplySlot = "overwrite"
INVARIANTS NoReplyDropped ContentsPreserved TableMapsToDestination NoAlias Allocated OthersUnchanged CopyOnlyWhenQuiet OnePageAtATime HandshakeOrder ReplyOnce
CONSTRAINT Mark
POSTCONDITION Accepted
CHECK_DEADLOCK FALSE
