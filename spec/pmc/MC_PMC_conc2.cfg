SPECIFICATION Spec
CONSTANTS
  GPUs = {1, 2}
  Unit = 1
  PortCap = 2
  MCFrames <- Frames3
  FrameChunks = 1
  MaxMig = 4
  Serial = FALSE
INVARIANTS TypeOK ContentsCopied NothingElseChanged CompleteOnce OneAtATime RoutedBack InRange AllServed
CHECK_DEADLOCK FALSE
