----------------------------- MODULE PMCScen -----------------------------
(* PMC with a history variable naming the step taken: `tlc -simulate` on   *)
(* this module yields behaviours whose environment steps become replay     *)
(* scenarios for the real controllers (controller steps become "await").   *)
(* Messages are named by their model id (request * 100 + chunk, + 50 for   *)
(* writes), which the harness recomputes from the real addresses.          *)
EXTENDS PMC
VARIABLE act
CONSTANT LazyCtrl   \* TRUE: the control side takes a completion only when another one is stalled behind it
                    \* (or at the very end) - back-pressure on the completion path with requests queued behind
AllReported == NumIssued = MaxMig /\ \A h \in GPUs : Len(done[h]) = Len(issued[h])
ScenFrames == [g \in GPUs |-> {0, 8, 16}]
ScenPages == [g \in GPUs |-> {0, 8}]   \* frame 16 of every GPU is free at the start
ScenPagesCtrl == [g \in GPUs |-> IF g = 1 THEN {} ELSE {0, 8, 16}]

SInit == Init /\ act = [a |-> "Init"]
Aw(e, g) == act' = [a |-> "Await", e |-> e, g |-> g]
SNext ==
  \/ \E g \in GPUs :
       \/ AcceptMig(g) /\ Aw("Accept", g)
       \/ RecvPullRsp(g) /\ Aw("RecvPullRsp", g)
       \/ SendComplete(g) /\ Aw("SendComplete", g)
       \/ RecvPull(g) /\ Aw("RecvPull", g)
       \/ RecvMem(g) /\ Aw("RecvMem", g)
       \* queued messages leave in queue order, as in the implementation, so that a replay can follow
       \/ (toPull[g] # {} /\ LET c == CHOOSE c \in toPull[g] : \A d \in toPull[g] : c <= d
                             IN SendPull(g, c, PullId(g, c))) /\ Aw("SendPull", g)
       \/ (writeQ[g] # <<>> /\ SendWrite(g, 1, WriteId(g, 1))) /\ Aw("SendWrite", g)
       \/ SendRead(g, 1) /\ Aw("SendRead", g)
       \/ SendPullRsp(g, 1) /\ Aw("SendPullRsp", g)
       \/ (LazyCtrl => (toCtrl[g] # <<>> \/ AllReported)) /\ TakeComplete(g) /\ act' = [a |-> "TakeComplete", g |-> g]
       \/ NetTake(g) /\ act' = [a |-> "NetTake", g |-> g]
       \/ MemTake(g) /\ act' = [a |-> "MemTake", g |-> g]
       \/ \E q \in memPend[g] : MemRsp(g, q) /\ act' = [a |-> "MemRsp", g |-> g, id |-> q.id]
  \/ \E m \in net : NetDeliver(m) /\ act' = [a |-> "NetDeliver", k |-> m.k, id |-> m.id]
  \/ /\ NumIssued < MaxMig /\ (Serial => ~Outstanding)
     /\ \E g \in Requesters, o \in GPUs, n \in 1..FrameChunks :
          /\ o # g
          /\ \E sb \in MCFrames[o], db \in MCFrames[g] :
               /\ SrcOK(o, sb) /\ DstOK(g, db)
               /\ EnvMig(g, [id |-> NextReqId, from |-> sb, to |-> db, n |-> n, owner |-> o, src |-> "CP",
                             snap |-> ReadMem(o, sb, n * Unit)])
               /\ act' = [a |-> "EnvMig", g |-> g, from |-> sb, to |-> db, n |-> n, owner |-> o]
SSpec == SInit /\ [][SNext]_<<vars, act>>
=============================================================================
