SPECIFICATION FairSpec
CONSTANTS
  PageSize = 4
  DevID = 1
  PortCap = 1
  Reqs <- MCReqs2
  PBases <- MCPBases
  RspData <- MCRspData1
  MaxReq = 2
  MaxFlush = 1
PROPERTIES Progress
CHECK_DEADLOCK FALSE
