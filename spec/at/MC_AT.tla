------------------------------ MODULE MC_AT ------------------------------
(* Model-checking instance: page size 4, two virtual pages (0..3, 4..7), two   *)
(* processes.  A1/A2 share page 0 in process 1 (coalescing), B hits page 0 in  *)
(* process 2 (same page, other process), C is page 1 in process 1.             *)
EXTENDS AddrTrans
A1 == [src |-> 1, p |-> [k |-> "r", a |-> <<0, 1>>, n |-> 4, d |-> <<>>, m |-> <<>>, pid |-> 1]]
A2 == [src |-> 2, p |-> [k |-> "w", a |-> <<0, 3>>, n |-> 2, d |-> <<9, 8>>, m |-> <<1, 0>>, pid |-> 1]]
B  == [src |-> 1, p |-> [k |-> "w", a |-> <<0, 2>>, n |-> 1, d |-> <<7>>, m |-> NilMask, pid |-> 2]]   \* write without a mask
C  == [src |-> 2, p |-> [k |-> "r", a |-> <<0, 6>>, n |-> 4, d |-> <<>>, m |-> <<>>, pid |-> 1]]
MCReqs == {A1, A2, B, C}
MCReqs3 == {A1, A2, B}
MCReqs2 == {A1, A2}
MCPBases == {<<0, 8>>, <<0, 12>>}
MCRspData == {<<5>>, <<6>>}
MCRspData1 == {<<5>>}
=============================================================================
