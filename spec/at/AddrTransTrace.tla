-------------------------- MODULE AddrTransTrace --------------------------
(***************************************************************************)
(* Trace specification: is a port-event log of the real                    *)
(* addresstranslator.Comp a behaviour of AddrTrans?  One log line = one    *)
(* port hook event = one action of AddrTrans, with the logged fields bound *)
(* to the action's arguments and compared with what the action produces.   *)
(* The only action without a port event is Mark (the component peeks at    *)
(* the head reply of the Translation port): it may fire between any two    *)
(* lines (TMark leaves the position unchanged).  Marking as early as        *)
(* possible only enables more (Forward, TakeLookupRsp; nothing is disabled *)
(* by it), so the trace spec marks eagerly: log lines are only consumed    *)
(* when no Mark is pending.  For the same reason an access that the log    *)
(* shows as coalesced joins a finished transaction of its page and process *)
(* if there is one (it may then be forwarded at any time).                 *)
(*                                                                         *)
(* Which waiting access a Forward line carries is not visible on the wire  *)
(* (the physical access has a fresh id): the spec chooses any waiting      *)
(* access whose translated payload equals the logged one; the later RspUp  *)
(* line (original id + bottom id at the head of Bottom) prunes wrong       *)
(* choices.                                                                *)
(***************************************************************************)
EXTENDS AddrTrans, TraceLib, Json

TraceLog == ndJsonDeserialize("trace.ndjson")
N == Len(TraceLog)

VARIABLES l,        \* position in TraceLog
          mode,     \* "run" | "ack" (CtrlRsp seen, CtrlTake pending)
          drainTop, drainBot, drainTr  \* what a restart still has to pull out of the incoming buffers
tvars == <<vars, l, mode, drainTop, drainBot, drainTr>>

ASSUME HWInit

Ev == TraceLog[l]
Run == mode = "run"
MarkPending == /\ Run /\ trIn # <<>>
               /\ \E i \in 1..Len(trans) : trans[i].tid = Head(trIn).to /\ ~trans[i].done
Is(e) == l <= N /\ Ev.e = e /\ l' = l + 1 /\ ~MarkPending
Same == UNCHANGED <<mode, drainTop, drainBot, drainTr>>

\* transactions the head access of Top may join
Cands == {i \in 1..Len(trans) : Matches(trans[i], Head(topIn))}
DoneCands == {i \in Cands : trans[i].done}
JoinChoice == IF DoneCands # {} THEN {CHOOSE i \in DoneCands : \A k \in DoneCands : i <= k} ELSE Cands

TInit == Init /\ l = 1 /\ mode = "run" /\ drainTop = <<>> /\ drainBot = <<>> /\ drainTr = <<>>

\* provider index the harness's page-granular mappers assign to an address
PageIdx(a, n) == (a[2] \div cfg.ps) % n

\* ------------------------------------------------------------ environment
TEnvReq        == Is("EnvReq") /\ EnvReq(Ev.id, Ev.src, Ev.p) /\ Same
TEnvTakeLookup == Is("EnvTakeLookup") /\ trOut # <<>> /\ Head(trOut).id = Ev.id /\ EnvTakeLookup /\ Same
TEnvTlbRsp     == Is("EnvTlbRsp") /\ EnvTlbRsp(Ev.id, Ev.pa) /\ Same
TEnvTakeDown   == Is("EnvTakeDown") /\ botOut # <<>> /\ Head(botOut).id = Ev.id /\ EnvTakeDown /\ Same
TEnvMemRsp     == Is("EnvMemRsp") /\ EnvMemRsp(Ev.id, Ev.d) /\ Same
TEnvTakeUp     == Is("EnvTakeUp") /\ topOut # <<>> /\ Head(topOut).to = Ev.id /\ EnvTakeUp /\ Same
TEnvCtrl       == Is("EnvCtrl") /\ EnvCtrl(Ev.k) /\ Same
TEnvTakeCtrl   == Is("EnvTakeCtrl") /\ EnvTakeCtrl /\ Same

\* -------------------------------------------------------------- component
\* Send@Translation: a lookup for the page and process of the head access, to the provider of its address
TTrSend ==
  /\ Is("TrSend") /\ Run
  /\ SendLookup(Ev.id)
  /\ LET r == Head(topIn) IN
       /\ PageOf(Ev.va) = PageOf(r.p.a) /\ Ev.pid = r.p.pid /\ Ev.dev = cfg.dev
       /\ Ev.dst = PageIdx(r.p.a, cfg.ntlb)
  /\ Same

\* RetrieveIncoming@Top
TAccept ==
  /\ Is("Accept")
  /\ IF mode = "ack"
     THEN /\ drainTop # <<>> /\ Head(drainTop) = Ev.id
          /\ drainTop' = Tail(drainTop) /\ UNCHANGED <<vars, mode, drainBot, drainTr>>
     ELSE /\ topIn # <<>> /\ Head(topIn).id = Ev.id
          /\ (Accept \/ \E i \in JoinChoice : Coalesce(i))
          /\ Same

\* PeekIncoming@Translation has no hook
TMark == l' = l /\ Run /\ (\E i \in 1..Len(trans) : Mark(i)) /\ Same

\* Send@Bottom: some waiting access of a finished lookup, translated; everything else unchanged
TForward ==
  /\ Is("Forward") /\ Run
  /\ \E i \in 1..Len(trans) : \E j \in 1..Len(trans[i].reqs) :
       /\ Forward(i, j, Ev.id)
       /\ LET f == fwd'[Len(fwd')].p IN
            /\ f.a = Ev.p.a /\ SamePayload(Ev.p, f)      \* data, size, kind, effective byte set
            /\ Ev.dst = PageIdx(f.a, cfg.nmem)
  /\ Same

\* RetrieveIncoming@Translation
TTrTake ==
  /\ Is("TrTake")
  /\ IF mode = "ack"
     THEN /\ drainTr # <<>> /\ Head(drainTr) = Ev.id
          /\ drainTr' = Tail(drainTr) /\ UNCHANGED <<vars, mode, drainTop, drainBot>>
     ELSE /\ trIn # <<>> /\ Head(trIn).to = Ev.id /\ TakeLookupRsp /\ Same

\* Send@Top: the response for the head of Bottom.incoming, original id, original requester, memory's data
TRspUp ==
  /\ Is("RspUp") /\ Run
  /\ botIn # <<>> /\ RspUp(Head(botIn).to)
  /\ LET r == rsps'[Len(rsps')] IN r.to = Ev.id /\ r.dst = Ev.dst /\ r.d = Ev.d
  /\ Same

\* RetrieveIncoming@Bottom
TBotTake ==
  /\ Is("BotTake")
  /\ IF mode = "ack"
     THEN /\ drainBot # <<>> /\ Head(drainBot) = Ev.id
          /\ drainBot' = Tail(drainBot) /\ UNCHANGED <<vars, mode, drainTop, drainTr>>
     ELSE /\ botIn # <<>> /\ Head(botIn).to = Ev.id /\ BotTake /\ Same

\* Send@Control (the acknowledgement), then the incoming buffers are emptied (restart), then RetrieveIncoming@Control
TCtrlRsp ==
  /\ Is("CtrlRsp") /\ Run /\ ctrlIn # <<>> /\ Ev.done = TRUE
  /\ \/ /\ Head(ctrlIn) = "discard" /\ Discard
        /\ drainTop' = <<>> /\ drainBot' = <<>> /\ drainTr' = <<>>
     \/ /\ Head(ctrlIn) = "restart" /\ Restart
        /\ drainTop' = [i \in 1..Len(topIn) |-> topIn[i].id]
        /\ drainBot' = [i \in 1..Len(botIn) |-> botIn[i].to]
        /\ drainTr' = [i \in 1..Len(trIn) |-> trIn[i].to]
  /\ mode' = "ack"

TCtrlTake ==
  /\ Is("CtrlTake") /\ mode = "ack" /\ drainTop = <<>> /\ drainBot = <<>> /\ drainTr = <<>>
  /\ mode' = "run" /\ UNCHANGED <<vars, drainTop, drainBot, drainTr>>

\* The driver drained every port, answered every lookup and every physical access and ran
\* the engine until no event was pending: nothing may be left inside the component.
TQuiesce ==
  /\ Is("Quiesce") /\ Run /\ EnvIdle /\ Settled
  /\ UNCHANGED vars /\ Same

\* End of a run between real neighbours (system mode): the engine ran out of events.  If the
\* neighbours owe nothing and the ports are empty, nothing may be left inside the translator
\* (an access waiting in a finished transaction while the engine is idle is a lost tick).
TEnd ==
  /\ Is("End") /\ Run /\ (EnvIdle => Settled)
  /\ UNCHANGED vars /\ Same

\* concatenated traces: start over with the logged configuration
TReset ==
  /\ Is("Reset") /\ Run
  /\ cfg' = [ps |-> Ev.ps, dev |-> Ev.dev, nmem |-> Ev.nmem, ntlb |-> Ev.ntlb]
  /\ topIn' = <<>> /\ claimed' = FALSE /\ topOut' = <<>>
  /\ trOut' = <<>> /\ tlbOwed' = {} /\ trIn' = <<>>
  /\ botOut' = <<>> /\ memOwed' = {} /\ botIn' = <<>>
  /\ ctrlIn' = <<>> /\ ctrlOut' = 0 /\ flushing' = FALSE
  /\ trans' = <<>> /\ inflight' = {}
  /\ pt' = <<>> /\ orig' = <<>> /\ accepted' = {} /\ fwd' = <<>> /\ rsps' = <<>> /\ memRsp' = <<>>
  /\ dropped' = {} /\ orphaned' = {}
  /\ usedTop' = {} /\ usedTr' = {} /\ usedBot' = {} /\ nFlush' = 0
  /\ Same

TNext == TEnvReq \/ TEnvTakeLookup \/ TEnvTlbRsp \/ TEnvTakeDown \/ TEnvMemRsp \/ TEnvTakeUp
         \/ TEnvCtrl \/ TEnvTakeCtrl
         \/ TTrSend \/ TAccept \/ TMark \/ TForward \/ TTrTake \/ TRspUp \/ TBotTake
         \/ TCtrlRsp \/ TCtrlTake \/ TQuiesce \/ TEnd \/ TReset

TSpec == TInit /\ [][TNext]_tvars

\* The invariants of AddrTrans, in a form that is cheap on long traces.  The history variables are
\* append-only within a run and every step appends at most one element, so checking the element
\* appended last in every state checks every element; "all different" is a cardinality.
LastOK(s, P(_)) == s = <<>> \/ P(Len(s))
TOnceDown == /\ Cardinality(FwdTops) = Len(fwd)
             /\ Cardinality({fwd[i].bot : i \in 1..Len(fwd)}) = Len(fwd)
TOnceUp == Cardinality(RspTos) = Len(rsps)
TPhysAddr == LastOK(fwd, LAMBDA i :
               LET o == orig[fwd[i].top].p
                   key == PTKey(o.pid, PageOf(o.a)) IN
               key \in DOMAIN pt /\ fwd[i].p.a = Phys(pt[key], o.a))
TPayload == LastOK(fwd, LAMBDA i :
              LET o == orig[fwd[i].top].p IN
              SamePayload(fwd[i].p, o))
TRspToOriginal == LastOK(rsps, LAMBDA i :
                    LET r == rsps[i] IN
                    /\ r.to \in DOMAIN orig
                    /\ r.dst = orig[r.to].src
                    /\ \E j \in 1..Len(fwd) : fwd[j].top = r.to /\ fwd[j].bot = r.bot
                    /\ r.bot \in DOMAIN memRsp /\ r.d = memRsp[r.bot]
                    /\ (orig[r.to].p.k = "w") <=> (r.d = WriteDone))

HW == HWNote(l)                   \* CONSTRAINT: records progress
Accepted == HWReport(N)           \* POSTCONDITION
=============================================================================
