SPECIFICATION TSpec
CONSTANTS
  PageSize = 4096
  DevID = 1
  PortCap = 1000000
  Reqs = {}
  PBases = {}
  RspData = {}
  MaxReq = 0
  MaxFlush = 0
INVARIANTS ExactlyOnceDown ExactlyOnceUp PhysAddr PayloadPreserved RspToOriginal NoCrossPID NoGhost FlushEmpty
CONSTRAINT HW
POSTCONDITION Accepted
CHECK_DEADLOCK FALSE
