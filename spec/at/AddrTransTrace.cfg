SPECIFICATION TSpec
CONSTANTS
  PageSize = 4096
  DevID = 1
  PortCap = 1000000
  Reqs = {}
  PBases = {}
  RspData = {}
  MaxReq = 0
  MaxFlush = 0
INVARIANTS TOnceDown TOnceUp TPhysAddr TPayload TRspToOriginal NoCrossPID NoGhost FlushEmpty
CONSTRAINT HW
POSTCONDITION Accepted
CHECK_DEADLOCK FALSE
