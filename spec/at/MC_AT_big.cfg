SPECIFICATION Spec
CONSTANTS
  PageSize = 4
  DevID = 1
  PortCap = 1
  Reqs <- MCReqs3
  PBases <- MCPBases
  RspData <- MCRspData1
  MaxReq = 3
  MaxFlush = 1
INVARIANTS TypeOK ExactlyOnceDown ExactlyOnceUp PhysAddr PayloadPreserved RspToOriginal NoCrossPID NoGhost FlushEmpty AllAnswered
CHECK_DEADLOCK FALSE
