--------------------------- MODULE AddrTransScen ---------------------------
(* AddrTrans with a history variable naming the step taken: `tlc -simulate` *)
(* on this module yields behaviours whose environment steps become replay  *)
(* scenarios for the real component (component steps become "Await").      *)
EXTENDS AddrTrans
VARIABLE act
RD(a, n, pid) == [k |-> "r", a |-> <<0, a>>, n |-> n, d |-> <<>>, m |-> <<>>, pid |-> pid]
WR(a, d, m, pid) == [k |-> "w", a |-> <<0, a>>, n |-> Len(d), d |-> d, m |-> m, pid |-> pid]
\* page size 4: page 0 = 0..3, page 1 = 4..7, page 2 = 8..11
MCReqs == {[src |-> 1, p |-> RD(1, 4, 1)], [src |-> 2, p |-> WR(3, <<9, 8>>, <<1, 0>>, 1)],
           [src |-> 1, p |-> WR(2, <<7, 6>>, NilMask, 2)], [src |-> 3, p |-> RD(0, 8, 2)],
           [src |-> 2, p |-> RD(6, 4, 1)], [src |-> 3, p |-> WR(5, <<5, 4, 3>>, <<1, 1, 0>>, 2)], [src |-> 2, p |-> WR(10, <<4>>, NilMask, 3)],
           [src |-> 1, p |-> RD(9, 2, 3)], [src |-> 2, p |-> RD(1, 4, 1)]}
MCPBases == {<<0, 16>>, <<0, 32>>, <<1, 64>>}
MCRspData == {<<7, 7, 1, 2>>, <<8, 0, 0, 8>>}

SInit == Init /\ act = [a |-> "Init"]
SNext ==
  \* as the code does it: join the pending lookup of the page and process if there is one, else ask
  \/ /\ SendLookup(NextTr) /\ ~\E i \in 1..Len(trans) : Matches(trans[i], Head(topIn)) /\ ~trans[i].done
     /\ act' = [a |-> "Await", e |-> "TrSend"]
  \/ (Accept \/ \E i \in 1..Len(trans) : ~trans[i].done /\ Coalesce(i)) /\ act' = [a |-> "Await", e |-> "Accept"]
  \/ (\E i \in 1..Len(trans) : Mark(i)) /\ act' = [a |-> "Tick", n |-> 1]
  \/ (\E i \in 1..Len(trans) : \E j \in 1..Len(trans[i].reqs) : Forward(i, j, NextBot)) /\ act' = [a |-> "Await", e |-> "Forward"]
  \/ TakeLookupRsp /\ act' = [a |-> "Await", e |-> "TrTake"]
  \/ (\E b \in usedBot : RspUp(b)) /\ act' = [a |-> "Await", e |-> "RspUp"]
  \/ BotTake /\ act' = [a |-> "Await", e |-> "BotTake"]
  \/ (Discard \/ Restart) /\ ctrlOut = 0 /\ act' = [a |-> "Await", e |-> "CtrlTake"]   \* the Control port holds one message
  \/ (NextTop <= MaxReq /\ \E r \in Reqs : EnvReq(NextTop, r.src, r.p) /\ act' = [a |-> "EnvReq", src |-> r.src, p |-> r.p])
  \/ EnvTakeLookup /\ act' = [a |-> "EnvTakeLookup"]
  \/ EnvTakeDown /\ act' = [a |-> "EnvTakeDown"]
  \/ EnvTakeUp /\ act' = [a |-> "EnvTakeUp"]
  \/ EnvTakeCtrl /\ act' = [a |-> "EnvTakeCtrl"]
  \/ \E q \in usedTr, pa \in PBases : EnvTlbRsp(q, pa) /\ act' = [a |-> "EnvTlbRsp", q |-> q, pa |-> pa]
  \/ \E b \in usedBot, d \in RspData \cup {WriteDone} : EnvMemRsp(b, d) /\ act' = [a |-> "EnvMemRsp", b |-> b, d |-> d]
  \/ \E k \in {"discard", "restart"} : (k = "discard" => nFlush < MaxFlush) /\ EnvCtrl(k) /\ act' = [a |-> "EnvCtrl", k |-> k]
SSpec == SInit /\ [][SNext]_<<vars, act>>
=============================================================================
