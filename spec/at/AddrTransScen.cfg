SPECIFICATION SSpec
CONSTANTS
  PageSize = 4
  DevID = 3
  PortCap = 2
  Reqs <- MCReqs
  PBases <- MCPBases
  RspData <- MCRspData
  MaxReq = 7
  MaxFlush = 1
INVARIANTS ExactlyOnceDown ExactlyOnceUp PhysAddr PayloadPreserved RspToOriginal NoCrossPID NoGhost FlushEmpty
CHECK_DEADLOCK FALSE
