----------------------------- MODULE AddrTrans -----------------------------
(***************************************************************************)
(* Address translator (amd/timing/mem/addresstranslator/addresstranslator.go).*)
(*                                                                         *)
(* One action per port operation of a Tick sub-step:                       *)
(*   translate()        SendLookup ; Accept      (new lookup)              *)
(*                      Coalesce                 (join a pending lookup)   *)
(*   parseTranslation() Mark ; Forward ; TakeLookupRsp   (reply handled)   *)
(*                      Mark                     (reply peeked, Bottom full)*)
(*                      Forward                  (drain a finished lookup) *)
(*                      TakeLookupRsp            (reply nobody waits for)  *)
(*   respond()          RspUp ; BotTake  |  BotTake (unknown response)     *)
(*   handleCtrlRequest  Discard | Restart                                  *)
(* The order of sub-steps inside a tick and the per-cycle width are free.  *)
(* The environment (requesters above, translation service, memory below,   *)
(* controller) is explicit: it may delay, reorder replies and apply        *)
(* back-pressure on every port.  The page table is revealed lazily by the  *)
(* translation service (any function of (pid, virtual page), fixed within  *)
(* a run), so model checking quantifies over page tables.                  *)
(*                                                                         *)
(* Addresses are pairs <<hi, lo>> (value hi * 2^30 + lo, lo < 2^30) because *)
(* TLC integers are 32-bit; the page size divides 2^30 and page bases are  *)
(* page aligned, so offsets never carry into hi.                           *)
(***************************************************************************)
EXTENDS Integers, Sequences, FiniteSets, TLC

CONSTANTS PageSize,   \* bytes per page (MC and default; a run's value lives in cfg.ps)
          DevID,      \* device id written into lookups
          PortCap,    \* capacity of each port buffer (back-pressure); large for trace validation
          Reqs,       \* set of [src, p] the requesters may issue (MC only)
          PBases,     \* physical page bases the translation service may answer with (MC only)
          RspData,    \* data digests memory may answer reads with (MC only)
          MaxReq,     \* bound on accesses issued (MC only)
          MaxFlush    \* bound on discard/restart rounds (MC only)

VARIABLES
  cfg,        \* [ps, dev]  configuration of the run (never changes within a run)
  topIn,      \* Seq of [id, src, p]       accesses waiting in Top.incoming
  claimed,    \* head of topIn already sits in a transaction (between Send@Translation and Retrieve@Top)
  topOut,     \* Seq of [to, dst, d]       responses in Top.outgoing
  trOut,      \* Seq of [id, va, pid, dev] lookups in Translation.outgoing
  tlbOwed,    \* set of lookups the translation service owes a reply for
  trIn,       \* Seq of [to, pa]           lookup replies in Translation.incoming
  botOut,     \* Seq of [id, p]            physical accesses in Bottom.outgoing
  memOwed,    \* set of [id, p]            physical accesses memory owes a response for
  botIn,      \* Seq of [to, d]            memory responses in Bottom.incoming
  ctrlIn, ctrlOut, flushing,
  trans,      \* Seq of [tid, page, pid, reqs, done, pa]   Comp.transactions
  inflight,   \* set of [bot, top]                         Comp.inflightReqToBottom
  \* history
  pt,         \* page table revealed so far: <<pid, vpage hi, vpage lo>> -> physical page base
  orig,       \* top id -> [src, p] of every access delivered to Top
  accepted,   \* set of top ids taken out of Top by translate()
  fwd,        \* Seq of [top, bot, p]   physical accesses sent, in send order
  rsps,       \* Seq of [to, dst, d, bot] responses sent upwards, in send order
  memRsp,     \* bottom id -> data memory answered with
  dropped,    \* top ids a flush removed before they were forwarded (never forwarded, never answered)
  orphaned,   \* top ids a flush removed after they were forwarded (never answered)
  usedTop, usedTr, usedBot, nFlush

topv  == <<topIn, claimed, topOut>>
trv   == <<trOut, tlbOwed, trIn>>
botv  == <<botOut, memOwed, botIn>>
ctlv  == <<ctrlIn, ctrlOut, flushing>>
histv == <<pt, orig, accepted, fwd, rsps, memRsp, dropped, orphaned>>
usedv == <<usedTop, usedTr, usedBot, nFlush>>
vars  == <<cfg, topv, trv, botv, ctlv, trans, inflight, histv, usedv>>

NoPA == <<-1, -1>>

PageOf(a) == <<a[1], a[2] - (a[2] % cfg.ps)>>
Off(a)    == a[2] % cfg.ps
Phys(pa, a) == <<pa[1], pa[2] + Off(a)>>
PTKey(pid, page) == <<pid, page[1], page[2]>>   \* flat key of the page table

Init ==
  /\ cfg = [ps |-> PageSize, dev |-> DevID]
  /\ topIn = <<>> /\ claimed = FALSE /\ topOut = <<>>
  /\ trOut = <<>> /\ tlbOwed = {} /\ trIn = <<>>
  /\ botOut = <<>> /\ memOwed = {} /\ botIn = <<>>
  /\ ctrlIn = <<>> /\ ctrlOut = 0 /\ flushing = FALSE
  /\ trans = <<>> /\ inflight = {}
  /\ pt = <<>> /\ orig = <<>> /\ accepted = {} /\ fwd = <<>> /\ rsps = <<>> /\ memRsp = <<>>
  /\ dropped = {} /\ orphaned = {}
  /\ usedTop = {} /\ usedTr = {} /\ usedBot = {} /\ nFlush = 0

Ids(s) == {s[i].id : i \in 1..Len(s)}
RemoveAt(s, i) == [k \in 1..(Len(s) - 1) |-> IF k < i THEN s[k] ELSE s[k + 1]]
TransIds == UNION {Ids(trans[i].reqs) : i \in 1..Len(trans)}
Matches(t, r) == t.page = PageOf(r.p.a) /\ t.pid = r.p.pid

\* ---------------------------------------------------------------- component
\* translate(), no coalescing opportunity taken: a lookup for the page of the head access.
SendLookup(q) ==
  /\ ~flushing /\ topIn # <<>> /\ ~claimed
  /\ Len(trOut) < PortCap
  /\ q \notin usedTr /\ usedTr' = usedTr \cup {q}
  /\ LET r == Head(topIn) IN
       /\ trans' = Append(trans, [tid |-> q, page |-> PageOf(r.p.a), pid |-> r.p.pid,
                                  reqs |-> <<r>>, done |-> FALSE, pa |-> NoPA])
       /\ trOut' = Append(trOut, [id |-> q, va |-> PageOf(r.p.a), pid |-> r.p.pid, dev |-> cfg.dev])
  /\ claimed' = TRUE
  /\ UNCHANGED <<cfg, topIn, topOut, tlbOwed, trIn, botv, ctlv, inflight, histv, usedTop, usedBot, nFlush>>

\* translate(), second half: the access leaves Top.incoming.
Accept ==
  /\ topIn # <<>> /\ claimed
  /\ accepted' = accepted \cup {Head(topIn).id}
  /\ topIn' = Tail(topIn) /\ claimed' = FALSE
  /\ UNCHANGED <<cfg, topOut, trv, botv, ctlv, trans, inflight, pt, orig, fwd, rsps, memRsp, dropped, orphaned, usedv>>

\* translate(), coalescing: the head access joins a transaction of the same page AND the same process.
Coalesce(i) ==
  /\ ~flushing /\ topIn # <<>> /\ ~claimed
  /\ i \in 1..Len(trans) /\ Matches(trans[i], Head(topIn))
  /\ trans' = [trans EXCEPT ![i].reqs = Append(@, Head(topIn))]
  /\ accepted' = accepted \cup {Head(topIn).id}
  /\ topIn' = Tail(topIn)
  /\ UNCHANGED <<cfg, claimed, topOut, trv, botv, ctlv, inflight, pt, orig, fwd, rsps, memRsp, dropped, orphaned, usedv>>

\* parseTranslation(): the reply at the head of Translation.incoming is peeked and recorded.
\* (No port event: the reply stays in the port until TakeLookupRsp.)
Mark(i) ==
  /\ trIn # <<>> /\ i \in 1..Len(trans)
  /\ trans[i].tid = Head(trIn).to /\ ~trans[i].done
  /\ trans' = [trans EXCEPT ![i].done = TRUE, ![i].pa = Head(trIn).pa]
  /\ UNCHANGED <<cfg, topv, trv, botv, ctlv, inflight, histv, usedv>>

\* parseTranslation(): one waiting access of a finished lookup goes down, translated.
Forward(i, j, b) ==
  /\ i \in 1..Len(trans) /\ trans[i].done
  /\ j \in 1..Len(trans[i].reqs)
  /\ Len(botOut) < PortCap
  /\ b \notin usedBot /\ usedBot' = usedBot \cup {b}
  /\ LET r  == trans[i].reqs[j]
         fp == [r.p EXCEPT !.a = Phys(trans[i].pa, r.p.a), !.pid = 0] IN
       /\ botOut' = Append(botOut, [id |-> b, p |-> fp])
       /\ inflight' = inflight \cup {[bot |-> b, top |-> r.id]}
       /\ fwd' = Append(fwd, [top |-> r.id, bot |-> b, p |-> fp])
       /\ trans' = IF Len(trans[i].reqs) = 1 THEN RemoveAt(trans, i)
                   ELSE [trans EXCEPT ![i].reqs = RemoveAt(@, j)]
  /\ UNCHANGED <<cfg, topv, trv, memOwed, botIn, ctlv, pt, orig, accepted, rsps, memRsp, dropped, orphaned, usedTop, usedTr, nFlush>>

\* parseTranslation(): the head reply leaves the port once nobody waits for it any more
\* (its lookup was recorded by Mark, or is unknown: flushed away).
TakeLookupRsp ==
  /\ trIn # <<>>
  /\ \A i \in 1..Len(trans) : trans[i].tid = Head(trIn).to => trans[i].done
  /\ trIn' = Tail(trIn)
  /\ UNCHANGED <<cfg, topv, trOut, tlbOwed, botv, ctlv, trans, inflight, histv, usedv>>

\* respond(): the memory response at the head of Bottom.incoming is turned into a response
\* to the original requester, with the original id.
RspUp(b) ==
  /\ ~flushing /\ botIn # <<>> /\ Head(botIn).to = b
  /\ Len(topOut) < PortCap
  /\ \E f \in inflight :
       /\ f.bot = b
       /\ inflight' = inflight \ {f}
       /\ topOut' = Append(topOut, [to |-> f.top, dst |-> orig[f.top].src, d |-> Head(botIn).d])
       /\ rsps' = Append(rsps, [to |-> f.top, dst |-> orig[f.top].src, d |-> Head(botIn).d, bot |-> b])
  /\ UNCHANGED <<cfg, topIn, claimed, trv, botv, ctlv, trans, pt, orig, accepted, fwd, memRsp, dropped, orphaned, usedv>>

\* respond(): the head response leaves the port once it is not (or no longer) awaited.
BotTake ==
  /\ ~flushing /\ botIn # <<>>
  /\ \A f \in inflight : f.bot # Head(botIn).to
  /\ botIn' = Tail(botIn)
  /\ UNCHANGED <<cfg, topv, trv, botOut, memOwed, ctlv, trans, inflight, histv, usedv>>

\* handleFlushReq(): acknowledge, forget every transaction and every forwarded access.
Discard ==
  /\ ctrlIn # <<>> /\ Head(ctrlIn) = "discard" /\ ~claimed
  /\ ctrlOut < PortCap
  /\ ctrlIn' = Tail(ctrlIn) /\ ctrlOut' = ctrlOut + 1
  /\ flushing' = TRUE
  /\ dropped' = dropped \cup TransIds
  /\ orphaned' = orphaned \cup {f.top : f \in inflight}
  /\ trans' = <<>> /\ inflight' = {}
  /\ UNCHANGED <<cfg, topv, trv, botv, pt, orig, accepted, fwd, rsps, memRsp, usedv>>

\* handleRestartReq(): acknowledge, empty the three incoming buffers, resume.
Restart ==
  /\ ctrlIn # <<>> /\ Head(ctrlIn) = "restart" /\ ~claimed
  /\ ctrlOut < PortCap
  /\ ctrlIn' = Tail(ctrlIn) /\ ctrlOut' = ctrlOut + 1
  /\ flushing' = FALSE
  /\ dropped' = dropped \cup Ids(topIn)
  /\ topIn' = <<>> /\ botIn' = <<>> /\ trIn' = <<>>
  /\ UNCHANGED <<cfg, claimed, topOut, trOut, tlbOwed, botOut, memOwed, trans, inflight,
                 pt, orig, accepted, fwd, rsps, memRsp, orphaned, usedv>>

\* -------------------------------------------------------------- environment
EnvReq(t, s, p) ==
  /\ t \notin usedTop /\ usedTop' = usedTop \cup {t}
  /\ Len(topIn) < PortCap
  /\ topIn' = Append(topIn, [id |-> t, src |-> s, p |-> p])
  /\ orig' = orig @@ (t :> [src |-> s, p |-> p])
  /\ UNCHANGED <<cfg, claimed, topOut, trv, botv, ctlv, trans, inflight,
                 pt, accepted, fwd, rsps, memRsp, dropped, orphaned, usedTr, usedBot, nFlush>>

EnvTakeLookup ==        \* the translation service receives a lookup
  /\ trOut # <<>>
  /\ tlbOwed' = tlbOwed \cup {Head(trOut)} /\ trOut' = Tail(trOut)
  /\ UNCHANGED <<cfg, topv, trIn, botv, ctlv, trans, inflight, histv, usedv>>

EnvTlbRsp(q, pa) ==     \* ... and answers any owed lookup, in any order, from its page table
  /\ Len(trIn) < PortCap
  /\ \E o \in tlbOwed :
       /\ o.id = q /\ tlbOwed' = tlbOwed \ {o}
       /\ LET key == PTKey(o.pid, o.va) IN
            /\ key \in DOMAIN pt => pt[key] = pa
            /\ pt' = IF key \in DOMAIN pt THEN pt ELSE pt @@ (key :> pa)
  /\ trIn' = Append(trIn, [to |-> q, pa |-> pa])
  /\ UNCHANGED <<cfg, topv, trOut, botv, ctlv, trans, inflight,
                 orig, accepted, fwd, rsps, memRsp, dropped, orphaned, usedv>>

EnvTakeDown ==          \* memory receives a physical access
  /\ botOut # <<>>
  /\ memOwed' = memOwed \cup {Head(botOut)} /\ botOut' = Tail(botOut)
  /\ UNCHANGED <<cfg, topv, trv, botIn, ctlv, trans, inflight, histv, usedv>>

WriteDone == <<-1>>
EnvMemRsp(b, d) ==      \* ... and answers any owed access, in any order
  /\ Len(botIn) < PortCap
  /\ \E o \in memOwed :
       /\ o.id = b /\ memOwed' = memOwed \ {o}
       /\ (o.p.k = "w") <=> (d = WriteDone)
  /\ botIn' = Append(botIn, [to |-> b, d |-> d])
  /\ memRsp' = memRsp @@ (b :> d)
  /\ UNCHANGED <<cfg, topv, trv, botOut, ctlv, trans, inflight,
                 pt, orig, accepted, fwd, rsps, dropped, orphaned, usedv>>

EnvTakeUp ==            \* a requester receives a response
  /\ topOut # <<>> /\ topOut' = Tail(topOut)
  /\ UNCHANGED <<cfg, topIn, claimed, trv, botv, ctlv, trans, inflight, histv, usedv>>

EnvCtrl(k) ==           \* the controller follows the flush protocol: discard, then restart
  /\ ctrlIn = <<>>
  /\ k = IF flushing THEN "restart" ELSE "discard"
  /\ ctrlIn' = <<k>>
  /\ nFlush' = nFlush + (IF k = "discard" THEN 1 ELSE 0)
  /\ UNCHANGED <<cfg, topv, trv, botv, ctrlOut, flushing, trans, inflight, histv, usedTop, usedTr, usedBot>>

EnvTakeCtrl ==
  /\ ctrlOut > 0 /\ ctrlOut' = ctrlOut - 1
  /\ UNCHANGED <<cfg, topv, trv, botv, ctrlIn, flushing, trans, inflight, histv, usedv>>

\* ---------------------------------------------------------------- MC next
NextTop == Cardinality(usedTop) + 1
NextBot == 100 + Cardinality(usedBot) + 1
NextTr  == 200 + Cardinality(usedTr) + 1

Translate == (\E q \in {NextTr} : SendLookup(q)) \/ Accept \/ (\E i \in 1..Len(trans) : Coalesce(i))
ParseTranslation ==
  \/ \E i \in 1..Len(trans) : Mark(i)
  \/ \E i \in 1..Len(trans) : \E j \in 1..Len(trans[i].reqs) : Forward(i, j, NextBot)
  \/ TakeLookupRsp
Respond == (\E b \in usedBot : RspUp(b)) \/ BotTake

CompNext == Translate \/ ParseTranslation \/ Respond \/ Discard \/ Restart

EnvNext ==
  \/ (NextTop <= MaxReq /\ \E r \in Reqs : EnvReq(NextTop, r.src, r.p))
  \/ EnvTakeLookup \/ EnvTakeDown \/ EnvTakeUp \/ EnvTakeCtrl
  \/ \E q \in usedTr, pa \in PBases : EnvTlbRsp(q, pa)
  \/ \E b \in usedBot, d \in RspData \cup {WriteDone} : EnvMemRsp(b, d)
  \/ \E k \in {"discard", "restart"} : (k = "discard" => nFlush < MaxFlush) /\ EnvCtrl(k)

Next == CompNext \/ EnvNext

Fairness ==
  /\ WF_vars(Translate) /\ WF_vars(ParseTranslation) /\ WF_vars(Respond)
  /\ WF_vars(Discard) /\ WF_vars(Restart)
  /\ WF_vars(EnvTakeLookup) /\ WF_vars(EnvTakeDown) /\ WF_vars(EnvTakeUp) /\ WF_vars(EnvTakeCtrl)
  /\ WF_vars(\E q \in usedTr, pa \in PBases : EnvTlbRsp(q, pa))
  /\ WF_vars(\E b \in usedBot, d \in RspData \cup {WriteDone} : EnvMemRsp(b, d))
  /\ WF_vars(EnvCtrl("restart"))

Spec == Init /\ [][Next]_vars
FairSpec == Spec /\ Fairness

\* -------------------------------------------------------------- properties
FwdTops == {fwd[i].top : i \in 1..Len(fwd)}
RspTos  == {rsps[i].to : i \in 1..Len(rsps)}

\* every access goes down at most once (and bottom ids are fresh)
ExactlyOnceDown == \A i, j \in 1..Len(fwd) : i # j => (fwd[i].top # fwd[j].top /\ fwd[i].bot # fwd[j].bot)
\* every access is answered at most once
ExactlyOnceUp == \A i, j \in 1..Len(rsps) : i # j => rsps[i].to # rsps[j].to
\* the physical address is the translated page base of the access's OWN (pid, page) plus its page offset
PhysAddr == \A i \in 1..Len(fwd) :
              LET o == orig[fwd[i].top].p
                  key == PTKey(o.pid, PageOf(o.a)) IN
              /\ key \in DOMAIN pt
              /\ fwd[i].p.a = Phys(pt[key], o.a)
\* A write's byte mask is either absent (Go nil: every byte is written), logged as NilMask, or one
\* flag per byte.  What must survive translation is the set of bytes the write takes effect on:
\* an absent mask may stay absent or become all-true, never all-false.
NilMask == <<-1>>
EffBytes(p) == IF p.m = NilMask THEN 1..Len(p.d) ELSE {i \in 1..Len(p.m) : p.m[i] = 1}
SamePayload(f, o) == f.k = o.k /\ f.n = o.n /\ f.d = o.d /\ EffBytes(f) = EffBytes(o)
\* kind, size, data and the effect of the byte mask go down unchanged
PayloadPreserved == \A i \in 1..Len(fwd) :
                      LET o == orig[fwd[i].top].p IN
                      /\ SamePayload(fwd[i].p, o)
\* the response goes to the original requester, carries the original id and what memory
\* answered to the physical access made for that very request
RspToOriginal == \A i \in 1..Len(rsps) :
                   LET r == rsps[i] IN
                   /\ r.to \in DOMAIN orig
                   /\ r.dst = orig[r.to].src
                   /\ \E j \in 1..Len(fwd) : fwd[j].top = r.to /\ fwd[j].bot = r.bot
                   /\ r.bot \in DOMAIN memRsp /\ r.d = memRsp[r.bot]
                   /\ (orig[r.to].p.k = "w") <=> (r.d = WriteDone)
\* accesses waiting on one lookup all belong to the lookup's page and process; lookups ask for page-aligned addresses
NoCrossPID == \A i \in 1..Len(trans) :
                /\ trans[i].reqs # <<>>
                /\ \A j \in 1..Len(trans[i].reqs) : Matches(trans[i], trans[i].reqs[j])
\* nothing removed by a flush reappears
NoGhost == /\ FwdTops \cap dropped = {}
           /\ RspTos \cap (dropped \cup orphaned) = {}
FlushEmpty == flushing => (trans = <<>> /\ inflight = {})
\* EnvIdle = every port buffer empty, the neighbours owe nothing; quiescent = nothing left to do for anybody
EnvIdle == /\ topIn = <<>> /\ ~claimed /\ topOut = <<>> /\ trOut = <<>> /\ tlbOwed = {} /\ trIn = <<>>
           /\ botOut = <<>> /\ memOwed = {} /\ botIn = <<>> /\ ctrlIn = <<>> /\ ctrlOut = 0 /\ ~flushing
Quiescent == EnvIdle /\ \A i \in 1..Len(trans) : ~trans[i].done      \* ... and no Forward enabled
Settled == /\ trans = <<>> /\ inflight = {}
           /\ \A t \in usedTop : \/ t \in dropped
                                 \/ (t \in FwdTops /\ (t \in orphaned \/ t \in RspTos))
AllAnswered == Quiescent => Settled
\* every access is eventually answered unless a flush removed it
Progress == \A t \in 1..MaxReq : [](t \in usedTop => <>(t \in dropped \/ t \in orphaned \/ t \in RspTos))

TypeOK == /\ flushing \in BOOLEAN /\ claimed \in BOOLEAN /\ ctrlOut \in 0..PortCap
          /\ accepted \subseteq usedTop /\ FwdTops \subseteq accepted \cup Ids(topIn)
=============================================================================
