---------------------------- MODULE HsacoTrace ----------------------------
(***************************************************************************)
(* Trace specification for C13: what the real loader (amd/insts/hsaco.go)  *)
(* returned, recorded by harness/cmd/c13, judged by HsacoOps!Load.         *)
(*                                                                         *)
(*  Reset                     start of a job                               *)
(*  File  symtab secs syms    the code object as debug/elf describes it    *)
(*                            (section table, symbol table, bytes of       *)
(*                            .text/.rodata): becomes the abstract file    *)
(*  Load  name api ver data sym m                                          *)
(*                            LoadKernelCodeObjectFrom{Bytes,FS,ELF}(name) *)
(*                            returned this kernel code object             *)
(*  Fatal name                the loader ended the process (log.Fatal)     *)
(*  Panic name msg            the loader panicked: never accepted          *)
(*                                                                         *)
(* A Load line is accepted iff every logged field equals what Load(file,   *)
(* name) gives.  "As implemented" deviations (DESIGN.md 2.2) are separate  *)
(* disjuncts, enabled by the constant Deviations, that accept the line     *)
(* only if it is exactly what the deviation predicts and the intended      *)
(* result is something else; they print <<"DEVIATION", line, name>> and    *)
(* checks/c13.py turns each into a known finding or a violation.           *)
(* A line that nothing explains prints <<"MISMATCH", line, fields>>.       *)
(***************************************************************************)
EXTENDS HsacoOps, TraceLib, Json

TraceLog == ndJsonDeserialize("trace.ndjson")
N == Len(TraceLog)

VARIABLES l,      \* position in TraceLog
          file    \* the abstract file of the current job
tvars == <<l, file>>

ASSUME HWInit

Ev == TraceLog[l]
Is(e) == l <= N /\ Ev.e = e /\ l' = l + 1
NoFile == [symtab |-> 0, secs |-> <<>>, syms |-> <<>>]
Dev(name) == PrintT(<<"DEVIATION", l, name>>)

FileOf(e) ==
  [symtab |-> e.symtab,
   secs |-> [i \in 1..Len(e.secs) |-> [name |-> e.secs[i].n, addr |-> e.secs[i].a, data |-> e.secs[i].d]],
   syms |-> [i \in 1..Len(e.syms) |-> [name |-> e.syms[i].n, shndx |-> e.syms[i].x, value |-> e.syms[i].v,
                                       size |-> e.syms[i].s]]]

MetaFields == {"r1", "r2", "r3", "ka", "lds", "priv", "entry", "fl", "sgpr", "vgpr", "cvmaj", "cvmin", "mk",
               "mvmaj", "mvmin", "mvstep"}
\* the accessors the dispatchers use are functions of rsrc2
AccOf(r2) == <<Bits(r2[2], 7, 7), Bits(r2[2], 8, 8), Bits(r2[2], 9, 9), Bits(r2[2], 11, 12), Bits(r2[2], 1, 5),
               Bits(r2[2], 0, 0)>>

\* names of the fields in which the logged result differs from the expected one
Diff(want, e) ==
  (IF want.ver # e.ver THEN {"ver"} ELSE {})
  \cup (IF want.data # e.data THEN {"data"} ELSE {})
  \cup (IF want.sym = 0 THEN (IF e.sym.x # -1 THEN {"sym"} ELSE {})
        ELSE LET s == file.syms[want.sym]
             IN IF <<e.sym.n, e.sym.x, e.sym.v, e.sym.s>> # <<s.name, s.shndx, s.value, s.size>> THEN {"sym"} ELSE {})
  \cup {fld \in MetaFields : want.meta[fld] # e.m[fld]}
  \cup (IF e.m.acc # AccOf(e.m.r2) THEN {"acc"} ELSE {})

TInit == l = 1 /\ file = NoFile

TReset == Is("Reset") /\ file' = NoFile

TFile == /\ Is("File")
         /\ LET f == FileOf(Ev) IN WellFormed(f) /\ file' = f

TLoad ==
  /\ Is("Load") /\ ~Has(Ev, "nil") /\ ~Has(Ev.m, "nil")
  /\ LET want == LoadWith(file, Ev.name, 44)
         impl == LoadWith(file, Ev.name, 40)
     IN \/ want.ok /\ Diff(want, Ev) = {}
        \/ /\ "KdRsrcOffByFour" \in Deviations /\ want.ok /\ impl.ok
           /\ Diff(want, Ev) # {} /\ Diff(impl, Ev) = {}
           /\ Dev("KdRsrcOffByFour")
        \/ /\ want.ok /\ Diff(want, Ev) # {}
           /\ ~("KdRsrcOffByFour" \in Deviations /\ impl.ok /\ Diff(impl, Ev) = {})
           /\ PrintT(<<"MISMATCH", l, Diff(want, Ev)>>)
           /\ FALSE
        \/ /\ ~want.ok                                   \* the loader returned something for a name it must refuse
           /\ PrintT(<<"MISMATCH", l, {"loaded_" \o want.why}>>)
           /\ FALSE
  /\ UNCHANGED file

\* the loader refuses a name that is not a kernel of the file, and "" when there are several
TFatal ==
  /\ Is("Fatal")
  /\ LET want == LoadWith(file, Ev.name, 44)
     IN \/ ~want.ok /\ want.why \in {"notfound", "ambiguous"}
        \/ want.ok /\ PrintT(<<"MISMATCH", l, {"refused"}>>) /\ FALSE
  /\ UNCHANGED file

TNext == TReset \/ TFile \/ TLoad \/ TFatal
TSpec == TInit /\ [][TNext]_tvars

Mark == HWNote(l)                 \* CONSTRAINT: records progress
Accepted == HWReport(N)           \* POSTCONDITION
=============================================================================
