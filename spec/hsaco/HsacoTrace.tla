---------------------------- MODULE HsacoTrace ----------------------------
(***************************************************************************)
(* Trace specification for C13: what the real loader (amd/insts/hsaco.go)  *)
(* returned, recorded by harness/cmd/c13, judged by HsacoOps!Load.         *)
(*                                                                         *)
(*  Reset                     start of a job (one process may run many)    *)
(*  File  [buf cv] symtab secs syms                                        *)
(*                            image buffer buf (default 0) holds, from now *)
(*                            on, the code object that debug/elf describes *)
(*                            so (section table, symbol table, bytes of    *)
(*                            .text/.rodata): a new image was copied to    *)
(*                            the start of the reused buffer, or the image *)
(*                            was patched in place                         *)
(*  Load  [buf k] name api ver data sym m                                  *)
(*                            LoadKernelCodeObjectFrom{Bytes,FS,ELF}(name) *)
(*                            on the buffer's current content returned     *)
(*                            this kernel code object (result number k)    *)
(*  Still k ver data sym m    result k, looked at again later              *)
(*  Scribble k                the caller overwrote its result k            *)
(*  Fatal [buf] name          the loader ended the process (log.Fatal)     *)
(*  Panic name msg            the loader panicked: never accepted          *)
(*                                                                         *)
(* History: a Load is judged against what the buffer holds at the time of  *)
(* the call and nothing else - the trace machine keeps no memory of        *)
(* earlier loads that could explain a result; a Still line must repeat the *)
(* Load line of that result field by field.                                *)
(*                                                                         *)
(* A Load line is accepted iff every logged field equals what Load(file,   *)
(* name) gives.  "As implemented" deviations (DESIGN.md 2.2) are separate  *)
(* disjuncts, enabled by the constant Deviations, that accept the line     *)
(* only if it is exactly what the deviation predicts and the intended      *)
(* result is something else; they print <<"DEVIATION", line, name>> and    *)
(* checks/c13.py turns each into a known finding or a violation.           *)
(* A line that nothing explains prints <<"MISMATCH", line, fields>>.       *)
(***************************************************************************)
EXTENDS HsacoOps, TraceLib, Json

TraceLog == ndJsonDeserialize("trace.ndjson")
N == Len(TraceLog)

VARIABLES l,      \* position in TraceLog
          bufs,   \* image buffer id -> the abstract file it holds NOW (ordinary jobs: buffer 0)
          kept    \* result number -> the Load line that produced it, for results the caller still holds unmodified
tvars == <<l, bufs, kept>>

ASSUME HWInit

Ev == TraceLog[l]
Is(e) == l <= N /\ Ev.e = e /\ l' = l + 1
NoFile == [symtab |-> 0, secs |-> <<>>, syms |-> <<>>]
Dev(name) == PrintT(<<"DEVIATION", l, name>>)

FileOf(e) ==
  [symtab |-> e.symtab,
   secs |-> [i \in 1..Len(e.secs) |-> [name |-> e.secs[i].n, addr |-> e.secs[i].a, data |-> e.secs[i].d]],
   syms |-> [i \in 1..Len(e.syms) |-> [name |-> e.syms[i].n, shndx |-> e.syms[i].x, value |-> e.syms[i].v,
                                       size |-> e.syms[i].s]]]

MetaFields == {"r1", "r2", "r3", "ka", "lds", "priv", "entry", "fl", "sgpr", "vgpr", "cvmaj", "cvmin", "mk",
               "mvmaj", "mvmin", "mvstep"}
\* the accessors the dispatchers use are functions of rsrc2
AccOf(r2) == <<Bits(r2[2], 7, 7), Bits(r2[2], 8, 8), Bits(r2[2], 9, 9), Bits(r2[2], 11, 12), Bits(r2[2], 1, 5),
               Bits(r2[2], 0, 0)>>

\* names of the fields in which the logged result differs from the expected one
BufOf(e) == IF Has(e, "buf") THEN e.buf ELSE 0
Cur(e) == IF BufOf(e) \in DOMAIN bufs THEN bufs[BufOf(e)] ELSE NoFile

Diff(file, want, e) ==
  (IF want.ver # e.ver THEN {"ver"} ELSE {})
  \cup (IF want.data # e.data THEN {"data"} ELSE {})
  \cup (IF want.sym = 0 THEN (IF e.sym.x # -1 THEN {"sym"} ELSE {})
        ELSE LET s == file.syms[want.sym]
             IN IF <<e.sym.n, e.sym.x, e.sym.v, e.sym.s>> # <<s.name, s.shndx, s.value, s.size>> THEN {"sym"} ELSE {})
  \cup {fld \in MetaFields : want.meta[fld] # e.m[fld]}
  \cup (IF e.m.acc # AccOf(e.m.r2) THEN {"acc"} ELSE {})

Empty == [x \in {} |-> 0]
TInit == l = 1 /\ bufs = Empty /\ kept = Empty

TReset == Is("Reset") /\ bufs' = Empty /\ kept' = Empty

\* the buffer holds this image from now on (a new image was copied into it, or it was patched in place);
\* results handed out earlier are not touched by that
TFile == /\ Is("File")
         /\ LET f == FileOf(Ev) IN WellFormed(f) /\ bufs' = (BufOf(Ev) :> f) @@ bufs
         /\ UNCHANGED kept

\* A load is judged against the CURRENT content of the buffer it was given, whatever was loaded before, whatever
\* the buffer held before and whatever callers did to earlier results.
TLoad ==
  /\ Is("Load") /\ ~Has(Ev, "nil") /\ ~Has(Ev.m, "nil")
  /\ LET file == Cur(Ev)
         want == LoadWith(file, Ev.name, 44)
         impl == LoadWith(file, Ev.name, 40)
     IN \/ want.ok /\ Diff(file, want, Ev) = {}
        \/ /\ "KdRsrcOffByFour" \in Deviations /\ want.ok /\ impl.ok
           /\ Diff(file, want, Ev) # {} /\ Diff(file, impl, Ev) = {}
           /\ Dev("KdRsrcOffByFour")
        \/ /\ want.ok /\ Diff(file, want, Ev) # {}
           /\ ~("KdRsrcOffByFour" \in Deviations /\ impl.ok /\ Diff(file, impl, Ev) = {})
           /\ PrintT(<<"MISMATCH", l, Diff(file, want, Ev)>>)
           /\ FALSE
        \/ /\ ~want.ok                                   \* the loader returned something for a name it must refuse
           /\ PrintT(<<"MISMATCH", l, {"loaded_" \o want.why}>>)
           /\ FALSE
  /\ kept' = IF Has(Ev, "k") THEN (Ev.k :> Ev) @@ kept ELSE kept
  /\ UNCHANGED bufs

\* the loader refuses a name that is not a kernel of the file, and "" when there are several
TFatal ==
  /\ Is("Fatal")
  /\ LET want == LoadWith(Cur(Ev), Ev.name, 44)
     IN \/ ~want.ok /\ want.why \in {"notfound", "ambiguous"}
        \/ want.ok /\ PrintT(<<"MISMATCH", l, {"refused"}>>) /\ FALSE
  /\ UNCHANGED <<bufs, kept>>

\* A result the caller still holds is a value of its own: later loads, new buffer contents and what other callers do
\* to THEIR results leave it as it was returned.
ResultFields == {"ver", "data", "sym", "m"}
TStill ==
  /\ Is("Still")
  /\ \/ /\ Ev.k \in DOMAIN kept
        /\ LET changed == {fld \in ResultFields : kept[Ev.k][fld] # Ev[fld]}
           IN \/ changed = {}
              \/ changed # {} /\ PrintT(<<"MISMATCH", l, {"changed_" \o fld : fld \in changed}>>) /\ FALSE
     \/ Ev.k \notin DOMAIN kept /\ PrintT(<<"MISMATCH", l, {"unknown_result"}>>) /\ FALSE
  /\ UNCHANGED <<bufs, kept>>

\* the caller overwrites the object it was handed: from now on nothing is expected of THAT result
TScribble ==
  /\ Is("Scribble")
  /\ kept' = [k \in DOMAIN kept \ {Ev.k} |-> kept[k]]
  /\ UNCHANGED bufs

TNext == TReset \/ TFile \/ TLoad \/ TFatal \/ TStill \/ TScribble
TSpec == TInit /\ [][TNext]_tvars

Mark == HWNote(l)                 \* CONSTRAINT: records progress
Accepted == HWReport(N)           \* POSTCONDITION
=============================================================================
