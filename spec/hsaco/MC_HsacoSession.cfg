\* the intended design: the loader keeps nothing between calls
SPECIFICATION SSpec
CONSTANTS
  Deviations = {}
  Kernels = {}
  Layouts = {}
  Pads = {}
  NoiseFront = {}
  MaxKernels = 0
  MaxNoise = 0
  MaxSwapLen = 0
  LoaderMemo = FALSE
  MaxLoads = 3
  MaxPuts = 2
  MaxPatches = 1
  MaxScribbles = 1
INVARIANTS FreshParse NoAlias FilesWellFormed
CHECK_DEADLOCK FALSE
