SPECIFICATION Spec
CONSTANTS
  Deviations = {}
  Kernels <- KQuick
  Layouts <- LQuick
  Pads = {0, 4}
  MaxKernels = 2
  MaxNoise = 1
  MaxSwapLen = 3
INVARIANTS TypeOK AlwaysWellFormed LoadIsTruth AutoDetect OthersRefused
CHECK_DEADLOCK FALSE
