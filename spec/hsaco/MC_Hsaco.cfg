\* two kernels in every order/placement/padding, two section layouts, symbol tables of up to 4 entries in every order
SPECIFICATION Spec
CONSTANTS
  Deviations = {}
  Kernels <- KQuick
  Layouts <- LQuick
  Pads = {4}
  NoiseFront = {TRUE}
  MaxKernels = 2
  MaxNoise = 0
  MaxSwapLen = 4
INVARIANTS TypeOK AlwaysWellFormed LoadIsTruth AutoDetect OthersRefused
CHECK_DEADLOCK FALSE
