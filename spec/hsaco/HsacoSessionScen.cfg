\* longer histories for simulation (scenario export) and the thorough tier
SPECIFICATION SSpec
CONSTANTS
  Deviations = {}
  Kernels = {}
  Layouts = {}
  Pads = {}
  NoiseFront = {}
  MaxKernels = 0
  MaxNoise = 0
  MaxSwapLen = 0
  LoaderMemo = FALSE
  MaxLoads = 6
  MaxPuts = 5
  MaxPatches = 2
  MaxScribbles = 2
INVARIANTS FreshParse NoAlias FilesWellFormed
CHECK_DEADLOCK FALSE
