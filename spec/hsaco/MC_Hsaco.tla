----------------------------- MODULE MC_Hsaco -----------------------------
(* Constants for model checking Hsaco: stored header / descriptor values,  *)
(* kernel descriptions, section layouts.                                   *)
EXTENDS Hsaco

\* stored amd_kernel_code_t values (genuine headers)
H1 == [salt |-> 3, maj |-> 1, min |-> 1, kind |-> 1, gen |-> 8, mvmin |-> 0, mvstep |-> 3, entry |-> 256,
       r1 |-> <<172, 132>>, r2 |-> <<0, 2448>>, fl |-> <<1, 0, 1, 0, 1, 0, 1, 0, 1, 0>>,
       priv |-> <<0, 16>>, lds |-> <<0, 1024>>, ka |-> <<0, 0, 0, 40>>, sgpr |-> 24, vgpr |-> 9]
H2 == [salt |-> 41, maj |-> 1, min |-> 0, kind |-> 1, gen |-> 9, mvmin |-> 4, mvstep |-> 2, entry |-> 256,
       r1 |-> <<1, 65535>>, r2 |-> <<43690, 21>>, fl |-> <<1, 1, 0, 0, 1, 1, 0, 0, 1, 1>>,
       priv |-> <<2, 0>>, lds |-> <<1, 2>>, ka |-> <<0, 3, 1, 8>>, sgpr |-> 102, vgpr |-> 256]
\* near misses: one field of the five-field signature is off (the bytes are instructions, not a header)
Near == {[H1 EXCEPT !.maj = 2], [H1 EXCEPT !.min = 3], [H1 EXCEPT !.kind = 2], [H1 EXCEPT !.gen = 6],
         [H1 EXCEPT !.gen = 10], [H1 EXCEPT !.entry = 0], [H1 EXCEPT !.entry = 512]}

\* stored kernel_descriptor_t values
S1 == [salt |-> 7, lds |-> <<0, 512>>, priv |-> <<0, 0>>, ka |-> <<0, 280>>, entry |-> Z64,
       r3 |-> <<0, 2>>, r1 |-> <<175, 65>>, r2 |-> <<0, 132>>, props |-> 8]
S2 == [salt |-> 29, lds |-> <<2, 4>>, priv |-> <<0, 64>>, ka |-> <<0, 0>>, entry |-> <<65535, 65535, 65535, 61440>>,
       r3 |-> <<0, 0>>, r1 |-> <<175, 7127>>, r2 |-> <<9, 7071>>, props |-> 63]

K(nm, tag, kind, body, h, s, sg, vg) ==
  [name |-> nm, tag |-> tag, kind |-> kind, body |-> body, h |-> h, s |-> s, sg |-> sg, vg |-> vg]

KernelsFor(nm, tag) ==
  {K(nm, tag, "v3", "plain", H1, S1, {}, {}), K(nm, tag, "v3", "plain", H2, S1, {}, {}),
   K(nm, tag, "v5", "plain", H1, S1, {}, {}), K(nm, tag, "v5", "plain", H1, S1, {4}, {3}),
   K(nm, tag, "v5", "plain", H1, S2, {40}, {120}), K(nm, tag, "v5", "mimic", H1, S2, {}, {13}),
   K(nm, tag, "v5", "mimic", H2, S1, {70}, {}),
   K(nm, tag, "raw", "plain", H1, S1, {}, {}), K(nm, tag, "raw", "short", H1, S1, {}, {})}
NearFor(nm, tag) == {K(nm, tag, "raw", "mimic", h, S1, {}, {}) : h \in Near}

FewFor(nm, tag) ==
  {K(nm, tag, "v3", "plain", H2, S1, {}, {}), K(nm, tag, "v5", "plain", H1, S1, {70}, {30}),
   K(nm, tag, "v5", "mimic", H1, S2, {}, {13}), K(nm, tag, "raw", "plain", H1, S1, {}, {})}

NearFew(nm, tag) == {K(nm, tag, "raw", "mimic", h, S1, {}, {}) :
                        h \in {[H1 EXCEPT !.maj = 2], [H1 EXCEPT !.gen = 10], [H1 EXCEPT !.entry = 0]}}
KQuick == {Prep(k) : k \in KernelsFor("ka", 1) \cup NearFew("ka", 1) \cup FewFor("kb", 2)}
KNoise == {Prep(k) : k \in {K("ka", 1, "v3", "plain", H1, S1, {}, {}), K("ka", 1, "v5", "plain", H1, S1, {}, {}),
                             K("ka", 1, "v5", "mimic", H1, S2, {}, {13}), K("ka", 1, "raw", "plain", H1, S1, {}, {}),
                             K("ka", 1, "raw", "mimic", [H1 EXCEPT !.entry = 0], S1, {}, {})}}
KOne == {Prep(k) : k \in KernelsFor("ka", 1) \cup NearFor("ka", 1)}
KMid == {Prep(k) : k \in KernelsFor("ka", 1) \cup KernelsFor("kb", 2) \cup NearFor("ka", 1)}
KThree == {Prep(k) : k \in FewFor("ka", 1) \cup FewFor("kb", 2) \cup FewFor("kc", 3)
                           \cup {K("ka", 1, "v5", "plain", H1, S1, {4, 40}, {3, 30}),
                                 K("kb", 2, "raw", "mimic", [H1 EXCEPT !.gen = 6], S1, {}, {})}}

LRel == [names |-> <<".text", ".rodata">>, addrs |-> <<Z64, Z64>>]
LDyn == [names |-> <<".note", ".rodata", ".text", ".data">>,
         addrs |-> <<W64(512), W64(4096), W64(8448), W64(12288)>>]
LHigh == [names |-> <<".text", ".data", ".rodata">>,
          addrs |-> <<<<1, 0, 65535, 65280>>, W64(0), <<0, 2, 65535, 65532>>>>]
LNoRo == [names |-> <<".data", ".text">>, addrs |-> <<W64(64), W64(4100)>>]
LQuick == {LRel, LDyn}
LOneDyn == {LDyn}
LBig == {LRel, LDyn, LHigh, LNoRo}
=============================================================================
