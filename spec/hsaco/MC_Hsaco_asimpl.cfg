\* the current tree's descriptor field offsets: TLC is EXPECTED to find LoadIsTruth violated (a lead that the
\* trace validation of the real loader then confirms on every V5 kernel)
SPECIFICATION Spec
CONSTANTS
  Deviations = {"KdRsrcOffByFour"}
  Kernels <- KOne
  Layouts <- LQuick
  Pads = {4}
  NoiseFront = {TRUE}
  MaxKernels = 1
  MaxNoise = 0
  MaxSwapLen = 2
INVARIANTS TypeOK AlwaysWellFormed LoadIsTruth
CHECK_DEADLOCK FALSE
