------------------------------- MODULE Hsaco -------------------------------
(***************************************************************************)
(* C13 as a machine.  The environment builds a code-object file step by    *)
(* step: it adds kernels (V2/V3 kernels with a genuine 256-byte header,    *)
(* V5 kernels with a 64-byte descriptor in .rodata and optional register   *)
(* count symbols, header-less kernels), adds symbols that have nothing to  *)
(* do with a kernel, swaps neighbours of the symbol table (every order is  *)
(* reachable), strips the symbol table of a single-kernel file.  The       *)
(* section layout (order of sections, section addresses) is chosen in the  *)
(* initial state.                                                          *)
(*                                                                         *)
(* `truth` is a history variable: for every kernel added, what the file    *)
(* stores for it, written down from the kernel's description (Truth) and   *)
(* NOT through Load.  The encoders below (MkHeader, MkKD) are a second,    *)
(* independent transcription of the two layouts (field tables), the        *)
(* parsers in HsacoOps use literal offsets.                                *)
(*                                                                         *)
(* The property: LoadIsTruth holds in every reachable state, i.e. Load     *)
(* returns exactly the kernel's bytes and metadata whatever the other      *)
(* kernels, the other symbols, the symbol order, the section addresses and *)
(* the bytes the instructions happen to start with.                        *)
(***************************************************************************)
EXTENDS HsacoOps

CONSTANTS Kernels,     \* prepared kernel descriptions the environment may add (Prep(k), see MC_Hsaco)
          Layouts,     \* section layouts: [names |-> <<...>>, addrs |-> <<W64...>>]
          Pads,        \* padding (bytes) the environment may put in front of a kernel / descriptor
          NoiseFront,  \* where an unrelated symbol may go: subset of BOOLEAN (TRUE = in front of all others)
          MaxKernels, MaxNoise, MaxSwapLen

VARIABLES file, truth
vars == <<file, truth>>

\* ------------------------------------------------------------- encoders
LE16(x) == <<x % 256, x \div 256>>
LE32(w) == LE16(w[2]) \o LE16(w[1])
LE64(w) == LE16(w[4]) \o LE16(w[3]) \o LE16(w[2]) \o LE16(w[1])
Filler(n, salt) == [p \in 1..n |-> (p * 13 + salt) % 256]
\* n bytes: the fields (<<0-based offset, bytes>>) over a filler that is never 0
Layout(n, salt, fields) ==
  [p \in 1..n |->
     LET hit == {i \in 1..Len(fields) : p > fields[i][1] /\ p <= fields[i][1] + Len(fields[i][2])}
     IN IF hit = {} THEN 1 + ((p * 13 + salt) % 255)
        ELSE LET i == CHOOSE i \in hit : TRUE IN fields[i][2][p - fields[i][1]]]
Sum(fl) == LET F[i \in 0..Len(fl)] == IF i = 0 THEN 0 ELSE F[i - 1] + (fl[i] * (2 ^ (i - 1))) IN F[Len(fl)]

\* amd_kernel_code_t (AMDKernelCodeT.h), h = the stored values
MkHeader(h) ==
  Layout(HdrLen, h.salt,
    << <<0, LE32(<<0, h.maj>>)>>, <<4, LE32(<<0, h.min>>)>>, <<8, LE16(h.kind)>>, <<10, LE16(h.gen)>>,
       <<12, LE16(h.mvmin)>>, <<14, LE16(h.mvstep)>>, <<16, LE64(W64(h.entry))>>,
       <<48, LE32(h.r1)>>, <<52, LE32(h.r2)>>, <<56, LE32(<<0, Sum(h.fl)>>)>>, <<60, LE32(h.priv)>>,
       <<64, LE32(h.lds)>>, <<72, LE64(h.ka)>>, <<84, LE16(h.sgpr)>>, <<86, LE16(h.vgpr)>> >>)

\* kernel_descriptor_t (AMDHSAKernelDescriptor.h), s = the stored values
MkKD(s) ==
  Layout(64, s.salt,
    << <<0, LE32(s.lds)>>, <<4, LE32(s.priv)>>, <<8, LE32(s.ka)>>, <<16, LE64(s.entry)>>,
       <<44, LE32(s.r3)>>, <<48, LE32(s.r1)>>, <<52, LE32(s.r2)>>, <<56, LE16(s.props)>> >>)

Code(tag, n) == [j \in 1..n |-> (tag * 53 + j * 7) % 256]

\* ---------------------------------------------- kernel description -> file content, truth
\* k = [name, tag, kind \in {"v3","v5","raw"}, body, h (header values), s (descriptor values),
\*      sg, vg (sets of values of the register-count symbols)]
Body(k) ==
  CASE k.body = "plain" -> Code(k.tag, 12)
    [] k.body = "mimic" -> MkHeader(k.h) \o Code(k.tag, 8)           \* instructions that look like a header
    [] k.body = "short" -> SubSeq(MkHeader(k.h), 1, HdrLen - 1)      \* signature, but not 256 bytes
Image(k) == IF k.kind = "v3" THEN MkHeader(k.h) \o Code(k.tag, 12) ELSE Body(k)

HeaderTruth(h) ==
  [r1 |-> h.r1, r2 |-> h.r2, r3 |-> Z32, ka |-> h.ka, lds |-> h.lds, priv |-> h.priv, entry |-> Z64, fl |-> h.fl,
   sgpr |-> h.sgpr, vgpr |-> h.vgpr, cvmaj |-> <<0, h.maj>>, cvmin |-> <<0, h.min>>, mk |-> h.kind,
   mvmaj |-> h.gen, mvmin |-> h.mvmin, mvstep |-> h.mvstep]

Truth(k) ==
  CASE k.kind = "v3"  -> [ver |-> 3, data |-> Code(k.tag, 12), meta |-> HeaderTruth(k.h)]
    [] k.kind = "raw" -> [ver |-> 5, data |-> Body(k), meta |-> ZeroMeta]
    [] k.kind = "v5"  -> [ver |-> 5, data |-> Body(k),
                          meta |-> OverrideRegs(V5Derive([lds |-> k.s.lds, priv |-> k.s.priv, ka |-> k.s.ka,
                                                          entry |-> k.s.entry, r3 |-> k.s.r3, r1 |-> k.s.r1,
                                                          r2 |-> k.s.r2]), k.sg, k.vg)]

\* what AddKernel needs of a description, computed once per description (TLC caches constants)
Prep(k) == [name |-> k.name, kind |-> k.kind, img |-> Image(k), kdb |-> IF k.kind = "v5" THEN MkKD(k.s) ELSE <<>>,
            sg |-> k.sg, vg |-> k.vg, res |-> Truth(k)]

\* ------------------------------------------------------------------ machine
Init ==
  /\ \E lay \in Layouts :
       file = [symtab |-> 1,
               secs |-> [i \in 1..Len(lay.names) |-> [name |-> lay.names[i], addr |-> lay.addrs[i], data |-> <<>>]],
               syms |-> <<>>]
  /\ truth = [n \in {} |-> 0]

Ti == SecIdx(file, ".text")
Ri == SecIdx(file, ".rodata")
Put(front, group) == IF front THEN group \o file.syms ELSE file.syms \o group
AbsSym(nm, v) == [name |-> nm, shndx |-> SHN_ABS, value |-> W64(v), size |-> Z64]
SetSeq(S) == LET F[T \in SUBSET S] == IF T = {} THEN <<>> ELSE LET x == CHOOSE x \in T : \A y \in T : x <= y
                                                                  IN <<x>> \o F[T \ {x}]
             IN F[S]

AddKernel(k, front, pad) ==
  /\ file.symtab = 1 /\ k.name \notin DOMAIN truth /\ Cardinality(DOMAIN truth) < MaxKernels
  /\ \A i \in 1..Len(file.syms) : file.syms[i].name # k.name \o ".kd"    \* no stray descriptor symbol of that name
  /\ k.kind = "v5" => Ri # 0
  /\ LET text == file.secs[Ti]
         img == k.img
         ksym == [name |-> k.name, shndx |-> Ti, value |-> Add64(text.addr, Len(text.data) + pad),
                  size |-> W64(Len(img))]
         rod == file.secs[Ri]
         kdsym == [name |-> k.name \o ".kd", shndx |-> Ri, value |-> Add64(rod.addr, Len(rod.data) + pad),
                   size |-> W64(64)]
         msyms == [i \in 1..Cardinality(k.sg) |-> AbsSym(k.name \o ".numbered_sgpr", SetSeq(k.sg)[i])]
                  \o [i \in 1..Cardinality(k.vg) |-> AbsSym(k.name \o ".num_vgpr", SetSeq(k.vg)[i])]
         group == IF k.kind = "v5" THEN IF front THEN <<kdsym, ksym>> \o msyms ELSE msyms \o <<ksym, kdsym>>
                  ELSE <<ksym>>
         secs1 == [file.secs EXCEPT ![Ti].data = @ \o Filler(pad, 91) \o img]
         secs2 == IF k.kind = "v5" THEN [secs1 EXCEPT ![Ri].data = @ \o Filler(pad, 17) \o k.kdb] ELSE secs1
     IN file' = [file EXCEPT !.secs = secs2, !.syms = Put(front, group)]
  /\ truth' = [n \in DOMAIN truth \cup {k.name} |-> IF n = k.name THEN [kind |-> k.kind, res |-> k.res] ELSE truth[n]]

(* Symbols that have nothing to do with loading kernel n: a label inside   *)
(* .text, a sized object in another section, an undefined sized symbol, a  *)
(* <n>.kd that is not a descriptor (wrong size; right size but not in      *)
(* .rodata) for a kernel that has none, register-count symbols of a        *)
(* kernel with a longer name, a sized local function inside .text.         *)
OtherSec == IF \E i \in 1..Len(file.secs) : file.secs[i].name \notin {".text", ".rodata"}
            THEN CHOOSE i \in 1..Len(file.secs) : file.secs[i].name \notin {".text", ".rodata"} ELSE SHN_ABS
HasKD(n) == \E i \in 1..Len(file.syms) : file.syms[i].name = n \o ".kd" /\ file.syms[i].size = W64(64)
NoiseSyms ==
  {[name |-> "BB0_1", shndx |-> Ti, value |-> Add64(file.secs[Ti].addr, 4), size |-> Z64],
   [name |-> "tbl", shndx |-> OtherSec, value |-> W64(0), size |-> W64(64)],
   [name |-> "ext", shndx |-> 0, value |-> Z64, size |-> W64(8)]}
  \cup {[name |-> n \o ".kd", shndx |-> IF Ri # 0 THEN Ri ELSE OtherSec, value |-> W64(0), size |-> W64(32)] : n \in DOMAIN truth}
  \cup {[name |-> n \o ".kd", shndx |-> OtherSec, value |-> W64(0), size |-> W64(64)] : n \in {m \in DOMAIN truth : ~HasKD(m)}}
  \cup {[name |-> n \o "x.num_vgpr", shndx |-> SHN_ABS, value |-> W64(200), size |-> Z64] : n \in DOMAIN truth}
  \cup {[name |-> n \o "x.numbered_sgpr", shndx |-> SHN_ABS, value |-> W64(90), size |-> Z64] : n \in DOMAIN truth}
  \cup (IF Len(file.secs[Ti].data) >= 4
        THEN {[name |-> "helper", shndx |-> Ti, value |-> file.secs[Ti].addr, size |-> W64(4)]} ELSE {})

NNoise == Cardinality({i \in 1..Len(file.syms) : file.syms[i] \in NoiseSyms})
AddNoise(s, front) ==
  /\ file.symtab = 1 /\ s \in NoiseSyms /\ NNoise < MaxNoise
  /\ \A i \in 1..Len(file.syms) : file.syms[i] # s
  /\ file' = [file EXCEPT !.syms = Put(front, <<s>>)]
  /\ UNCHANGED truth

Swap(i) ==
  /\ file.symtab = 1 /\ Len(file.syms) <= MaxSwapLen /\ i \in 1..Len(file.syms) - 1
  /\ LET s == file.syms IN file' = [file EXCEPT !.syms = [s EXCEPT ![i] = s[i + 1], ![i + 1] = s[i]]]
  /\ UNCHANGED truth

\* a stripped file: only meaningful when .text is exactly one header-style (or header-less) kernel
StripSymtab ==
  /\ file.symtab = 1 /\ Cardinality(DOMAIN truth) = 1 /\ KernelSyms(file) # {}
  /\ \A n \in DOMAIN truth : truth[n].kind # "v5"
  /\ \A i \in KernelSyms(file) : file.syms[i].value = file.secs[Ti].addr /\ file.syms[i].size = W64(Len(file.secs[Ti].data))
  /\ file' = [file EXCEPT !.symtab = 0]
  /\ UNCHANGED truth

Next == \/ \E k \in Kernels, front \in BOOLEAN, pad \in Pads : AddKernel(k, front, pad)
        \/ \E s \in NoiseSyms, front \in NoiseFront : AddNoise(s, front)
        \/ \E i \in 1..MaxSwapLen : Swap(i)
        \/ StripSymtab
Spec == Init /\ [][Next]_vars

\* --------------------------------------------------------------- properties
Res(r) == [ver |-> r.ver, data |-> r.data, meta |-> r.meta]
LoadIsTruth ==
  \A n \in DOMAIN truth :
     LET r == Load(file, n)
     IN /\ r.ok /\ Res(r) = truth[n].res
        /\ file.symtab = 1 => r.sym \in 1..Len(file.syms) /\ file.syms[r.sym].name = n

\* a single kernel needs no name
AutoDetect == (file.symtab = 1 /\ Cardinality(KernelSyms(file)) = 1 /\ DOMAIN truth # {})
              => \A n \in DOMAIN truth : Load(file, "") = Load(file, n)
\* names of symbols that are not kernels are not loadable, several kernels need a name
OthersRefused ==
  file.symtab = 1 =>
     /\ \A i \in 1..Len(file.syms) : i \notin KernelSyms(file) /\ file.syms[i].name \notin DOMAIN truth
                                      => Load(file, file.syms[i].name) = Refuse("notfound")
     /\ Cardinality(KernelSyms(file)) > 1 => Load(file, "") = Refuse("ambiguous")
AlwaysWellFormed == WellFormed(file)
TypeOK == /\ file.symtab \in {0, 1}
          /\ \A i \in 1..Len(file.syms) : file.syms[i].shndx \in 0..Len(file.secs) \cup {SHN_ABS}
          /\ \A n \in DOMAIN truth : truth[n].res.ver \in {3, 5} /\ truth[n].kind \in {"v3", "v5", "raw"}
=============================================================================
