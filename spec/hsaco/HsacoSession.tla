--------------------------- MODULE HsacoSession ---------------------------
(***************************************************************************)
(* C13, history dimension.  The loader is called again and again in one    *)
(* process; callers reuse image buffers: a new code object is copied to    *)
(* the start of a buffer that held another one, an image is patched in     *)
(* place (first instruction of a kernel := s_endpgm), the same kernel name *)
(* (or "") is asked for again, a caller overwrites the object it was       *)
(* handed.  The property: EVERY load returns Load(content of the buffer at *)
(* the time of the call) - a function of the bytes given now, not of the   *)
(* history - and every load returns an object of its own.                  *)
(*                                                                         *)
(* Loader state is explicit: `objs` is the heap of returned objects,       *)
(* `memo` what a loader could remember between calls.  LoaderMemo = FALSE  *)
(* is the intended design (the loader keeps nothing); LoaderMemo = TRUE    *)
(* is a loader that remembers results by (buffer, kernel name): TLC is     *)
(* EXPECTED to violate FreshParse and NoAlias there (negative control;     *)
(* the behaviours of this module, replayed on the real loader through      *)
(* harness/cmd/c13 sessions, are what exposes such a loader).              *)
(***************************************************************************)
EXTENDS MC_Hsaco, TLC

CONSTANTS LoaderMemo, MaxLoads, MaxPuts, MaxPatches, MaxScribbles

VARIABLES bufs,       \* buffer id -> abstract file it holds now (NoF: nothing yet)
          objs,       \* heap of kernel code objects handed out (a result record, or Garbage once overwritten)
          results,    \* history of loads: [b, name, obj (index into objs), expect (Load at call time)]
          scribbled,  \* results whose holder overwrote the object
          memo,       \* <<buffer, name>> -> object, what a memoising loader remembers
          cnt,        \* [put, patch] counters (bounds)
          act         \* history variable: the step taken (-> session steps for the real loader)
svars == <<bufs, objs, results, scribbled, memo, cnt, act, file, truth>>

Bufs == {0, 1}
NoF == [symtab |-> 0, secs |-> <<>>, syms |-> <<>>]
Garbage == [ok |-> FALSE, why |-> "scribbled"]
SEndpgm == <<0, 0, 129, 191>>                          \* 0xBF810000 little endian

\* a code object built in one go: kernels ks (prepared descriptions) in layout lay, 4 bytes of padding before each
MkFile(lay, ks) ==
  LET ti == CHOOSE i \in 1..Len(lay.names) : lay.names[i] = ".text"
      R == {i \in 1..Len(lay.names) : lay.names[i] = ".rodata"}
      ri == IF R = {} THEN 0 ELSE CHOOSE i \in R : TRUE
      F[i \in 0..Len(ks)] ==
        IF i = 0 THEN [text |-> <<>>, rod |-> <<>>, syms |-> <<>>]
        ELSE LET p == F[i - 1]
                 k == ks[i]
                 ksym == [name |-> k.name, shndx |-> ti, value |-> Add64(lay.addrs[ti], Len(p.text) + 4),
                          size |-> W64(Len(k.img))]
                 kdsym == [name |-> k.name \o ".kd", shndx |-> ri, value |-> Add64(lay.addrs[ri], Len(p.rod)),
                           size |-> W64(64)]
                 msyms == [j \in 1..Cardinality(k.sg) |-> AbsSym(k.name \o ".numbered_sgpr", SetSeq(k.sg)[j])]
                          \o [j \in 1..Cardinality(k.vg) |-> AbsSym(k.name \o ".num_vgpr", SetSeq(k.vg)[j])]
             IN [text |-> p.text \o Filler(4, 91) \o k.img,
                 rod |-> IF k.kind = "v5" THEN p.rod \o k.kdb ELSE p.rod,
                 syms |-> IF k.kind = "v5" THEN p.syms \o <<ksym, kdsym>> \o msyms ELSE p.syms \o <<ksym>>]
      r == F[Len(ks)]
  IN [symtab |-> 1,
      secs |-> [i \in 1..Len(lay.names) |->
                  [name |-> lay.names[i], addr |-> lay.addrs[i],
                   data |-> IF i = ti THEN r.text ELSE IF i = ri THEN r.rod ELSE <<>>]],
      syms |-> r.syms]

\* four code objects; "ka" is a kernel of every one of them (a different one each time), FA and FB have one kernel
FA == MkFile(LRel, <<Prep(K("ka", 1, "v3", "plain", H1, S1, {}, {}))>>)
FB == MkFile(LRel, <<Prep(K("ka", 4, "v5", "plain", H1, S1, {70}, {30}))>>)
FC == MkFile(LDyn, <<Prep(K("kb", 2, "raw", "plain", H1, S1, {}, {})), Prep(K("ka", 5, "v3", "plain", H2, S1, {}, {}))>>)
FD == MkFile(LDyn, <<Prep(K("ka", 6, "v5", "mimic", H1, S2, {}, {13})), Prep(K("kb", 7, "v3", "plain", H1, S1, {}, {}))>>)
Files == <<FA, FB, FC, FD>>
Names == {"ka", "kb", ""}

\* the image with the first instruction of kernel `name` replaced by s_endpgm; skip = where the instructions start
Skip(f, name) == IF Load(f, name).ver = 3 THEN HdrLen ELSE 0
Patched(f, name) ==
  LET r == Load(f, name)
      s == f.syms[r.sym]
      ti == SecIdx(f, ".text")
      off == Val(Sub64(s.value, f.secs[ti].addr)) + Skip(f, name)
      d == f.secs[ti].data
  IN [f EXCEPT !.secs[ti].data = [p \in 1..Len(d) |-> IF p > off /\ p <= off + 4 THEN SEndpgm[p - off] ELSE d[p]]]

SInit == /\ bufs = [b \in Bufs |-> NoF] /\ objs = <<>> /\ results = <<>> /\ scribbled = {}
         /\ memo = [x \in {} |-> 0] /\ cnt = [put |-> 0, patch |-> 0] /\ act = [a |-> "Init"]
         /\ file = NoF /\ truth = [n \in {} |-> 0]

PutFile(b, i) ==
  /\ cnt.put < MaxPuts /\ bufs[b] # Files[i]
  /\ bufs' = [bufs EXCEPT ![b] = Files[i]] /\ cnt' = [cnt EXCEPT !.put = @ + 1]
  /\ act' = [a |-> "Put", b |-> b, f |-> i]
  /\ UNCHANGED <<objs, results, scribbled, memo>>

Patch(b, name) ==
  /\ cnt.patch < MaxPatches /\ bufs[b] # NoF /\ name # "" /\ Load(bufs[b], name).ok
  /\ Patched(bufs[b], name) # bufs[b]
  /\ bufs' = [bufs EXCEPT ![b] = Patched(bufs[b], name)] /\ cnt' = [cnt EXCEPT !.patch = @ + 1]
  /\ act' = [a |-> "Patch", b |-> b, name |-> name, skip |-> Skip(bufs[b], name)]
  /\ UNCHANGED <<objs, results, scribbled, memo>>

DoLoad(b, name) ==
  /\ Len(results) < MaxLoads /\ bufs[b] # NoF
  /\ LET want == Load(bufs[b], name)
         key == <<b, name>>
     IN /\ want.ok
        /\ IF LoaderMemo /\ key \in DOMAIN memo
           THEN /\ results' = Append(results, [b |-> b, name |-> name, obj |-> memo[key], expect |-> want])
                /\ UNCHANGED <<objs, memo>>
           ELSE /\ objs' = Append(objs, want)
                /\ results' = Append(results, [b |-> b, name |-> name, obj |-> Len(objs) + 1, expect |-> want])
                /\ memo' = IF LoaderMemo THEN (key :> Len(objs) + 1) @@ memo ELSE memo
  /\ act' = [a |-> "Load", b |-> b, name |-> name]
  /\ UNCHANGED <<bufs, scribbled, cnt>>

Scribble(k) ==
  /\ k \in 1..Len(results) /\ k \notin scribbled /\ Cardinality(scribbled) < MaxScribbles
  /\ objs' = [objs EXCEPT ![results[k].obj] = Garbage]
  /\ scribbled' = scribbled \cup {k}
  /\ act' = [a |-> "Scribble", k |-> k]
  /\ UNCHANGED <<bufs, results, memo, cnt>>

SNext == /\ \/ \E b \in Bufs, i \in 1..Len(Files) : PutFile(b, i)
            \/ \E b \in Bufs, n \in Names : Patch(b, n)
            \/ \E b \in Bufs, n \in Names : DoLoad(b, n)
            \/ \E k \in 1..MaxLoads : Scribble(k)
         /\ UNCHANGED <<file, truth>>
SSpec == SInit /\ [][SNext]_svars

\* every result a caller still holds untouched is what the bytes said at the time of ITS call
FreshParse == \A k \in 1..Len(results) : k \notin scribbled => objs[results[k].obj] = results[k].expect
\* no two loads hand out the same object
NoAlias == \A j, k \in 1..Len(results) : j # k => results[j].obj # results[k].obj
FilesWellFormed == \A i \in 1..Len(Files) : WellFormed(Files[i]) /\ WellFormed(Patched(Files[i], "ka"))
=============================================================================
