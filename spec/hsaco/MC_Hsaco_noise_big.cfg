\* thorough: one kernel of every kind (all near misses) among up to two unrelated symbols, both layouts, every order of up to 4 symbols,
\* stripped single-kernel files
SPECIFICATION Spec
CONSTANTS
  Deviations = {}
  Kernels <- KOne
  Layouts <- LQuick
  Pads = {0, 4}
  NoiseFront = {TRUE, FALSE}
  MaxKernels = 1
  MaxNoise = 2
  MaxSwapLen = 4
INVARIANTS TypeOK AlwaysWellFormed LoadIsTruth AutoDetect OthersRefused
CHECK_DEADLOCK FALSE
