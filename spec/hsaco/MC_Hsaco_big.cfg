\* thorough: two kernels (all variants of both, all near misses), four layouts (addresses >= 2^32 with carries,
\* no .rodata), one unrelated symbol in front, every order of up to 3 symbols
SPECIFICATION Spec
CONSTANTS
  Deviations = {}
  Kernels <- KMid
  Layouts <- LBig
  Pads = {4}
  NoiseFront = {TRUE}
  MaxKernels = 2
  MaxNoise = 1
  MaxSwapLen = 3
INVARIANTS TypeOK AlwaysWellFormed LoadIsTruth AutoDetect OthersRefused
CHECK_DEADLOCK FALSE
