\* thorough: two kernels (all variants of both), four layouts (high addresses, no .rodata), one unrelated symbol
SPECIFICATION Spec
CONSTANTS
  Deviations = {}
  Kernels <- KMid
  Layouts <- LBig
  Pads = {0, 4}
  NoiseFront = {TRUE, FALSE}
  MaxKernels = 2
  MaxNoise = 1
  MaxSwapLen = 4
INVARIANTS TypeOK AlwaysWellFormed LoadIsTruth AutoDetect OthersRefused
CHECK_DEADLOCK FALSE
