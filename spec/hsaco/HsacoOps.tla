------------------------------ MODULE HsacoOps ------------------------------
(***************************************************************************)
(* C13 - loading a kernel by name from a code-object file yields exactly   *)
(* that kernel's instruction bytes and metadata.                           *)
(*                                                                         *)
(* Operators: an abstract ELF code object and the function                 *)
(*   Load(file, name) written as the rules of the file formats             *)
(*   (amd_kernel_code_t = the 256-byte V2/V3 header, the 64-byte AMDHSA    *)
(*   kernel descriptor) and the loader's documented rules, one operator    *)
(*   per sub-step of insts.loadKernelCodeObjectFromELF:                    *)
(*     SecIdx -> KernelSyms -> Resolve (name / auto-detect) -> Image       *)
(*     -> FindKD -> (KDFields ; V5Derive ; OverrideRegs) | Sniff           *)
(* Hsaco.tla is the machine that states the property with these operators, *)
(* HsacoTrace.tla judges what the real loader returned.                    *)
(*                                                                         *)
(* Numbers.  TLC integers are 32-bit: a 64-bit quantity is a tuple of four *)
(* 16-bit limbs <<l3,l2,l1,l0>> (most significant first), a 32-bit one a   *)
(* pair <<hi,lo>>, bytes are 0..255, byte strings are sequences.           *)
(***************************************************************************)
EXTENDS Integers, Sequences, FiniteSets

CONSTANT Deviations   \* "as implemented" switches (DESIGN.md 2.2); {} = the intended design
                      \*   "KdRsrcOffByFour": compute_pgm_rsrc3/1/2 are read at bytes 40/44/48 of
                      \*   the kernel descriptor instead of 44/48/52

B16 == 65536
Z64 == <<0, 0, 0, 0>>
Z32 == <<0, 0>>
W64(n) == <<0, 0, n \div B16, n % B16>>                 \* 0 <= n < 2^31
IsSmall(w) == w[1] = 0 /\ w[2] = 0 /\ w[3] < 16384      \* fits a TLC integer with room to add
Val(w) == w[3] * B16 + w[4]
M16(x) == (x + 2 * B16) % B16
Sub64(x, y) ==                                          \* (x - y) mod 2^64
  LET d4 == x[4] - y[4]
      d3 == x[3] - y[3] - (IF d4 < 0 THEN 1 ELSE 0)
      d2 == x[2] - y[2] - (IF d3 < 0 THEN 1 ELSE 0)
      d1 == x[1] - y[1] - (IF d2 < 0 THEN 1 ELSE 0)
  IN <<M16(d1), M16(d2), M16(d3), M16(d4)>>
Add64(x, n) ==                                          \* (x + n) mod 2^64, 0 <= n < 2^30
  LET s4 == x[4] + (n % B16)
      s3 == x[3] + (n \div B16) + (s4 \div B16)
      s2 == x[2] + (s3 \div B16)
      s1 == x[1] + (s2 \div B16)
  IN <<s1 % B16, s2 % B16, s3 % B16, s4 % B16>>

\* little-endian fields of a byte string; o is the 0-based byte offset
U16(b, o) == b[o + 1] + 256 * b[o + 2]
U32(b, o) == <<U16(b, o + 2), U16(b, o)>>
U64(b, o) == <<U16(b, o + 6), U16(b, o + 4), U16(b, o + 2), U16(b, o)>>
Bits(x, lo, hi) == (x \div (2 ^ lo)) % (2 ^ (hi - lo + 1))  \* bit field of a 16-bit value
WithBits(x, lo, hi, v) == x - (Bits(x, lo, hi) * (2 ^ lo)) + (v * (2 ^ lo))
Max(a, b) == IF a >= b THEN a ELSE b

(***************************************************************************)
(* Metadata of a loaded kernel (the observable fields of                   *)
(* insts.KernelCodeObjectMeta).  fl = the ten Enable-SGPR flags in the     *)
(* order private-segment-buffer, dispatch-ptr, queue-ptr, kernarg-ptr,     *)
(* dispatch-id, flat-scratch-init, private-segment-size, grid workgroup    *)
(* count x, y, z.  The work-group-id / work-item-id enables live in r2.    *)
(***************************************************************************)
ZeroMeta == [r1 |-> Z32, r2 |-> Z32, r3 |-> Z32, ka |-> Z64, lds |-> Z32, priv |-> Z32, entry |-> Z64,
             fl |-> <<0, 0, 0, 0, 0, 0, 0, 0, 0, 0>>, sgpr |-> 0, vgpr |-> 0,
             cvmaj |-> Z32, cvmin |-> Z32, mk |-> 0, mvmaj |-> 0, mvmin |-> 0, mvstep |-> 0]

HdrLen == 256
\* amd_kernel_code_t: what makes 256 bytes "genuinely a header" when no descriptor says otherwise
LooksLikeHeader(d) ==
  /\ Len(d) >= HdrLen
  /\ U32(d, 0) = <<0, 1>>                               \* amd_kernel_code_version_major = 1
  /\ U32(d, 4)[1] = 0 /\ U32(d, 4)[2] <= 2              \* ..._minor in 0..2
  /\ U16(d, 8) = 1                                      \* amd_machine_kind = AMDGPU
  /\ U16(d, 10) \in 7..9                                \* amd_machine_version_major
  /\ U64(d, 16) = W64(HdrLen)                           \* kernel_code_entry_byte_offset: code follows the header

ParseHeader(d) ==
  LET props == U16(d, 56)
  IN [r1 |-> U32(d, 48), r2 |-> U32(d, 52), r3 |-> Z32, ka |-> U64(d, 72), lds |-> U32(d, 64), priv |-> U32(d, 60),
      entry |-> Sub64(U64(d, 16), W64(HdrLen)),          \* re-based to the returned instruction bytes
      fl |-> [i \in 1..10 |-> Bits(props, i - 1, i - 1)],
      sgpr |-> U16(d, 84), vgpr |-> U16(d, 86),
      cvmaj |-> U32(d, 0), cvmin |-> U32(d, 4), mk |-> U16(d, 8), mvmaj |-> U16(d, 10), mvmin |-> U16(d, 12),
      mvstep |-> U16(d, 14)]

\* no descriptor: header sniffing decides
Sniff(d) == IF LooksLikeHeader(d)
            THEN [ver |-> 3, data |-> SubSeq(d, HdrLen + 1, Len(d)), meta |-> ParseHeader(d)]
            ELSE [ver |-> 5, data |-> d, meta |-> ZeroMeta]

\* kernel_descriptor_t (llvm AMDHSAKernelDescriptor.h): the stored fields
KdRsrcBase == IF "KdRsrcOffByFour" \in Deviations THEN 40 ELSE 44
KDFieldsAt(kd, base) ==
  [lds |-> U32(kd, 0), priv |-> U32(kd, 4), ka |-> U32(kd, 8), entry |-> U64(kd, 16),
   r3 |-> U32(kd, base), r1 |-> U32(kd, base + 4), r2 |-> U32(kd, base + 8)]

(* The loader's documented V5 rules (named rules, not deviations):         *)
(*  register counts are the granulated counts of rsrc1, (g+1)*4 and        *)
(*  (g+1)*8; the kernarg pointer is enabled iff the kernarg size is not 0  *)
(*  and then user_sgpr_count is 2; every other user SGPR is disabled;      *)
(*  private-segment wave offset off; work-group id x and y forced on;      *)
(*  work-item id enable at least 1.                                        *)
V5Derive(s) ==
  LET kaNZ == s.ka # Z32
      lo0 == WithBits(s.r2[2], 0, 0, 0)
      lo1 == IF kaNZ THEN WithBits(lo0, 1, 5, 2) ELSE lo0
      lo2 == WithBits(WithBits(lo1, 7, 7, 1), 8, 8, 1)
      lo3 == IF Bits(lo2, 11, 12) = 0 THEN WithBits(lo2, 11, 12, 1) ELSE lo2
  IN [ZeroMeta EXCEPT !.r1 = s.r1, !.r2 = <<s.r2[1], lo3>>, !.r3 = s.r3, !.ka = <<0, 0, s.ka[1], s.ka[2]>>,
                      !.lds = s.lds, !.priv = s.priv, !.entry = s.entry,
                      !.fl = <<0, 0, 0, IF kaNZ THEN 1 ELSE 0, 0, 0, 0, 0, 0, 0>>,
                      !.vgpr = (Bits(s.r1[2], 0, 5) + 1) * 4, !.sgpr = (Bits(s.r1[2], 6, 9) + 1) * 8]

\* <kernel>.numbered_sgpr / <kernel>.num_vgpr raise the counts (never lower them):
\* numbered SGPRs + 2 (VCC) rounded up to 8, VGPRs rounded up to 4
SgprFromSym(v) == ((v + 9) \div 8) * 8
VgprFromSym(v) == ((v + 3) \div 4) * 4
SetMax(S, d) == IF S = {} THEN d ELSE Max(d, CHOOSE x \in S : \A y \in S : x >= y)
OverrideRegs(m, sgprVals, vgprVals) ==
  [m EXCEPT !.sgpr = SetMax({SgprFromSym(v) : v \in sgprVals}, m.sgpr),
            !.vgpr = SetMax({VgprFromSym(v) : v \in vgprVals}, m.vgpr)]

(***************************************************************************)
(* The abstract file: section header table without the null entry          *)
(* (secs[i] is ELF section i), symbol table without the null symbol, in    *)
(* file order.  shndx is the raw st_shndx (0 = undefined, 65521 = ABS).    *)
(***************************************************************************)
SHN_ABS == 65521
SecIdx(f, nm) ==                                        \* elf.File.Section: the first section of that name, 0 if none
  LET S == {i \in 1..Len(f.secs) : f.secs[i].name = nm}
  IN IF S = {} THEN 0 ELSE CHOOSE i \in S : \A j \in S : i <= j
SymSecName(f, s) == IF s.shndx \in 1..Len(f.secs) THEN f.secs[s.shndx].name ELSE ""
KernelSyms(f) == {i \in 1..Len(f.syms) : SymSecName(f, f.syms[i]) = ".text" /\ f.syms[i].size # Z64}
SymVals(f, nm) == {Val(f.syms[i].value) : i \in {j \in 1..Len(f.syms) : f.syms[j].name = nm}}

\* bytes [value - addr, +size) of a section; <<-1>> when the range is not inside the section
Range(sec, value, size) ==
  LET off == Sub64(value, sec.addr)
  IN IF IsSmall(off) /\ IsSmall(size) /\ Val(off) + Val(size) <= Len(sec.data)
     THEN SubSeq(sec.data, Val(off) + 1, Val(off) + Val(size))
     ELSE <<-1>>

\* the 64 descriptor bytes of kernel nm, <<>> if it has none: a symbol nm.kd of size 64 in .rodata
FindKD(f, nm) ==
  LET ri == SecIdx(f, ".rodata")
      K == {i \in 1..Len(f.syms) : /\ f.syms[i].name = nm \o ".kd" /\ f.syms[i].size = W64(64)
                                   /\ SymSecName(f, f.syms[i]) = ".rodata"}
  IN IF ri = 0 \/ K = {} THEN <<>>
     ELSE LET r == Range(f.secs[ri], f.syms[CHOOSE i \in K : \A j \in K : i <= j].value, W64(64))
          IN IF r = <<-1>> THEN <<>> ELSE r

Refuse(why) == [ok |-> FALSE, why |-> why]

LoadSym(f, i, base) ==
  LET s == f.syms[i]
      img == Range(f.secs[SecIdx(f, ".text")], s.value, s.size)
      kd == FindKD(f, s.name)
  IN IF img = <<-1>> THEN Refuse("malformed")
     ELSE IF kd # <<>>                                   \* the descriptor decides, whatever the bytes look like
     THEN [ok |-> TRUE, sym |-> i, ver |-> 5, data |-> img,
           meta |-> OverrideRegs(V5Derive(KDFieldsAt(kd, base)), SymVals(f, s.name \o ".numbered_sgpr"),
                                 SymVals(f, s.name \o ".num_vgpr"))]
     ELSE LET r == Sniff(img) IN [ok |-> TRUE, sym |-> i, ver |-> r.ver, data |-> r.data, meta |-> r.meta]

LoadWhole(f) == LET r == Sniff(f.secs[SecIdx(f, ".text")].data)
                IN [ok |-> TRUE, sym |-> 0, ver |-> r.ver, data |-> r.data, meta |-> r.meta]

\* base = where compute_pgm_rsrc3 is read in a descriptor (44 by the format)
LoadWith(f, name, base) ==
  IF SecIdx(f, ".text") = 0 THEN Refuse("notext")
  ELSE IF f.symtab = 0 THEN LoadWhole(f)                 \* no symbol table: the name cannot be looked up
  ELSE LET ks == KernelSyms(f)
       IN IF name = "" /\ ks = {} THEN LoadWhole(f)
          ELSE IF name = "" /\ Cardinality(ks) > 1 THEN Refuse("ambiguous")
          ELSE LET cand == IF name = "" THEN ks ELSE {i \in ks : f.syms[i].name = name}
               IN IF cand = {} THEN Refuse("notfound")
                  ELSE LoadSym(f, CHOOSE i \in cand : \A j \in cand : i <= j, base)
Load(f, name) == LoadWith(f, name, KdRsrcBase)

(* Files the property quantifies over: one .text, at most one .rodata,     *)
(* kernel names unique, every kernel inside .text, at most one descriptor  *)
(* symbol per kernel, register-count symbols in a sane range.              *)
Count(f, nm) == Cardinality({i \in 1..Len(f.secs) : f.secs[i].name = nm})
WellFormed(f) ==
  /\ Count(f, ".text") = 1 /\ Count(f, ".rodata") <= 1
  /\ \A i, j \in KernelSyms(f) : f.syms[i].name = f.syms[j].name => i = j
  /\ \A i \in KernelSyms(f) : Range(f.secs[SecIdx(f, ".text")], f.syms[i].value, f.syms[i].size) # <<-1>>
  /\ \A k \in KernelSyms(f) :
        Cardinality({i \in 1..Len(f.syms) : f.syms[i].name = f.syms[k].name \o ".kd" /\ f.syms[i].size = W64(64)}) <= 1
  /\ \A i \in 1..Len(f.syms) : \A k \in KernelSyms(f) :
        f.syms[i].name \in {f.syms[k].name \o ".numbered_sgpr", f.syms[k].name \o ".num_vgpr"}
           => IsSmall(f.syms[i].value) /\ Val(f.syms[i].value) < 16384

=============================================================================
