SPECIFICATION TSpec
CONSTANTS
  Deviations = {"KdRsrcOffByFour"}
CONSTRAINT Mark
POSTCONDITION Accepted
CHECK_DEADLOCK FALSE
