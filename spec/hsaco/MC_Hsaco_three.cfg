\* thorough: three kernels in every order and placement, symbol tables of up to 4 entries in every order
SPECIFICATION Spec
CONSTANTS
  Deviations = {}
  Kernels <- KThree
  Layouts <- LQuick
  Pads = {4}
  NoiseFront = {TRUE}
  MaxKernels = 3
  MaxNoise = 0
  MaxSwapLen = 4
INVARIANTS TypeOK AlwaysWellFormed LoadIsTruth AutoDetect OthersRefused
CHECK_DEADLOCK FALSE
