SPECIFICATION SSpec
CONSTANTS
  Deviations = {}
  Kernels <- KScen
  Layouts <- LBig
  Pads = {0, 4, 252}
  NoiseFront = {TRUE, FALSE}
  MaxKernels = 3
  MaxNoise = 3
  MaxSwapLen = 16
INVARIANTS TypeOK AlwaysWellFormed LoadIsTruth AutoDetect OthersRefused
CHECK_DEADLOCK FALSE
