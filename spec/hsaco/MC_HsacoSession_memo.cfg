\* negative control: a loader that remembers results by (buffer, name) - EXPECTED to violate FreshParse
SPECIFICATION SSpec
CONSTANTS
  Deviations = {}
  Kernels = {}
  Layouts = {}
  Pads = {}
  NoiseFront = {}
  MaxKernels = 0
  MaxNoise = 0
  MaxSwapLen = 0
  LoaderMemo = TRUE
  MaxLoads = 3
  MaxPuts = 2
  MaxPatches = 1
  MaxScribbles = 1
INVARIANTS FreshParse
CHECK_DEADLOCK FALSE
