\* one kernel of each kind among up to two unrelated symbols placed before or after, every order of up to 4 symbols,
\* stripped single-kernel files
SPECIFICATION Spec
CONSTANTS
  Deviations = {}
  Kernels <- KNoise
  Layouts <- LQuick
  Pads = {0, 4}
  NoiseFront = {TRUE, FALSE}
  MaxKernels = 1
  MaxNoise = 2
  MaxSwapLen = 3
INVARIANTS TypeOK AlwaysWellFormed LoadIsTruth AutoDetect OthersRefused
CHECK_DEADLOCK FALSE
