----------------------------- MODULE HsacoScen -----------------------------
(* Hsaco with a history variable naming the environment step taken:        *)
(* `tlc -simulate` on this module yields behaviours whose states carry an  *)
(* abstract file; checks/c13.py hands those files to harness/cmd/c13,      *)
(* which writes each as a real ELF object and loads every kernel with the  *)
(* real loader.                                                            *)
EXTENDS MC_Hsaco
VARIABLE act

KScen == {Prep(k) : k \in KernelsFor("ka", 1) \cup KernelsFor("kab", 2) \cup KernelsFor("k", 3)
                          \cup NearFor("ka", 1) \cup NearFor("k", 3)
                          \cup {K("kab", 2, "v5", "plain", H1, S1, {4, 40}, {3, 30})}}

SInit == Init /\ act = [a |-> "Init"]
SNext ==
  \/ \E k \in Kernels, front \in BOOLEAN, pad \in Pads :
        AddKernel(k, front, pad) /\ act' = [a |-> "AddKernel", name |-> k.name, kind |-> k.kind, front |-> front, pad |-> pad]
  \/ \E s \in NoiseSyms, front \in NoiseFront : AddNoise(s, front) /\ act' = [a |-> "AddNoise", name |-> s.name, front |-> front]
  \/ \E i \in 1..MaxSwapLen : Swap(i) /\ act' = [a |-> "Swap", i |-> i]
  \/ StripSymtab /\ act' = [a |-> "StripSymtab"]
SSpec == SInit /\ [][SNext]_<<vars, act>>
=============================================================================
