\* the intended design only: what the loader must conform to once the descriptor offsets are repaired
SPECIFICATION TSpec
CONSTANTS
  Deviations = {}
CONSTRAINT Mark
POSTCONDITION Accepted
CHECK_DEADLOCK FALSE
