----------------------------- MODULE TraceLib -----------------------------
(* Helpers shared by every trace specification.                            *)
(* The high-water mark of the trace position is kept in TLC register 1     *)
(* (run with -workers 1).  A trace is accepted iff the mark reaches        *)
(* Len(TraceLog) + 1; otherwise the mark is the 1-based index of the first *)
(* line no specification action can explain.                               *)
EXTENDS Integers, Sequences, TLC

HWInit == TLCSet(1, 0)
HWNote(l) == IF l > TLCGet(1) THEN TLCSet(1, l) ELSE TRUE
HWReport(n) == /\ PrintT(<<"HIGHWATER", TLCGet(1), n>>)
               /\ TLCGet(1) = n + 1
Has(r, f) == f \in DOMAIN r
=============================================================================
