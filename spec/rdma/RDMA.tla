------------------------------- MODULE RDMA -------------------------------
(***************************************************************************)
(* RDMA engines of a multi-GPU platform (amd/timing/rdma/comp.go).         *)
(*                                                                         *)
(* Every GPU index in cfg.comps has a real rdma.Comp with five ports:      *)
(*   rqi  RDMARequestInside   requests from this GPU's L1s in, answers out *)
(*   rqo  RDMARequestOutside  forwarded requests out, remote answers in    *)
(*   dto  RDMADataOutside     requests of other GPUs in, answers out       *)
(*   dti  RDMADataInside      requests to the local L2 out, L2 answers in  *)
(*   ctl  CtrlPort            DrainReq / RestartReq in, DrainRsp / RestartRsp out *)
(* GPU indices outside cfg.comps are peers played by the environment.      *)
(*                                                                         *)
(* One action per sub-step of Comp.Tick (processReqFromL1,                 *)
(* processReqFromRDMADataOutside, processRspFromL2,                        *)
(* processRspFromRDMARequestOutside, the control port steps); order of the *)
(* sub-steps and per-cycle widths are free.  The environment is explicit:  *)
(* L1s, L2 banks (answer in any order), the inter-GPU network (a bag: any  *)
(* delay, any order), scripted peers, the command processor on ctl.        *)
(*                                                                         *)
(* Each component action exists in two forms: XxxCore(c, out) takes the    *)
(* message the component emits as an argument and records what it was in   *)
(* the history h (this is what trace validation uses: the logged message   *)
(* is the argument and the invariants below judge it); Xxx(c, id) is the   *)
(* intended design: Core applied to the one message the design prescribes  *)
(* (this is what is model-checked).                                        *)
(***************************************************************************)
EXTENDS Integers, Sequences, FiniteSets, TLC

CONSTANTS Gpus,      \* all GPU indices (domain of the per-GPU functions)
          Comps,     \* MC: indices with a real engine (initial cfg.comps)
          PortCap,   \* capacity of every port buffer (back-pressure)
          Span,      \* MC: bytes of address space per GPU  (owner = addr \div span)
          Ileave,    \* MC: L2 interleaving
          NBanks,    \* MC: L2 banks per GPU
          Payloads,  \* MC: request payloads the environment may issue
          RspData,   \* MC: data the owner may answer a read with
          MaxReq,    \* MC: number of requests issued
          MaxDrain,  \* MC: number of drain rounds
          Deviations \* named departures from the design, {} = the design (see DrainPrepare)

VARIABLES cfg,    \* [comps, ranges, il, nb]   constant during a run
          port,   \* [Gpus -> ten message queues]
          tab,    \* [Gpus -> [ins, outs]]  transactionsFromInside / transactionsFromOutside
          ctl,    \* [Gpus -> [draining, paused, src, prepared]]
          env,    \* [nreq, nrsp, l2, phase, nDrain]  network bags, requests the L2s owe, drain protocol state
          used,   \* message ids seen so far
          h       \* history (observation only)
vars == <<cfg, port, tab, ctl, env, used, h>>

P(g, k, b) == [g |-> g, k |-> k, b |-> b]
NoPort == P(0, "none", 0)
\* the GPU whose memory range contains address a (-1: nobody's)
Owner(a) == LET S == {r \in cfg.ranges : r.lo <= a /\ a < r.hi} IN
            IF S = {} THEN -1 ELSE (CHOOSE r \in S : TRUE).g
UniformRanges(span) == {[g |-> g, lo |-> g * span, hi |-> (g + 1) * span] : g \in Gpus}
\* L2 bank of address a; cfg.nb = 0: the bank layout is not part of the configuration under test
Bank(a) == IF cfg.nb = 0 THEN 0 ELSE (a \div cfg.il) % cfg.nb
DataPort(g) == P(g, "dto", 0)
L2Port(c, a) == P(c, "l2", Bank(a))

Req(id, src, dst, p) == [id |-> id, src |-> src, dst |-> dst, p |-> p]
Rsp(id, src, dst, to, k, d) == [id |-> id, src |-> src, dst |-> dst, to |-> to, k |-> k, d |-> d]
Ctl(c, src, dst) == [c |-> c, src |-> src, dst |-> dst]

NoPorts == [rqiIn |-> <<>>, rqiOut |-> <<>>, rqoOut |-> <<>>, rqoIn |-> <<>>,
            dtoIn |-> <<>>, dtoOut |-> <<>>, dtiOut |-> <<>>, dtiIn |-> <<>>,
            ctlIn |-> <<>>, ctlOut |-> <<>>]
NoCtl == [draining |-> FALSE, paused |-> FALSE, src |-> NoPort, prepared |-> FALSE]
NoHist == [orig |-> <<>>, root |-> <<>>, msrc |-> <<>>, ans |-> <<>>,
           fwd |-> {}, l2 |-> {}, rsp |-> {}, orsp |-> {}, acks |-> {}]
InitRest ==
  /\ port = [c \in Gpus |-> NoPorts]
  /\ tab = [c \in Gpus |-> [ins |-> <<>>, outs |-> <<>>]]
  /\ ctl = [c \in Gpus |-> NoCtl]
  /\ env = [nreq |-> {}, nrsp |-> {}, l2 |-> {}, phase |-> [c \in Gpus |-> "run"], nDrain |-> 0]
  /\ used = {}
  /\ h = NoHist
Init == cfg = [comps |-> Comps, ranges |-> UniformRanges(Span), il |-> Ileave, nb |-> NBanks] /\ InitRest

Remove(s, i) == SubSeq(s, 1, i - 1) \o SubSeq(s, i + 1, Len(s))
Idx(s, pred(_)) == CHOOSE i \in 1..Len(s) : pred(s[i])
Exists(s, pred(_)) == \E i \in 1..Len(s) : pred(s[i])
RootOf(id) == IF id \in DOMAIN h.root THEN h.root[id] ELSE 0

\* ---------------------------------------------------------------- component
\* processReqFromL1: forward the head request of rqi as `out` on rqo, remember the pair.
FwdOutCore(c, out) ==
  /\ c \in cfg.comps
  /\ port[c].rqiIn # <<>>
  /\ Len(port[c].rqoOut) < PortCap
  /\ out.id \notin used
  /\ LET m == Head(port[c].rqiIn) IN
     /\ port' = [port EXCEPT ![c].rqiIn = Tail(@), ![c].rqoOut = Append(@, out)]
     /\ tab' = [tab EXCEPT ![c].ins = Append(@, [orig |-> m, fwd |-> out.id])]
     /\ h' = [h EXCEPT !.root = @ @@ (out.id :> m.id), !.msrc = @ @@ (out.id :> out.src),
                       !.fwd = @ \cup {[root |-> m.id, id |-> out.id, c |-> c, src |-> out.src,
                                        dst |-> out.dst, p |-> out.p, paused |-> ctl[c].paused]}]
  /\ used' = used \cup {out.id}
  /\ UNCHANGED <<cfg, ctl, env>>

FwdOut(c, f) ==
  /\ ~ctl[c].paused                                     \* pauseIncomingReqsFromL1
  /\ port[c].rqiIn # <<>>
  /\ LET m == Head(port[c].rqiIn) IN
       FwdOutCore(c, Req(f, P(c, "rqo", 0), DataPort(Owner(m.p.a)), m.p))   \* RemoteRDMAAddressTable.Find

\* processReqFromRDMADataOutside: hand the head request of dto to the local L2 as `out`.
FwdInCore(c, out) ==
  /\ c \in cfg.comps
  /\ port[c].dtoIn # <<>>
  /\ Len(port[c].dtiOut) < PortCap
  /\ out.id \notin used
  /\ LET m == Head(port[c].dtoIn) IN
     /\ port' = [port EXCEPT ![c].dtoIn = Tail(@), ![c].dtiOut = Append(@, out)]
     /\ tab' = [tab EXCEPT ![c].outs = Append(@, [orig |-> m, fwd |-> out.id])]
     /\ h' = [h EXCEPT !.root = @ @@ (out.id :> RootOf(m.id)),
                       !.l2 = @ \cup {[root |-> RootOf(m.id), id |-> out.id, c |-> c, src |-> out.src,
                                       dst |-> out.dst, p |-> out.p, from |-> m.id]}]
  /\ used' = used \cup {out.id}
  /\ UNCHANGED <<cfg, ctl, env>>

FwdIn(c, f) ==
  /\ port[c].dtoIn # <<>>
  /\ LET m == Head(port[c].dtoIn) IN
       FwdInCore(c, Req(f, P(c, "dti", 0), L2Port(c, m.p.a), m.p))          \* localModules.Find

\* processRspFromL2: answer the remote requester with `out`; the transaction that `out`
\* claims to complete (out.to = id of the request that came from outside) leaves the table.
RspOutCore(c, out) ==
  /\ c \in cfg.comps
  /\ port[c].dtiIn # <<>>
  /\ Len(port[c].dtoOut) < PortCap
  /\ out.id \notin used
  /\ Exists(tab[c].outs, LAMBDA t : t.orig.id = out.to)
  /\ LET m == Head(port[c].dtiIn)
         i == Idx(tab[c].outs, LAMBDA t : t.orig.id = out.to) IN
     /\ port' = [port EXCEPT ![c].dtiIn = Tail(@), ![c].dtoOut = Append(@, out)]
     /\ tab' = [tab EXCEPT ![c].outs = Remove(@, i)]
     /\ h' = [h EXCEPT !.orsp = @ \cup {[id |-> out.id, c |-> c, to |-> out.to, root |-> RootOf(out.to),
                                         via |-> RootOf(m.to), src |-> out.src, dst |-> out.dst,
                                         k |-> out.k, d |-> out.d, ink |-> m.k, ind |-> m.d]}]
  /\ used' = used \cup {out.id}
  /\ UNCHANGED <<cfg, ctl, env>>

RspOut(c, r) ==
  /\ port[c].dtiIn # <<>>
  /\ LET m == Head(port[c].dtiIn) IN
     /\ Exists(tab[c].outs, LAMBDA t : t.fwd = m.to)                           \* findTransactionByRspToID
     /\ LET t == tab[c].outs[Idx(tab[c].outs, LAMBDA x : x.fwd = m.to)] IN
          RspOutCore(c, Rsp(r, P(c, "dto", 0), t.orig.src, t.orig.id, m.k, m.d))

\* processRspFromRDMARequestOutside: answer the L1 with `out`.
RspInCore(c, out) ==
  /\ c \in cfg.comps
  /\ port[c].rqoIn # <<>>
  /\ Len(port[c].rqiOut) < PortCap
  /\ out.id \notin used
  /\ Exists(tab[c].ins, LAMBDA t : t.orig.id = out.to)
  /\ LET m == Head(port[c].rqoIn)
         i == Idx(tab[c].ins, LAMBDA t : t.orig.id = out.to) IN
     /\ port' = [port EXCEPT ![c].rqoIn = Tail(@), ![c].rqiOut = Append(@, out)]
     /\ tab' = [tab EXCEPT ![c].ins = Remove(@, i)]
     /\ h' = [h EXCEPT !.rsp = @ \cup {[id |-> out.id, c |-> c, to |-> out.to, via |-> RootOf(m.to),
                                        src |-> out.src, dst |-> out.dst,
                                        k |-> out.k, d |-> out.d, ink |-> m.k, ind |-> m.d]}]
  /\ used' = used \cup {out.id}
  /\ UNCHANGED <<cfg, ctl, env>>

RspIn(c, r) ==
  /\ port[c].rqoIn # <<>>
  /\ LET m == Head(port[c].rqoIn) IN
     /\ Exists(tab[c].ins, LAMBDA t : t.fwd = m.to)
     /\ LET t == tab[c].ins[Idx(tab[c].ins, LAMBDA x : x.fwd = m.to)] IN
          RspInCore(c, Rsp(r, P(c, "rqi", 0), t.orig.src, t.orig.id, m.k, m.d))

\* processFromCtrlPort, DrainReq: stop taking requests from L1, remember whom to answer.
TakeDrain(c) ==
  /\ c \in cfg.comps
  /\ port[c].ctlIn # <<>> /\ Head(port[c].ctlIn).c = "drain"
  /\ port' = [port EXCEPT ![c].ctlIn = Tail(@)]
  /\ ctl' = [ctl EXCEPT ![c] = [draining |-> TRUE, paused |-> TRUE, src |-> Head(port[c].ctlIn).src, prepared |-> FALSE]]
  /\ UNCHANGED <<cfg, tab, env, used, h>>

\* drainRDMA: acknowledge the drain request with `out`; the table sizes at that moment are recorded.
DrainAckCore(c, out) ==
  /\ c \in cfg.comps
  /\ ctl[c].draining
  /\ Len(port[c].ctlOut) < PortCap
  /\ out.c = "drainrsp"
  /\ port' = [port EXCEPT ![c].ctlOut = Append(@, out)]
  /\ ctl' = [ctl EXCEPT ![c].draining = FALSE, ![c].prepared = FALSE]
  /\ h' = [h EXCEPT !.acks = @ \cup {[c |-> c, n |-> Cardinality(h.acks) + 1, nin |-> Len(tab[c].ins),
                                      nout |-> Len(tab[c].outs), src |-> out.src, dst |-> out.dst,
                                      want |-> ctl[c].src]}]
  /\ UNCHANGED <<cfg, tab, env, used>>

\* The acknowledgement leaves only if, at the moment CtrlPort.Send accepts it, both tables are empty: the
\* send may have to wait for room in the control port (Len(ctlOut) < PortCap in DrainAckCore) and requests of other
\* GPUs keep arriving meanwhile, so emptiness is a guard of the sending step itself.
\* Named deviation "StaleDrainAck": when the engine finds itself drained but the control port has no room, it
\* keeps the prepared acknowledgement (DrainPrepare) and sends it as soon as there is room, without looking at the
\* tables again.
DrainPrepare(c) ==
  /\ "StaleDrainAck" \in Deviations
  /\ c \in cfg.comps /\ ctl[c].draining /\ ~ctl[c].prepared
  /\ tab[c].ins = <<>> /\ tab[c].outs = <<>>
  /\ Len(port[c].ctlOut) >= PortCap                                        \* CtrlPort.Send failed
  /\ ctl' = [ctl EXCEPT ![c].prepared = TRUE]
  /\ UNCHANGED <<cfg, port, tab, env, used, h>>

DrainAck(c) ==
  /\ \/ tab[c].ins = <<>> /\ tab[c].outs = <<>>                             \* fullyDrained
     \/ "StaleDrainAck" \in Deviations /\ ctl[c].prepared
  /\ DrainAckCore(c, Ctl("drainrsp", P(c, "ctl", 0), ctl[c].src))

\* processRDMARestartReq: acknowledge, take requests from L1 again.
RestartCore(c, out) ==
  /\ c \in cfg.comps
  /\ port[c].ctlIn # <<>> /\ Head(port[c].ctlIn).c = "restart"
  /\ Len(port[c].ctlOut) < PortCap
  /\ out = Ctl("restartrsp", P(c, "ctl", 0), ctl[c].src)
  /\ port' = [port EXCEPT ![c].ctlIn = Tail(@), ![c].ctlOut = Append(@, out)]
  /\ ctl' = [ctl EXCEPT ![c].paused = FALSE, ![c].src = NoPort]
  /\ UNCHANGED <<cfg, tab, env, used, h>>

Restart(c) == RestartCore(c, Ctl("restartrsp", P(c, "ctl", 0), ctl[c].src))

\* -------------------------------------------------------------- environment
\* an L1 of GPU c issues request m (a root: it must be answered exactly once, to m.src)
EnvL1Req(c, m) ==
  /\ c \in cfg.comps
  /\ m.id \notin used /\ m.dst = P(c, "rqi", 0) /\ m.src.g = c /\ m.src.k = "l1"
  /\ Len(port[c].rqiIn) < PortCap
  /\ port' = [port EXCEPT ![c].rqiIn = Append(@, m)]
  /\ h' = [h EXCEPT !.orig = @ @@ (m.id :> [g |-> c, kind |-> "l1", src |-> m.src, p |-> m.p]),
                    !.root = @ @@ (m.id :> m.id)]
  /\ used' = used \cup {m.id}
  /\ UNCHANGED <<cfg, tab, ctl, env>>

\* a scripted peer GPU sends request m for an address owned by GPU c straight to c's dto
ExtReq(c, m) ==
  /\ c \in cfg.comps
  /\ m.id \notin used /\ m.dst = DataPort(c) /\ m.src.g \notin cfg.comps /\ m.src.k = "rqo"
  /\ Owner(m.p.a) = c
  /\ Len(port[c].dtoIn) < PortCap
  /\ port' = [port EXCEPT ![c].dtoIn = Append(@, m)]
  /\ h' = [h EXCEPT !.orig = @ @@ (m.id :> [g |-> m.src.g, kind |-> "ext", src |-> m.src, p |-> m.p]),
                    !.root = @ @@ (m.id :> m.id), !.msrc = @ @@ (m.id :> m.src)]
  /\ used' = used \cup {m.id}
  /\ UNCHANGED <<cfg, tab, ctl, env>>

NetTakeReq(c) ==
  /\ port[c].rqoOut # <<>>
  /\ env' = [env EXCEPT !.nreq = @ \cup {Head(port[c].rqoOut)}]
  /\ port' = [port EXCEPT ![c].rqoOut = Tail(@)]
  /\ UNCHANGED <<cfg, tab, ctl, used, h>>

NetDeliverReq(m) ==
  /\ m \in env.nreq /\ m.dst.g \in cfg.comps /\ m.dst.k = "dto"
  /\ Len(port[m.dst.g].dtoIn) < PortCap
  /\ port' = [port EXCEPT ![m.dst.g].dtoIn = Append(@, m)]
  /\ env' = [env EXCEPT !.nreq = @ \ {m}]
  /\ UNCHANGED <<cfg, tab, ctl, used, h>>

RspKind(q) == IF q.p.k = "r" THEN "dr" ELSE "wd"

\* a scripted peer that owns the address answers forwarded request q with r, straight into the requester's rqo
ExtAnswer(q, r) ==
  /\ q \in env.nreq /\ q.dst.g \notin cfg.comps
  /\ r.id \notin used /\ r.to = q.id /\ r.src = q.dst /\ r.dst = q.src /\ r.k = RspKind(q)
  /\ Len(port[q.src.g].rqoIn) < PortCap
  /\ port' = [port EXCEPT ![q.src.g].rqoIn = Append(@, r)]
  /\ env' = [env EXCEPT !.nreq = @ \ {q}]
  /\ h' = [h EXCEPT !.ans = @ @@ (RootOf(q.id) :> [k |-> r.k, d |-> r.d])]
  /\ used' = used \cup {r.id}
  /\ UNCHANGED <<cfg, tab, ctl>>

NetTakeRsp(c) ==
  /\ port[c].dtoOut # <<>>
  /\ LET m == Head(port[c].dtoOut) IN
       env' = [env EXCEPT !.nrsp = IF m.dst.g \in cfg.comps THEN @ \cup {m} ELSE @]
  /\ port' = [port EXCEPT ![c].dtoOut = Tail(@)]
  /\ UNCHANGED <<cfg, tab, ctl, used, h>>

NetDeliverRsp(m) ==
  /\ m \in env.nrsp /\ m.dst.g \in cfg.comps /\ m.dst.k = "rqo"
  /\ Len(port[m.dst.g].rqoIn) < PortCap
  /\ port' = [port EXCEPT ![m.dst.g].rqoIn = Append(@, m)]
  /\ env' = [env EXCEPT !.nrsp = @ \ {m}]
  /\ UNCHANGED <<cfg, tab, ctl, used, h>>

L2Take(c) ==
  /\ port[c].dtiOut # <<>>
  /\ env' = [env EXCEPT !.l2 = @ \cup {Head(port[c].dtiOut)}]
  /\ port' = [port EXCEPT ![c].dtiOut = Tail(@)]
  /\ UNCHANGED <<cfg, tab, ctl, used, h>>

\* an L2 bank answers any request it owes, in any order
L2Rsp(q, r) ==
  /\ q \in env.l2
  /\ r.id \notin used /\ r.to = q.id /\ r.src = q.dst /\ r.dst = q.src /\ r.k = RspKind(q)
  /\ Len(port[q.src.g].dtiIn) < PortCap
  /\ port' = [port EXCEPT ![q.src.g].dtiIn = Append(@, r)]
  /\ env' = [env EXCEPT !.l2 = @ \ {q}]
  /\ h' = [h EXCEPT !.ans = @ @@ (RootOf(q.id) :> [k |-> r.k, d |-> r.d])]
  /\ used' = used \cup {r.id}
  /\ UNCHANGED <<cfg, tab, ctl>>

L1Take(c) ==
  /\ port[c].rqiOut # <<>>
  /\ port' = [port EXCEPT ![c].rqiOut = Tail(@)]
  /\ UNCHANGED <<cfg, tab, ctl, env, used, h>>

\* the control side follows the protocol: drain, take the ack, restart; the next drain may be sent as soon as the
\* restart was sent, i.e. possibly before the RestartRsp was taken out of the control port ("restarting_d"):
\* that RestartRsp then occupies the control port when the engine wants to acknowledge the new drain
EnvCtrl(c, m) ==
  /\ c \in cfg.comps
  /\ m.dst = P(c, "ctl", 0)
  /\ \/ m.c = "drain" /\ env.phase[c] = "run"
        /\ env' = [env EXCEPT !.phase[c] = "draining", !.nDrain = @ + 1]
     \/ m.c = "drain" /\ env.phase[c] = "restarting"
        /\ env' = [env EXCEPT !.phase[c] = "restarting_d", !.nDrain = @ + 1]
     \/ m.c = "restart" /\ env.phase[c] = "drained"
        /\ env' = [env EXCEPT !.phase[c] = "restarting"]
  /\ Len(port[c].ctlIn) < PortCap
  /\ port' = [port EXCEPT ![c].ctlIn = Append(@, m)]
  /\ UNCHANGED <<cfg, tab, ctl, used, h>>

EnvTakeCtrl(c) ==
  /\ port[c].ctlOut # <<>>
  /\ LET m == Head(port[c].ctlOut) IN
     \/ m.c = "drainrsp" /\ env.phase[c] = "draining" /\ env' = [env EXCEPT !.phase[c] = "drained"]
     \/ m.c = "restartrsp" /\ env.phase[c] = "restarting" /\ env' = [env EXCEPT !.phase[c] = "run"]
     \/ m.c = "restartrsp" /\ env.phase[c] = "restarting_d" /\ env' = [env EXCEPT !.phase[c] = "draining"]
  /\ port' = [port EXCEPT ![c].ctlOut = Tail(@)]
  /\ UNCHANGED <<cfg, tab, ctl, used, h>>

\* ---------------------------------------------------------------- MC next
\* ids are canonical in the model: roots 1..MaxReq in issue order, derived messages 10*root+stage
NextRoot == Cardinality(DOMAIN h.orig) + 1
Answer(q, d) == Rsp(10 * RootOf(q.id) + 3, q.dst, q.src, q.id, RspKind(q), IF q.p.k = "r" THEN d ELSE <<>>)

CompStep(c) ==
  \/ (port[c].rqiIn # <<>> /\ FwdOut(c, 10 * Head(port[c].rqiIn).id + 1))
  \/ (port[c].dtoIn # <<>> /\ FwdIn(c, 10 * RootOf(Head(port[c].dtoIn).id) + 2))
  \/ (port[c].dtiIn # <<>> /\ RspOut(c, 10 * RootOf(Head(port[c].dtiIn).to) + 4))
  \/ (port[c].rqoIn # <<>> /\ RspIn(c, 10 * RootOf(Head(port[c].rqoIn).to) + 5))
  \/ TakeDrain(c) \/ DrainPrepare(c) \/ DrainAck(c) \/ Restart(c)

\* the same steps, one named action each (TLC reports coverage per name)
NFwdOut == \E c \in cfg.comps : port[c].rqiIn # <<>> /\ FwdOut(c, 10 * Head(port[c].rqiIn).id + 1)
NFwdIn == \E c \in cfg.comps : port[c].dtoIn # <<>> /\ FwdIn(c, 10 * RootOf(Head(port[c].dtoIn).id) + 2)
NRspOut == \E c \in cfg.comps : port[c].dtiIn # <<>> /\ RspOut(c, 10 * RootOf(Head(port[c].dtiIn).to) + 4)
NRspIn == \E c \in cfg.comps : port[c].rqoIn # <<>> /\ RspIn(c, 10 * RootOf(Head(port[c].rqoIn).to) + 5)
NTakeDrain == \E c \in cfg.comps : TakeDrain(c)
NDrainPrepare == \E c \in cfg.comps : DrainPrepare(c)      \* never enabled in the design (Deviations = {})
NDrainAck == \E c \in cfg.comps : DrainAck(c)
NRestart == \E c \in cfg.comps : Restart(c)
CompNext == NFwdOut \/ NFwdIn \/ NRspOut \/ NRspIn \/ NTakeDrain \/ NDrainPrepare \/ NDrainAck \/ NRestart

NL1Req ==
  /\ NextRoot <= MaxReq
  /\ \E c \in cfg.comps, p \in Payloads :
          /\ Owner(p.a) # c /\ Owner(p.a) \in Gpus
          /\ EnvL1Req(c, Req(NextRoot, P(c, "l1", NextRoot % 2), P(c, "rqi", 0), p))
NExtReq ==
  /\ NextRoot <= MaxReq
  /\ \E g \in Gpus \ cfg.comps, p \in Payloads :
          /\ Owner(p.a) \in cfg.comps
          /\ ExtReq(Owner(p.a), Req(NextRoot, P(g, "rqo", 0), DataPort(Owner(p.a)), p))
NNetTakeReq == \E c \in cfg.comps : NetTakeReq(c)
NNetTakeRsp == \E c \in cfg.comps : NetTakeRsp(c)
NL2Take == \E c \in cfg.comps : L2Take(c)
NL1Take == \E c \in cfg.comps : L1Take(c)
NEnvTakeCtrl == \E c \in cfg.comps : EnvTakeCtrl(c)
NNetDeliverReq == \E m \in env.nreq : NetDeliverReq(m)
NNetDeliverRsp == \E m \in env.nrsp : NetDeliverRsp(m)
NExtAnswer == \E q \in env.nreq, d \in RspData : ExtAnswer(q, Answer(q, d))
NL2Rsp == \E q \in env.l2, d \in RspData : L2Rsp(q, Answer(q, d))
EnvAnswer == NExtAnswer \/ NL2Rsp
EnvDrain == \E c \in cfg.comps : env.nDrain < MaxDrain /\ EnvCtrl(c, Ctl("drain", P(c, "cp", 0), P(c, "ctl", 0)))
EnvRestart == \E c \in cfg.comps : EnvCtrl(c, Ctl("restart", P(c, "cp", 0), P(c, "ctl", 0)))
EnvNext == NL1Req \/ NExtReq \/ NNetTakeReq \/ NNetTakeRsp \/ NL2Take \/ NL1Take \/ NEnvTakeCtrl
           \/ NNetDeliverReq \/ NNetDeliverRsp \/ NExtAnswer \/ NL2Rsp \/ EnvDrain \/ EnvRestart

Next == CompNext \/ EnvNext
Spec == Init /\ [][Next]_vars

Fairness ==
  /\ \A c \in Comps : WF_vars(CompStep(c))
  /\ \A c \in Comps : WF_vars(NetTakeReq(c)) /\ WF_vars(NetTakeRsp(c)) /\ WF_vars(L2Take(c))
                      /\ WF_vars(L1Take(c)) /\ WF_vars(EnvTakeCtrl(c))
  /\ WF_vars(NNetDeliverReq) /\ WF_vars(NNetDeliverRsp)
  /\ WF_vars(EnvAnswer) /\ WF_vars(EnvRestart)
FairSpec == Spec /\ Fairness

\* -------------------------------------------------------------- properties
Roots == DOMAIN h.orig
L1Roots == {r \in Roots : h.orig[r].kind = "l1"}

\* every step of the route happens at most once per request, and only in causal order
ExactlyOnceRouting ==
  LET L1R == L1Roots
      FwdRoots == {x.root : x \in h.fwd}
      FwdKeys == {<<x.root, x.id>> : x \in h.fwd}
      L2Keys == {<<x.root, x.from>> : x \in h.l2}
      Ans == DOMAIN h.ans
  IN
  /\ Cardinality(FwdRoots) = Cardinality(h.fwd)                     \* forwarded once
  /\ Cardinality({x.root : x \in h.l2}) = Cardinality(h.l2)       \* handed to the owner's L2 once
  /\ Cardinality({x.to : x \in h.rsp}) = Cardinality(h.rsp)       \* answered to the L1 once
  /\ Cardinality({x.to : x \in h.orsp}) = Cardinality(h.orsp)     \* answered to the remote requester once
  /\ FwdRoots \subseteq L1R
  /\ \A e \in h.l2 : e.root \in Roots /\ (e.root \in L1R => <<e.root, e.from>> \in FwdKeys)
  /\ \A e \in h.orsp : e.root \in Ans /\ e.via = e.root /\ <<e.root, e.to>> \in L2Keys
  /\ \A e \in h.rsp : e.to \in Ans /\ e.via = e.to /\ e.to \in FwdRoots

\* a request leaves towards the GPU whose address range contains it, and reaches the L2 bank of that GPU
OwnerIsAddressRangeOwner ==
  /\ \A e \in h.fwd : e.dst = DataPort(Owner(e.p.a)) /\ e.src = P(e.c, "rqo", 0)
  /\ \A e \in h.l2 : e.root \in Roots => /\ e.c = Owner(h.orig[e.root].p.a)
                                          /\ e.dst.g = e.c /\ e.dst.k = "l2"
                                          /\ (cfg.nb > 0 => e.dst = L2Port(e.c, h.orig[e.root].p.a))
                                          /\ e.src = P(e.c, "dti", 0)

\* what arrives is what was sent: request payload on the way out, answer payload on the way back
PayloadPreserved ==
  /\ \A e \in h.fwd \cup h.l2 : e.root \in Roots => e.p = h.orig[e.root].p
  /\ \A e \in h.orsp : e.k = e.ink /\ e.d = e.ind /\ (e.root \in DOMAIN h.ans => [k |-> e.k, d |-> e.d] = h.ans[e.root])
  /\ \A e \in h.rsp : e.k = e.ink /\ e.d = e.ind /\ (e.to \in DOMAIN h.ans => [k |-> e.k, d |-> e.d] = h.ans[e.to])

\* answers go to the requester they belong to, referring to the requester's own message
RspToOriginator ==
  /\ \A e \in h.rsp : /\ e.to \in Roots /\ h.orig[e.to].kind = "l1"
                      /\ e.c = h.orig[e.to].g /\ e.dst = h.orig[e.to].src /\ e.src = P(e.c, "rqi", 0)
  /\ \A e \in h.orsp : e.to \in DOMAIN h.msrc /\ e.dst = h.msrc[e.to] /\ e.src = P(e.c, "dto", 0)

\* a drain is acknowledged only with both transaction tables empty, to whoever asked
DrainAckOnlyWhenEmpty ==
  \A e \in h.acks : e.nin = 0 /\ e.nout = 0 /\ e.dst = e.want /\ e.src = P(e.c, "ctl", 0)
\* nothing is taken from the L1s between the drain request and the restart
NoForwardWhilePaused == \A e \in h.fwd : ~e.paused

Answered(r) == IF h.orig[r].kind = "l1" THEN \E e \in h.rsp : e.to = r ELSE \E e \in h.orsp : e.to = r
\* consequence for the platform: while a GPU is drained none of its own remote accesses is in flight,
\* and with every GPU drained only requests of scripted peers can still be around
DrainedNoOwnTraffic ==
  (\E c \in cfg.comps : env.phase[c] = "drained") =>
     LET done == {e.to : e \in h.rsp} IN
     \A e \in h.fwd : env.phase[e.c] = "drained" => e.root \in done
AllDrainedQuiet ==
  (\A c \in cfg.comps : env.phase[c] = "drained") =>
     LET L1R == L1Roots IN
     \A c \in cfg.comps : /\ tab[c].ins = <<>>
                          /\ \A i \in 1..Len(tab[c].outs) : RootOf(tab[c].outs[i].orig.id) \notin L1R

\* forget everything about a completed root (trace validation of long runs: the history stays as small as the
\* number of requests in flight; ids stay in `used`, so anything that refers to a forgotten message is still refused)
Prune(hh, r) ==
  LET keep == {i \in DOMAIN hh.root : hh.root[i] # r} IN
  [orig |-> [i \in DOMAIN hh.orig \ {r} |-> hh.orig[i]],
   root |-> [i \in keep |-> hh.root[i]],
   msrc |-> [i \in DOMAIN hh.msrc \cap keep |-> hh.msrc[i]],
   ans |-> [i \in DOMAIN hh.ans \ {r} |-> hh.ans[i]],
   fwd |-> {e \in hh.fwd : e.root # r}, l2 |-> {e \in hh.l2 : e.root # r},
   rsp |-> {e \in hh.rsp : e.to # r}, orsp |-> {e \in hh.orsp : e.root # r}, acks |-> hh.acks]

Quiescent ==
  /\ \A c \in cfg.comps : port[c] = NoPorts /\ tab[c].ins = <<>> /\ tab[c].outs = <<>>
                          /\ ~ctl[c].draining /\ ~ctl[c].paused /\ env.phase[c] = "run"
  /\ env.nreq = {} /\ env.nrsp = {} /\ env.l2 = {}
\* when nothing is left to do every request was answered (exactly once by ExactlyOnceRouting)
AllAnswered == Quiescent => \A r \in Roots : Answered(r)

Progress == \A r \in 1..MaxReq : [](r \in Roots => <>(r \in Roots /\ Answered(r)))
DrainProgress == \A c \in Comps : [](env.phase[c] \in {"draining", "restarting_d"} => <>(env.phase[c] = "drained"))

TypeOK ==
  /\ \A c \in Gpus : /\ Len(port[c].rqiIn) <= PortCap /\ Len(port[c].rqoOut) <= PortCap
                     /\ Len(port[c].dtoIn) <= PortCap /\ Len(port[c].dtiOut) <= PortCap
                     /\ ctl[c].draining \in BOOLEAN /\ ctl[c].paused \in BOOLEAN
                     /\ (ctl[c].draining => ctl[c].paused)
  /\ \A c \in Gpus \ cfg.comps : port[c] = NoPorts
=============================================================================
