SPECIFICATION TSpec
CONSTANTS
  GPUs = {1, 2, 3, 4}
  Pages = {1, 2, 3, 4, 5, 6, 7, 8}
  MaxVer = 100
  MaxOps = 0
  Deviations = {}
INVARIANTS HostSeesLastWrite D2HOnlyAfterFlush H2DOnlyAfterFlush CopyGoesToOwner
CONSTRAINT Mark
POSTCONDITION Accepted
CHECK_DEADLOCK FALSE
