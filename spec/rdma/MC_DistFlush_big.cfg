SPECIFICATION Spec
CONSTANTS
  GPUs = {1, 2, 3}
  Pages = {1, 2}
  MaxVer = 2
  MaxOps = 3
  Deviations = {}
INVARIANTS HostSeesLastWrite D2HOnlyAfterFlush H2DOnlyAfterFlush CopyGoesToOwner
CHECK_DEADLOCK FALSE
