SPECIFICATION TSpec
CONSTANTS
  Gpus = {0, 1, 2, 3, 4}
  Comps = {}
  PortCap = 1000000
  Span = 1
  Ileave = 1
  NBanks = 1
  Payloads = {}
  RspData = {}
  MaxReq = 0
  MaxDrain = 0
  Deviations = {}
INVARIANTS ExactlyOnceRouting OwnerIsAddressRangeOwner PayloadPreserved RspToOriginator
           DrainAckOnlyWhenEmpty NoForwardWhilePaused DrainedNoOwnTraffic AllDrainedQuiet
CONSTRAINT Mark
POSTCONDITION Accepted
CHECK_DEADLOCK FALSE
