SPECIFICATION SSpec
CONSTANTS
  GPUs = {1, 2, 3}
  Pages = {1, 2, 3}
  MaxVer = 3
  MaxOps = 5
  Deviations = {}
INVARIANTS HostSeesLastWrite D2HOnlyAfterFlush H2DOnlyAfterFlush CopyGoesToOwner
CHECK_DEADLOCK FALSE
