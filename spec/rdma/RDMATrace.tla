----------------------------- MODULE RDMATrace -----------------------------
(***************************************************************************)
(* Trace specification: is a port-event log of real rdma.Comp instances a  *)
(* behaviour of RDMA?  One log line = one port hook event                  *)
(*    Send / Take : the component's Port.Send / Port.RetrieveIncoming      *)
(*    Recv / Pull : the environment's Port.Deliver / Port.RetrieveOutgoing *)
(* on port k of GPU g, with the full message.  A component sub-step shows  *)
(* up as two events (Send on one port + Take on the paired port); the two  *)
(* halves are accepted in either order and the spec action fires on the    *)
(* second one, with the logged outgoing message as its argument (the Core  *)
(* actions); the invariants of RDMA judge that message.                    *)
(***************************************************************************)
EXTENDS RDMA, TraceLib, Json

TraceLog == ndJsonDeserialize("trace.ndjson")
N == Len(TraceLog)

VARIABLES l,      \* position in TraceLog
          half,   \* [Gpus -> pending half of a two-event sub-step]
          gc      \* forget completed requests (set by Reset; used for long traces of whole-system runs)
tvars == <<vars, l, half, gc>>

ASSUME HWInit

Ev == TraceLog[l]
Is(e) == l <= N /\ Ev.e = e /\ l' = l + 1
NoHalf == [k |-> "none", port |-> "", m |-> <<>>]
Quiet == \A g \in Gpus : half[g].k = "none"

TInit == Init /\ l = 1 /\ half = [g \in Gpus |-> NoHalf] /\ gc = FALSE

\* logged message -> spec message (only the fields the spec knows)
PR(x) == P(x.g, x.k, x.b)
ReqOf(x) == Req(x.id, PR(x.src), PR(x.dst), [k |-> x.p.k, a |-> x.p.a, n |-> x.p.n, d |-> x.p.d, m |-> x.p.m])
RspOf(x) == Rsp(x.id, PR(x.src), PR(x.dst), x.to, x.k, x.d)
CtlOf(x) == Ctl(x.c, PR(x.src), PR(x.dst))

PairOf(k) == CASE k = "rqo" -> "rqi" [] k = "rqi" -> "rqo" [] k = "dti" -> "dto" [] k = "dto" -> "dti" [] OTHER -> "ctl"

\* the component sub-step made of Send(sp, out) and Take(PairOf(sp), in)
Apply(g, sp, out, in) ==
  CASE sp = "rqo" -> /\ out.t = "req" /\ in.t = "req"
                     /\ port[g].rqiIn # <<>> /\ Head(port[g].rqiIn) = ReqOf(in)
                     /\ FwdOutCore(g, ReqOf(out))
    [] sp = "dti" -> /\ out.t = "req" /\ in.t = "req"
                     /\ port[g].dtoIn # <<>> /\ Head(port[g].dtoIn) = ReqOf(in)
                     /\ FwdInCore(g, ReqOf(out))
    [] sp = "dto" -> /\ out.t = "rsp" /\ in.t = "rsp"
                     /\ port[g].dtiIn # <<>> /\ Head(port[g].dtiIn) = RspOf(in)
                     /\ RspOutCore(g, RspOf(out))
    [] sp = "rqi" -> /\ out.t = "rsp" /\ in.t = "rsp"
                     /\ port[g].rqoIn # <<>> /\ Head(port[g].rqoIn) = RspOf(in)
                     /\ RspInCore(g, RspOf(out))
    [] sp = "ctl" -> /\ out.t = "ctl" /\ in.t = "ctl" /\ in.c = "restart"
                     /\ port[g].ctlIn # <<>> /\ Head(port[g].ctlIn) = CtlOf(in)
                     /\ RestartCore(g, CtlOf(out))

\* -------------------------------------------------------------- component
TSend ==
  /\ Is("Send") /\ UNCHANGED gc
  /\ LET g == Ev.g  k == Ev.k  m == Ev.m IN
     /\ g \in cfg.comps
     /\ IF k = "ctl" /\ m.t = "ctl" /\ m.c = "drainrsp"
        THEN half[g].k = "none" /\ DrainAckCore(g, CtlOf(m)) /\ UNCHANGED half
        ELSE IF half[g].k = "none"
        THEN /\ half' = [half EXCEPT ![g] = [k |-> "send", port |-> k, m |-> m]]
             /\ UNCHANGED vars
        ELSE /\ half[g].k = "take" /\ half[g].port = PairOf(k)
             /\ Apply(g, k, m, half[g].m)
             /\ half' = [half EXCEPT ![g] = NoHalf]

TTake ==
  /\ Is("Take") /\ UNCHANGED gc
  /\ LET g == Ev.g  k == Ev.k  m == Ev.m IN
     /\ g \in cfg.comps
     /\ IF k = "ctl" /\ m.t = "ctl" /\ m.c = "drain"
        THEN /\ half[g].k = "none"
             /\ port[g].ctlIn # <<>> /\ Head(port[g].ctlIn) = CtlOf(m)
             /\ TakeDrain(g) /\ UNCHANGED half
        ELSE IF half[g].k = "none"
        THEN /\ half' = [half EXCEPT ![g] = [k |-> "take", port |-> k, m |-> m]]
             /\ UNCHANGED vars
        ELSE /\ half[g].k = "send" /\ half[g].port = PairOf(k)
             /\ Apply(g, half[g].port, half[g].m, m)
             /\ half' = [half EXCEPT ![g] = NoHalf]

\* ------------------------------------------------------------ environment
InNet(s, id) == \E x \in s : x.id = id
Pick(s, id) == CHOOSE x \in s : x.id = id

TRecv ==
  /\ Is("Recv") /\ UNCHANGED <<half, gc>>
  /\ LET g == Ev.g  k == Ev.k  m == Ev.m IN
     CASE k = "rqi" -> m.t = "req" /\ EnvL1Req(g, ReqOf(m))
       [] k = "dto" -> /\ m.t = "req"
                       /\ IF InNet(env.nreq, m.id)
                          THEN ReqOf(m) \in env.nreq /\ PR(m.dst).g = g /\ NetDeliverReq(ReqOf(m))
                          ELSE ExtReq(g, ReqOf(m))
       [] k = "rqo" -> /\ m.t = "rsp"
                       /\ IF InNet(env.nrsp, m.id)
                          THEN RspOf(m) \in env.nrsp /\ PR(m.dst).g = g /\ NetDeliverRsp(RspOf(m))
                          ELSE /\ InNet(env.nreq, m.to) /\ Pick(env.nreq, m.to).src.g = g
                               /\ ExtAnswer(Pick(env.nreq, m.to), RspOf(m))
       [] k = "dti" -> /\ m.t = "rsp" /\ InNet(env.l2, m.to) /\ Pick(env.l2, m.to).src.g = g
                       /\ L2Rsp(Pick(env.l2, m.to), RspOf(m))
       [] k = "ctl" -> m.t = "ctl" /\ EnvCtrl(g, CtlOf(m))

\* the answer reached its requester: with gc the root is forgotten
L1TakeGC(g, r) ==
  /\ port' = [port EXCEPT ![g].rqiOut = Tail(@)] /\ h' = Prune(h, r)
  /\ UNCHANGED <<cfg, tab, ctl, env, used>>
PeerTakeGC(g, r) ==
  /\ port' = [port EXCEPT ![g].dtoOut = Tail(@)] /\ h' = Prune(h, r)
  /\ UNCHANGED <<cfg, tab, ctl, env, used>>

TPull ==
  /\ Is("Pull") /\ UNCHANGED <<half, gc>>
  /\ LET g == Ev.g  k == Ev.k  m == Ev.m IN
     CASE k = "rqi" -> /\ port[g].rqiOut # <<>> /\ Head(port[g].rqiOut) = RspOf(m)
                       /\ IF gc THEN L1TakeGC(g, m.to) ELSE L1Take(g)
       [] k = "rqo" -> port[g].rqoOut # <<>> /\ Head(port[g].rqoOut) = ReqOf(m) /\ NetTakeReq(g)
       [] k = "dto" -> /\ port[g].dtoOut # <<>> /\ Head(port[g].dtoOut) = RspOf(m)
                       /\ IF gc /\ PR(m.dst).g \notin cfg.comps THEN PeerTakeGC(g, RootOf(m.to)) ELSE NetTakeRsp(g)
       [] k = "dti" -> port[g].dtiOut # <<>> /\ Head(port[g].dtiOut) = ReqOf(m) /\ L2Take(g)
       [] k = "ctl" -> port[g].ctlOut # <<>> /\ Head(port[g].ctlOut) = CtlOf(m) /\ EnvTakeCtrl(g)

\* The driver served every port, answered everything it owed, completed the
\* drain protocol and ran the engine until no event was pending: nothing may
\* be left anywhere and every request must have been answered.
TQuiesce ==
  /\ Is("Quiesce") /\ Quiet /\ Quiescent /\ \A r \in Roots : Answered(r)
  /\ UNCHANGED vars /\ UNCHANGED <<half, gc>>

SeqSet(s) == {s[i] : i \in 1..Len(s)}
\* concatenated traces: start over with the configuration of the next run
TReset ==
  /\ Is("Reset") /\ Quiet
  /\ cfg' = [comps |-> SeqSet(Ev.comps), il |-> Ev.il, nb |-> Ev.nb,
             ranges |-> {[g |-> r[1], lo |-> r[2], hi |-> r[3]] : r \in SeqSet(Ev.ranges)}]
  /\ port' = [c \in Gpus |-> NoPorts]
  /\ tab' = [c \in Gpus |-> [ins |-> <<>>, outs |-> <<>>]]
  /\ ctl' = [c \in Gpus |-> NoCtl]
  /\ env' = [nreq |-> {}, nrsp |-> {}, l2 |-> {}, phase |-> [c \in Gpus |-> "run"], nDrain |-> 0]
  /\ used' = {}
  /\ h' = NoHist
  /\ gc' = ("gc" \in DOMAIN Ev /\ Ev.gc = 1)
  /\ UNCHANGED half

TNext == TSend \/ TTake \/ TRecv \/ TPull \/ TQuiesce \/ TReset
TSpec == TInit /\ [][TNext]_tvars

Mark == HWNote(l)                 \* CONSTRAINT: records progress
Accepted == HWReport(N)           \* POSTCONDITION
=============================================================================
