SPECIFICATION SSpec
CONSTANTS
  Gpus = {0, 1, 2, 3}
  Comps = {1, 2}
  PortCap = 1
  Span = 4
  Ileave = 2
  NBanks = 2
  Payloads <- MCPayloads
  RspData <- MCRspData
  MaxReq = 4
  MaxDrain = 3
  Deviations = {}
INVARIANTS ExactlyOnceRouting OwnerIsAddressRangeOwner PayloadPreserved RspToOriginator
           DrainAckOnlyWhenEmpty NoForwardWhilePaused DrainedNoOwnTraffic AllDrainedQuiet
CHECK_DEADLOCK FALSE
