SPECIFICATION FairSpec
CONSTANTS
  Gpus = {1, 2, 3}
  Comps = {1, 2}
  PortCap = 1
  Span = 4
  Ileave = 2
  NBanks = 2
  Payloads <- MCPayloads
  RspData <- MCRspData1
  MaxReq = 2
  MaxDrain = 1
  Deviations = {}
PROPERTIES Progress DrainProgress
CHECK_DEADLOCK FALSE
