SPECIFICATION SSpec
CONSTANTS
  Gpus = {0, 1, 2, 3}
  Comps = {2}
  PortCap = 2
  Span = 4
  Ileave = 2
  NBanks = 2
  Payloads <- MCPayloads
  RspData <- MCRspData
  MaxReq = 6
  MaxDrain = 3
  Deviations = {}
INVARIANTS ExactlyOnceRouting OwnerIsAddressRangeOwner PayloadPreserved RspToOriginator
           DrainAckOnlyWhenEmpty NoForwardWhilePaused DrainedNoOwnTraffic AllDrainedQuiet
CHECK_DEADLOCK FALSE
