SPECIFICATION Spec
CONSTANTS
  Gpus = {1, 2, 3}
  Comps = {1, 2}
  PortCap = 2
  Span = 4
  Ileave = 2
  NBanks = 2
  Payloads <- MCPayloads
  RspData <- MCRspData
  MaxReq = 2
  MaxDrain = 1
  Deviations = {}
INVARIANTS TypeOK ExactlyOnceRouting OwnerIsAddressRangeOwner PayloadPreserved RspToOriginator
           DrainAckOnlyWhenEmpty NoForwardWhilePaused DrainedNoOwnTraffic AllDrainedQuiet AllAnswered
CHECK_DEADLOCK FALSE
