SPECIFICATION SSpec
CONSTANTS
  GPUs = {1, 2}
  Pages = {1, 2}
  MaxVer = 1
  MaxOps = 2
  Deviations = {"FlushOnlyGPUsInUse"}
INVARIANTS HostSeesLastWrite
CHECK_DEADLOCK FALSE
