SPECIFICATION FairSpec
CONSTANTS
  Gpus = {1, 2, 3}
  Comps = {1, 2}
  PortCap = 2
  Span = 4
  Ileave = 2
  NBanks = 2
  Payloads <- MCPayloads
  RspData <- MCRspData
  MaxReq = 1
  MaxDrain = 2
PROPERTIES Progress DrainProgress
CHECK_DEADLOCK FALSE
