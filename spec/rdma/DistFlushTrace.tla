--------------------------- MODULE DistFlushTrace ---------------------------
(***************************************************************************)
(* Is the log of a driver-level program on the real timing platform a      *)
(* behaviour of DistFlush?  Application steps (Alloc, Place, Store,        *)
(* HostRead) are logged by the program, everything else by hooks: the      *)
(* driver's GPU port (FlushReq / MemCopyD2HReq / MemCopyH2DReq sent, flush *)
(* answers received) and the RDMADataInside port of every RDMA engine (a   *)
(* store of another GPU handed to the local L2).  buf = 1 is the buffer    *)
(* under observation; copies of other buffers (buf = 0) change nothing.    *)
(***************************************************************************)
EXTENDS DistFlush, TraceLib, Json, Sequences

TraceLog == ndJsonDeserialize("trace.ndjson")
N == Len(TraceLog)
VARIABLES l, np
tvars == <<vars, l, np>>
ASSUME HWInit
Ev == TraceLog[l]
Is(e) == l <= N /\ Ev.e = e /\ l' = l + 1
TInit == Init /\ l = 1 /\ np = 0

TReset == /\ Is("Reset") /\ np' = Ev.pages
          /\ place' = [p \in Pages |-> 0] /\ l2' = [p \in Pages |-> 0] /\ mem' = [p \in Pages |-> 0]
          /\ last' = [p \in Pages |-> 0] /\ fl' = [g \in GPUs |-> "idle"] /\ inUse' = {} /\ cmd' = NoCmd /\ h' = NoHist
TAlloc == Is("Alloc") /\ Alloc(Ev.g) /\ UNCHANGED np
TPlace == /\ Is("Place") /\ Len(Ev.f) = np /\ UNCHANGED np
          /\ PlaceOn([p \in Pages |-> IF p <= np THEN Ev.f[p] ELSE place[p]])
TStore == Is("Store") /\ Store(Ev.g, Ev.v) /\ UNCHANGED np
TRemote == Is("RemoteStore") /\ RemoteStore(Ev.g) /\ UNCHANGED np
TFlushReq == Is("FlushReq") /\ FlushReq(Ev.g) /\ UNCHANGED np
TFlushRsp == Is("FlushRsp") /\ FlushRsp(Ev.g) /\ UNCHANGED np
TD2H == /\ Is("D2HSend") /\ UNCHANGED np
        /\ IF Ev.buf = 1 THEN Ev.k \in 1..np /\ D2HSendCore(Ev.g, Ev.k) ELSE UNCHANGED vars
TH2D == /\ Is("H2DSend") /\ UNCHANGED np
        /\ IF Ev.buf = 1 THEN Ev.k \in 1..np /\ H2DSendCore(Ev.g, Ev.k, Ev.v) ELSE UNCHANGED vars
TRead == Is("HostRead") /\ Ev.k \in 1..np /\ HostRead(Ev.k, Ev.v) /\ UNCHANGED np
\* the program returned and the engine is idle: nothing may be half done
TEnd == Is("End") /\ (\A g \in GPUs : fl[g] = "idle") /\ UNCHANGED vars /\ UNCHANGED np
TNext == TReset \/ TAlloc \/ TPlace \/ TStore \/ TRemote \/ TFlushReq \/ TFlushRsp \/ TD2H \/ TH2D \/ TRead \/ TEnd
TSpec == TInit /\ [][TNext]_tvars
Mark == HWNote(l)
Accepted == HWReport(N)
=============================================================================
