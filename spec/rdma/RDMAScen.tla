----------------------------- MODULE RDMAScen -----------------------------
(* RDMA with a history variable naming the step taken: `tlc -simulate` on  *)
(* this module yields behaviours whose environment steps become replay     *)
(* scenarios for the real components (component steps become "Await").     *)
(* Messages are named by the ordinal of their root request, which is the   *)
(* same in the model and in the replay (roots are issued by the script).   *)
(* Every step that puts a message into a queue of an engine names that     *)
(* engine (c), so that the replay can deliver it just before the step that *)
(* consumes it (the real engine is eager, the model is lazy).              *)
EXTENDS RDMA
VARIABLE act
MCPayloads == {[k |-> "r", a |-> 5,  n |-> 4, d |-> <<>>,        m |-> <<>>],
               [k |-> "r", a |-> 7,  n |-> 1, d |-> <<>>,        m |-> <<>>],
               [k |-> "w", a |-> 8,  n |-> 3, d |-> <<7, 9, 1>>, m |-> <<1, 0, 1>>],
               [k |-> "w", a |-> 11, n |-> 1, d |-> <<200>>,     m |-> <<1>>],
               [k |-> "r", a |-> 13, n |-> 2, d |-> <<>>,        m |-> <<>>],
               [k |-> "w", a |-> 1,  n |-> 2, d |-> <<4, 4>>,    m |-> <<0, 1>>]}
MCRspData == {<<1, 1, 1, 1>>, <<2, 0, 0, 2>>}

A(x) == act' = x
SComp(c) ==
  \/ (port[c].rqiIn # <<>> /\ FwdOut(c, 10 * Head(port[c].rqiIn).id + 1) /\ A([a |-> "Await", c |-> c, e |-> "FwdOut"]))
  \/ (port[c].dtoIn # <<>> /\ FwdIn(c, 10 * RootOf(Head(port[c].dtoIn).id) + 2) /\ A([a |-> "Await", c |-> c, e |-> "FwdIn"]))
  \/ (port[c].dtiIn # <<>> /\ RspOut(c, 10 * RootOf(Head(port[c].dtiIn).to) + 4) /\ A([a |-> "Await", c |-> c, e |-> "RspOut"]))
  \/ (port[c].rqoIn # <<>> /\ RspIn(c, 10 * RootOf(Head(port[c].rqoIn).to) + 5) /\ A([a |-> "Await", c |-> c, e |-> "RspIn"]))
  \/ (TakeDrain(c) /\ A([a |-> "Await", c |-> c, e |-> "TakeDrain"]))
  \/ (DrainPrepare(c) /\ A([a |-> "Tick"]))
  \/ (DrainAck(c) /\ A([a |-> "Await", c |-> c, e |-> "DrainAck"]))
  \/ (Restart(c) /\ A([a |-> "Await", c |-> c, e |-> "Restart"]))
SEnv ==
  \/ /\ NextRoot <= MaxReq
     /\ \/ \E c \in cfg.comps, p \in Payloads :
             /\ Owner(p.a) # c
             /\ EnvL1Req(c, Req(NextRoot, P(c, "l1", NextRoot % 2), P(c, "rqi", 0), p))
             /\ A([a |-> "L1Req", c |-> c, s |-> NextRoot % 2, p |-> p])
        \/ \E g \in Gpus \ cfg.comps, p \in Payloads :
             /\ Owner(p.a) \in cfg.comps
             /\ ExtReq(Owner(p.a), Req(NextRoot, P(g, "rqo", 0), DataPort(Owner(p.a)), p))
             /\ A([a |-> "ExtReq", g |-> g, c |-> Owner(p.a), p |-> p])
  \/ \E c \in cfg.comps :
        \/ NetTakeReq(c) /\ A([a |-> "NetTakeReq", c |-> c])
        \/ NetTakeRsp(c) /\ A([a |-> "NetTakeRsp", c |-> c])
        \/ L2Take(c) /\ A([a |-> "L2Take", c |-> c])
        \/ L1Take(c) /\ A([a |-> "L1Take", c |-> c])
        \/ EnvTakeCtrl(c) /\ A([a |-> "CtrlTake", c |-> c])
        \/ (env.nDrain < MaxDrain /\ EnvCtrl(c, Ctl("drain", P(c, "cp", 0), P(c, "ctl", 0))) /\ A([a |-> "Ctrl", c |-> c, k |-> "drain"]))
        \/ (EnvCtrl(c, Ctl("restart", P(c, "cp", 0), P(c, "ctl", 0))) /\ A([a |-> "Ctrl", c |-> c, k |-> "restart"]))
  \/ \E m \in env.nreq : NetDeliverReq(m) /\ A([a |-> "NetDeliverReq", root |-> RootOf(m.id), c |-> m.dst.g])
  \/ \E m \in env.nrsp : NetDeliverRsp(m) /\ A([a |-> "NetDeliverRsp", root |-> RootOf(m.to), c |-> m.dst.g])
  \/ \E q \in env.nreq, d \in RspData : ExtAnswer(q, Answer(q, d)) /\ A([a |-> "ExtAnswer", root |-> RootOf(q.id), d |-> Answer(q, d).d, c |-> q.src.g])
  \/ \E q \in env.l2, d \in RspData : L2Rsp(q, Answer(q, d)) /\ A([a |-> "L2Rsp", root |-> RootOf(q.id), d |-> Answer(q, d).d, c |-> q.src.g])
SInit == Init /\ act = [a |-> "Init"]
SNext == (\E c \in cfg.comps : SComp(c)) \/ SEnv
SSpec == SInit /\ [][SNext]_<<vars, act>>
=============================================================================
