----------------------------- MODULE DistFlush -----------------------------
(***************************************************************************)
(* A buffer whose pages are spread over the memories of several GPUs, a    *)
(* kernel on one GPU that stores to all of its pages, and host copies      *)
(* (C18: final data do not depend on the buffer distribution).             *)
(*                                                                         *)
(* A store to a page goes to the write-back L2 of the GPU that owns the    *)
(* page - through the RDMA engines when the kernel runs elsewhere - and    *)
(* stays dirty there; DRAM (what the DMA engines and the host see) gets it *)
(* when that GPU is flushed.  The driver (defaultMemoryCopyMiddleware)     *)
(* must therefore send a FlushReq to every GPU that may hold dirty lines    *)
(* before it sends the MemCopyD2H / MemCopyH2D requests of a copy.  It     *)
(* does not wait for the flush answers: the command processor of a GPU     *)
(* handles the messages of the driver in order and holds a copy request    *)
(* back while a flush is in progress (cpMiddleware.processMemCopyReq:      *)
(* numCacheACK > 0), so a copy request sent to GPU g behind a FlushReq to  *)
(* g finds the pages of g written back (Behind below).                     *)
(*                                                                         *)
(* Core actions take what was observed as arguments and record it in h;    *)
(* the Driver* actions are the intended design (model checking).           *)
(* Named deviation "FlushOnlyGPUsInUse": the driver flushes only GPUs that *)
(* were given memory by AllocateMemory or a kernel; pages placed by        *)
(* Distribute / Remap do not count.                                        *)
(***************************************************************************)
EXTENDS Integers, FiniteSets, TLC

CONSTANTS GPUs, Pages, MaxVer, MaxOps, Deviations

VARIABLES place,   \* [Pages -> GPUs \cup {0}]   owner of each page of the buffer (0: not allocated yet)
          l2,      \* [Pages -> 0..MaxVer]       version held dirty in the owner's L2 (0: clean)
          mem,     \* [Pages -> 0..MaxVer]       version in DRAM
          last,    \* [Pages -> 0..MaxVer]       version of the last write (host or kernel)
          fl,      \* [GPUs -> {"idle","req"}]   flush requested, not yet answered
          inUse,   \* GPUs given memory by AllocateMemory or a kernel (what the deviation looks at)
          cmd,     \* driver's copy command in progress (model checking only)
          h        \* history: copies sent, values the host read, remote stores seen
vars == <<place, l2, mem, last, fl, inUse, cmd, h>>

NoCmd == [k |-> "none", todo |-> {}, ver |-> 0]
NoHist == [d2h |-> {}, h2d |-> {}, reads |-> {}, remote |-> {}, kern |-> 0, nops |-> 0, placed |-> FALSE]
Init == /\ place = [p \in Pages |-> 0] /\ l2 = [p \in Pages |-> 0] /\ mem = [p \in Pages |-> 0]
        /\ last = [p \in Pages |-> 0] /\ fl = [g \in GPUs |-> "idle"] /\ inUse = {}
        /\ cmd = NoCmd /\ h = NoHist

\* ------------------------------------------------------------- application
Alloc(g) ==                       \* SelectGPU(g); AllocateMemory
  /\ \A p \in Pages : place[p] = 0
  /\ place' = [p \in Pages |-> g] /\ inUse' = inUse \cup {g}
  /\ UNCHANGED <<l2, mem, last, fl, cmd, h>>

PlaceOn(f) ==                     \* Distribute / Remap: new physical pages, before the buffer is written
  /\ \A p \in Pages : place[p] # 0 /\ last[p] = 0
  /\ ~h.placed /\ cmd.k = "none"                    \* API calls are sequential: no copy is in progress
  /\ place' = f /\ h' = [h EXCEPT !.placed = TRUE]
  /\ UNCHANGED <<l2, mem, last, fl, inUse, cmd>>

Store(g, v) ==                    \* a kernel on GPU g stores version v to every page of the buffer
  /\ \A p \in Pages : place[p] # 0
  /\ l2' = [p \in Pages |-> v] /\ last' = [p \in Pages |-> v]
  /\ inUse' = inUse \cup {g}
  /\ h' = [h EXCEPT !.kern = g, !.nops = @ + 1]
  /\ UNCHANGED <<place, mem, fl, cmd>>

RemoteStore(x) ==                 \* observed at the RDMA engine of GPU x: a store of another GPU handed to x's L2
  /\ x # h.kern /\ \E p \in Pages : place[p] = x /\ l2[p] # 0
  /\ h' = [h EXCEPT !.remote = @ \cup {x}]
  /\ UNCHANGED <<place, l2, mem, last, fl, inUse, cmd>>

\* ----------------------------------------------------------------- platform
FlushReq(g) == /\ fl[g] = "idle" /\ fl' = [fl EXCEPT ![g] = "req"]
               /\ UNCHANGED <<place, l2, mem, last, inUse, cmd, h>>
FlushRsp(g) ==                    \* GPU g wrote its dirty lines back
  /\ fl[g] = "req" /\ fl' = [fl EXCEPT ![g] = "idle"]
  /\ mem' = [p \in Pages |-> IF place[p] = g /\ l2[p] # 0 THEN l2[p] ELSE mem[p]]
  /\ l2' = [p \in Pages |-> IF place[p] = g THEN 0 ELSE l2[p]]
  /\ UNCHANGED <<place, last, inUse, cmd, h>>

\* a copy request for page k sent to GPU g queues behind a pending flush of g iff g owns the page
Behind(g, k) == place[k] = g /\ fl[g] = "req"
Stale(g, k) == l2[k] # 0 /\ ~Behind(g, k)
\* the driver sends the MemCopyD2H request for page k to GPU g (whose DMA engine reads DRAM)
D2HSendCore(g, k) ==
  /\ h' = [h EXCEPT !.d2h = @ \cup {[k |-> k, g |-> g, owner |-> place[k], stale |-> Stale(g, k), n |-> Cardinality(h.d2h)]}]
  /\ mem' = [mem EXCEPT ![k] = IF l2[k] # 0 /\ Behind(g, k) THEN l2[k] ELSE @]
  /\ l2' = [l2 EXCEPT ![k] = IF Behind(g, k) THEN 0 ELSE @]
  /\ UNCHANGED <<place, last, fl, inUse, cmd>>
\* the host finds version v in page k of what MemCopyD2H returned
HostRead(k, v) ==
  /\ h' = [h EXCEPT !.reads = @ \cup {[k |-> k, v |-> v, want |-> last[k], n |-> Cardinality(h.reads)]}]
  /\ UNCHANGED <<place, l2, mem, last, fl, inUse, cmd>>
\* the driver sends the MemCopyH2D request carrying version v of page k to GPU g (DMA writes DRAM)
H2DSendCore(g, k, v) ==
  /\ h' = [h EXCEPT !.h2d = @ \cup {[k |-> k, g |-> g, owner |-> place[k], stale |-> Stale(g, k), n |-> Cardinality(h.h2d)]}]
  /\ mem' = [mem EXCEPT ![k] = v] /\ last' = [last EXCEPT ![k] = v]
  /\ l2' = [l2 EXCEPT ![k] = IF Behind(g, k) THEN 0 ELSE @]
  /\ UNCHANGED <<place, fl, inUse, cmd>>

\* ----------------------------------------------------- the driver (design)
ToFlush == IF "FlushOnlyGPUsInUse" \in Deviations THEN inUse ELSE GPUs
Ready == cmd.k = "none" /\ \A p \in Pages : place[p] # 0
DriverStart(kind, v) ==           \* MemCopyD2H / MemCopyH2D command: flush first (needFlushing / sendFlushRequest)
  /\ Ready /\ h.nops < MaxOps /\ \A g \in GPUs : fl[g] = "idle"
  /\ cmd' = [k |-> kind, todo |-> ToFlush, ver |-> v]
  /\ h' = [h EXCEPT !.nops = @ + 1]
  /\ UNCHANGED <<place, l2, mem, last, fl, inUse>>
DriverFlush(g) ==
  /\ cmd.k # "none" /\ g \in cmd.todo /\ fl[g] = "idle"
  /\ fl' = [fl EXCEPT ![g] = "req"] /\ cmd' = [cmd EXCEPT !.todo = @ \ {g}]
  /\ UNCHANGED <<place, l2, mem, last, inUse, h>>
DriverCopy ==                     \* every flush request is out: one request per page, to its owner
  /\ cmd.k # "none" /\ cmd.todo = {}
  /\ LET eff(p) == IF l2[p] # 0 /\ Behind(place[p], p) THEN l2[p] ELSE mem[p] IN
     \/ /\ cmd.k = "d2h"
        /\ h' = [h EXCEPT !.d2h = @ \cup {[k |-> p, g |-> place[p], owner |-> place[p], stale |-> Stale(place[p], p), n |-> h.nops] : p \in Pages},
                          !.reads = @ \cup {[k |-> p, v |-> eff(p), want |-> last[p], n |-> h.nops] : p \in Pages}]
        /\ mem' = [p \in Pages |-> eff(p)]
        /\ UNCHANGED last
     \/ /\ cmd.k = "h2d"
        /\ h' = [h EXCEPT !.h2d = @ \cup {[k |-> p, g |-> place[p], owner |-> place[p], stale |-> Stale(place[p], p), n |-> h.nops] : p \in Pages}]
        /\ mem' = [p \in Pages |-> cmd.ver] /\ last' = [p \in Pages |-> cmd.ver]
  /\ l2' = [p \in Pages |-> IF Behind(place[p], p) THEN 0 ELSE l2[p]]
  /\ cmd' = NoCmd
  /\ UNCHANGED <<place, fl, inUse>>

Next ==
  \/ \E g \in GPUs : Alloc(g)
  \/ \E f \in [Pages -> GPUs] : PlaceOn(f)
  \/ \E g \in GPUs, v \in 1..MaxVer : Ready /\ h.nops < MaxOps /\ Store(g, v)
  \/ \E v \in 1..MaxVer : DriverStart("h2d", v)
  \/ DriverStart("d2h", 0)
  \/ \E g \in GPUs : DriverFlush(g) \/ FlushRsp(g)
  \/ DriverCopy
Spec == Init /\ [][Next]_vars

\* -------------------------------------------------------------- properties
\* what the host reads is what was written last, wherever the pages are
HostSeesLastWrite == \A e \in h.reads : e.v = e.want
\* no copy request is sent while the owner's L2 holds a newer version of the page and no flush of the owner is on its way
D2HOnlyAfterFlush == \A e \in h.d2h : ~e.stale
H2DOnlyAfterFlush == \A e \in h.h2d : ~e.stale
\* a page is copied by the DMA engine of the GPU that owns it
CopyGoesToOwner == \A e \in h.d2h \cup h.h2d : e.g = e.owner
=============================================================================
