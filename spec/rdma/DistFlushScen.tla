--------------------------- MODULE DistFlushScen ---------------------------
(* DistFlush with a history variable naming the application-level step: a  *)
(* behaviour becomes a driver-level program (allocate, place the pages,    *)
(* kernel stores, host copies) for the real timing platform.               *)
EXTENDS DistFlush
VARIABLE act
A(x) == act' = x
SNext ==
  \/ \E g \in GPUs : Alloc(g) /\ A([a |-> "Alloc", g |-> g])
  \/ \E f \in [Pages -> GPUs] : PlaceOn(f) /\ A([a |-> "Place", f |-> f])
  \/ \E g \in GPUs, v \in 1..MaxVer : Ready /\ h.nops < MaxOps /\ Store(g, v) /\ A([a |-> "Store", g |-> g, v |-> v])
  \/ \E v \in 1..MaxVer : DriverStart("h2d", v) /\ A([a |-> "H2D", v |-> v])
  \/ DriverStart("d2h", 0) /\ A([a |-> "D2H"])
  \/ (\E g \in GPUs : DriverFlush(g) \/ FlushRsp(g)) /\ A([a |-> "drv"])
  \/ DriverCopy /\ A([a |-> "drv"])
SSpec == Init /\ act = [a |-> "Init"] /\ [][SNext]_<<vars, act>>
=============================================================================
