SPECIFICATION Spec
CONSTANTS
  MCCfg <- CfgA
  Gate = TRUE
  EnvGate = FALSE
  CmdKinds = {"flush"}
  MaxCmd = 2
  HSScript <- HSAcc
  MaxHS = 2
INVARIANTS RspOnce RspAfterAll StageOrder EachUnitOnce Sane InOrder AllServed NoPanic
CHECK_DEADLOCK FALSE
