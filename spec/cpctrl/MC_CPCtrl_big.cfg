SPECIFICATION Spec
CONSTANTS
  MCCfg <- CfgB
  Gate = TRUE
  EnvGate = FALSE
  CmdKinds = {"flush", "copy", "launch"}
  MaxCmd = 2
  HSScript <- HSFull
  MaxHS = 1
INVARIANTS RspOnce RspAfterAll StageOrder EachUnitOnce Sane InOrder AllServed NoPanic
CHECK_DEADLOCK FALSE
