SPECIFICATION Spec
CONSTANTS
  MCCfg <- CfgA
  Gate = FALSE
  EnvGate = FALSE
  CmdKinds = {"shoot", "copy"}
  MaxCmd = 3
  HSScript <- HSNone
  MaxHS = 1
INVARIANTS RspOnce RspAfterAll StageOrder EachUnitOnce Sane InOrder AllServed NoPanic
CHECK_DEADLOCK FALSE
