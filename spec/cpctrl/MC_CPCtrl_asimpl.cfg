SPECIFICATION Spec
CONSTANTS
  MCCfg <- CfgA
  Gate = FALSE
  EnvGate = FALSE
  CmdKinds = {"flush"}
  MaxCmd = 1
  HSScript <- HSFull
  MaxHS = 1
INVARIANTS RspOnce RspAfterAll StageOrder EachUnitOnce Sane InOrder AllServed NoPanic
CHECK_DEADLOCK FALSE
