SPECIFICATION SSpec
CONSTANTS
  MCCfg <- CfgS
  Gate = FALSE
  EnvGate = TRUE
  CmdKinds = {"flush", "copy", "launch"}
  MaxCmd = 4
  HSScript <- HSFull
  MaxHS = 1
INVARIANTS RspOnce RspAfterAll StageOrder EachUnitOnce Sane NoPanic
CHECK_DEADLOCK FALSE
