---------------------------- MODULE CPCtrlScen ----------------------------
(* CPCtrl with a history variable naming the step taken: `tlc -simulate`    *)
(* yields behaviours whose environment steps (driver requests, which unit   *)
(* picks up / answers which message, response pick-up) become replay        *)
(* scenarios for the real command processor; CP steps are awaited by the    *)
(* port operation that identifies the handler.                              *)
EXTENDS CPCtrl
VARIABLE act
HSFull == <<"drain", "shoot", "mig", "restart", "rdmarestart">>
CfgS == [ncu |-> 2, nat |-> 2, ntlb |-> 2, ncache |-> 3, ndisp |-> 2]

SInit == Init /\ act = [a |-> "Init"]
Aw(op, p, k) == act' = [a |-> "Await", op |-> op, p |-> p, k |-> k]
SNext ==
  /\ UNCHANGED cfg
  /\ \/ StartFlush /\ Aw("Recv", "drv", "flush")
     \/ ForwardCopy /\ Aw("Recv", "drv", "copy")
     \/ AcceptLaunch /\ Aw("Recv", "drv", "launch")
     \/ StartShoot /\ Aw("Recv", "drv", "shoot")
     \/ StartRestart /\ Aw("Recv", "drv", "restart")
     \/ StartSimple("drain", "rdma") /\ Aw("Recv", "drv", "drain")
     \/ StartSimple("rdmarestart", "rdma") /\ Aw("Recv", "drv", "rdmarestart")
     \/ StartSimple("mig", "pmc") /\ Aw("Recv", "drv", "mig")
     \/ \E p \in {"rdma", "pmc", "dma", "at", "cache", "tlb"} :
          /\ inq[p] # <<>> /\ Aw("Recv", p, Head(inq[p]).k)
          /\ CASE p = "rdma" -> RecvRDMA [] p = "pmc" -> RecvPMC [] p = "dma" -> RecvDMA [] p = "at" -> RecvAT
               [] p = "cache" -> RecvCache [] p = "tlb" -> RecvTLB
     \/ inq["cu"] # <<>> /\ (RecvCU \/ RecvWGDone) /\ Aw("Recv", "cu", Head(inq["cu"]).k)
     \/ \E id \in DOMAIN kern : \/ LaunchRsp(id) /\ Aw("Send", "drv", "launch")
                                \/ \E u \in Units("cu") : SendMap(id, u) /\ Aw("Send", "cu", "map")
     \/ EnvTakeRsp /\ act' = [a |-> "EnvTakeRsp"]
     \/ \E p \in Ports : \/ \E i \in 1..Len(out[p]) : UnitTake(p, i) /\ act' = [a |-> "UnitTake", p |-> p, k |-> out[p][i].k, u |-> out[p][i].u]
                         \/ \E i \in 1..Len(pend[p]) : UnitRsp(p, i) /\ act' = [a |-> "UnitRsp", p |-> p, k |-> pend[p][i].k, u |-> pend[p][i].u]
     \/ /\ NumCmd < MaxCmd /\ UNCHANGED <<hsPos, hsBusy, nHS>>
        /\ \E k \in CmdKinds : (EnvGate => ~Conflicts(k))
                               /\ EnvReq([k |-> k, id |-> NextId, x |-> 0]) /\ act' = [a |-> "EnvReq", k |-> k]
     \/ /\ ~hsBusy /\ HSScript # <<>> /\ (EnvGate => ~Conflicts(HSScript[hsPos + 1]))
        /\ IF hsPos = 0 THEN nHS < MaxHS /\ nHS' = nHS + 1 ELSE UNCHANGED nHS
        /\ EnvReq([k |-> HSScript[hsPos + 1], id |-> NextId, x |-> 0]) /\ act' = [a |-> "EnvReq", k |-> HSScript[hsPos + 1]]
        /\ hsPos' = (hsPos + 1) % Len(HSScript) /\ hsBusy' = TRUE
SSpec == SInit /\ [][SNext]_<<vars, act>>
=============================================================================
