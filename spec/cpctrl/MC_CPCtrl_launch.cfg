SPECIFICATION Spec
CONSTANTS
  MCCfg <- CfgA
  Gate = TRUE
  EnvGate = FALSE
  CmdKinds = {"flush", "launch"}
  MaxCmd = 2
  HSScript <- HSFull
  MaxHS = 1
INVARIANTS RspOnce RspAfterAll StageOrder EachUnitOnce Sane InOrder AllServed NoPanic
CHECK_DEADLOCK FALSE
