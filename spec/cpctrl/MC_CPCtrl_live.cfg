SPECIFICATION FairSpec2
CONSTANTS
  MCCfg <- CfgA
  Gate = TRUE
  EnvGate = FALSE
  CmdKinds = {"flush", "copy"}
  MaxCmd = 1
  HSScript <- HSFull
  MaxHS = 1
PROPERTIES Progress
CHECK_DEADLOCK FALSE
