---------------------------- MODULE CPCtrlTrace ----------------------------
(***************************************************************************)
(* Trace specification: is a port-event log of a real cp.CommandProcessor  *)
(* (harness/cmd/c19cp) a behaviour of CPCtrl?                              *)
(*                                                                         *)
(* Environment lines (EnvReq, EnvTakeRsp, UnitTake, UnitRsp) are one       *)
(* environment action each.  A handler of the CP shows up as several       *)
(* lines (its Sends and its one RetrieveIncoming, in the handler's own     *)
(* order): the CP action fires on the FIRST line of the group, provided    *)
(* that line is one of the port operations the action performs; the other  *)
(* operations become `due` and the following lines must tick them off (in  *)
(* any order) before anything else may happen.  So a handler that sends to *)
(* the wrong unit, with the wrong flags, too early, twice, or not at all   *)
(* has no matching action.                                                 *)
(***************************************************************************)
EXTENDS CPCtrl, TraceLib, Json

TraceLog == ndJsonDeserialize("trace.ndjson")
N == Len(TraceLog)

VARIABLES l, due
tvars == <<vars, l, due>>

ASSUME HWInit

NoCfg == [ncu |-> 0, nat |-> 0, ntlb |-> 0, ncache |-> 0, ndisp |-> 0]
NoScript == <<>>
Ev == TraceLog[l]
Is(e) == l <= N /\ Ev.e = e /\ l' = l + 1
RemoveAt(s, i) == SubSeq(s, 1, i - 1) \o SubSeq(s, i + 1, Len(s))

TInit == Init /\ l = 1 /\ due = <<>>

\* ---- port operations performed by a CP step (primed variables are read after the step assigned them)
Op(op, p, m) == [op |-> op, p |-> p, k |-> m.k, u |-> m.u, fl |-> m.fl, x |-> m.x, id |-> m.tag]
SentOn(p) == LET new == SubSeq(out'[p], Len(out[p]) + 1, Len(out'[p])) IN [i \in 1..Len(new) |-> Op("Send", p, new[i])]
RecvOn(p) == IF Len(inq'[p]) < Len(inq[p]) THEN <<Op("Recv", p, Head(inq[p]))>> ELSE <<>>
DrvSent == LET new == SubSeq(drvOut', Len(drvOut) + 1, Len(drvOut')) IN
             [i \in 1..Len(new) |-> [op |-> "Send", p |-> "drv", k |-> new[i].k, u |-> 0, fl |-> "none", x |-> 0, id |-> new[i].id]]
DrvRecv == IF Len(drvIn') < Len(drvIn)
             THEN <<[op |-> "Recv", p |-> "drv", k |-> Head(drvIn).k, u |-> 0, fl |-> "none", x |-> Head(drvIn).x, id |-> Head(drvIn).id]>>
             ELSE <<>>
Produced == SentOn("cu") \o SentOn("at") \o SentOn("cache") \o SentOn("tlb") \o SentOn("rdma") \o SentOn("pmc")
            \o SentOn("dma") \o RecvOn("cu") \o RecvOn("at") \o RecvOn("cache") \o RecvOn("tlb") \o RecvOn("rdma")
            \o RecvOn("pmc") \o RecvOn("dma") \o DrvSent \o DrvRecv

\* the real messages carry a request id only on the driver port (and on MapWG / completion messages)
Correlated(d) == d.p = "drv" => d.k \in {"flush", "copy", "launch"}
Match(d) ==
  /\ d.op = Ev.e /\ d.p = Ev.p /\ d.k = Ev.k /\ d.u = Ev.u /\ d.fl = Ev.fl /\ d.x = Ev.x
  /\ (d.p = "drv" /\ (d.op = "Recv" \/ Correlated(d))) => d.id = Ev.id
  /\ (d.p = "cu" /\ d.k \in {"map", "wgdone"}) => d.id = Ev.id
  /\ (d.p = "drv" /\ d.op = "Send") => Ev.to = "Driver.ToGPUs"

IsCP == l <= N /\ Ev.e \in {"Send", "Recv"} /\ l' = l + 1
TCP ==
  /\ IsCP /\ due = <<>> /\ CPNext /\ UNCHANGED cfg
  /\ LET P == Produced IN \E i \in 1..Len(P) : Match(P[i]) /\ due' = RemoveAt(P, i)
TDue ==
  /\ IsCP /\ due # <<>> /\ UNCHANGED vars
  /\ \E i \in 1..Len(due) : Match(due[i]) /\ due' = RemoveAt(due, i)

\* ------------------------------------------------------------ environment
Quiet == due = <<>> /\ UNCHANGED <<due, cfg>>
TEnvReq == Is("EnvReq") /\ Quiet /\ EnvReq([k |-> Ev.k, id |-> Ev.id, x |-> Ev.x]) /\ UNCHANGED <<hsPos, hsBusy, nHS>>
TEnvTakeRsp == Is("EnvTakeRsp") /\ Quiet /\ drvOut # <<>> /\ Head(drvOut).k = Ev.k /\ EnvTakeRsp
TUnitTake ==
  /\ Is("UnitTake") /\ Quiet
  /\ \E i \in 1..Len(out[Ev.p]) :
       /\ out[Ev.p][i].k = Ev.k /\ out[Ev.p][i].u = Ev.u /\ out[Ev.p][i].fl = Ev.fl
       /\ \A j \in 1..(i - 1) : ~(out[Ev.p][j].k = Ev.k /\ out[Ev.p][j].u = Ev.u /\ out[Ev.p][j].fl = Ev.fl)
       /\ UnitTake(Ev.p, i)
TUnitRsp ==
  /\ Is("UnitRsp") /\ Quiet
  /\ \E i \in 1..Len(pend[Ev.p]) :
       /\ RspKind(pend[Ev.p][i].k) = Ev.k /\ pend[Ev.p][i].u = Ev.u
       /\ (Ev.k = "wgdone") => pend[Ev.p][i].tag = Ev.id
       /\ UnitRsp(Ev.p, i)

\* the harness served every unit and took every response until no event was pending
TQuiesce ==
  /\ Is("Quiesce") /\ Quiet /\ Idle
  /\ \A id \in DOMAIN reqs : RspsOf(id) # {}
  /\ numCU = 0 /\ numATF = 0 /\ numATR = 0 /\ numTLB = 0 /\ numCache = 0 /\ ~shoot /\ dmaMap = {}
  /\ UNCHANGED vars

TReset ==
  /\ Is("Reset") /\ due = <<>> /\ due' = <<>>
  /\ cfg' = [ncu |-> Ev.ncu, nat |-> Ev.nat, ntlb |-> Ev.ntlb, ncache |-> Ev.ncache, ndisp |-> Ev.ndisp]
  /\ drvIn' = <<>> /\ drvOut' = <<>> /\ out' = [p \in Ports |-> <<>>] /\ inq' = [p \in Ports |-> <<>>]
  /\ numCU' = 0 /\ numATF' = 0 /\ numATR' = 0 /\ numTLB' = 0 /\ numCache' = 0 /\ shoot' = FALSE
  /\ curShoot' = NoReq /\ curFlush' = NoReq /\ kern' = <<>> /\ dmaMap' = {}
  /\ pend' = [p \in Ports |-> <<>>] /\ hsPos' = 0 /\ hsBusy' = FALSE /\ nHS' = 0
  /\ reqs' = <<>> /\ accepted' = <<>> /\ rsps' = <<>> /\ sentU' = <<>> /\ ackU' = <<>> /\ dup' = {} /\ curRestart' = 0

TNext == TCP \/ TDue \/ TEnvReq \/ TEnvTakeRsp \/ TUnitTake \/ TUnitRsp \/ TQuiesce \/ TReset
TSpec == TInit /\ [][TNext]_tvars

Mark == HWNote(l)
Accepted == HWReport(N)
=============================================================================
