----------------------------- MODULE MC_CPCtrl -----------------------------
EXTENDS CPCtrl
HSFull == <<"drain", "shoot", "mig", "restart", "rdmarestart">>   \* accessing and requesting GPU
HSAcc  == <<"drain", "shoot", "restart", "rdmarestart">>          \* accessing GPU
HSReq  == <<"drain", "mig", "rdmarestart">>                       \* requesting GPU that did not access
HSNone == <<>>
CfgA == [ncu |-> 2, nat |-> 1, ntlb |-> 2, ncache |-> 2, ndisp |-> 1]
CfgB == [ncu |-> 1, nat |-> 2, ntlb |-> 1, ncache |-> 3, ndisp |-> 2]
CfgC == [ncu |-> 1, nat |-> 1, ntlb |-> 1, ncache |-> 1, ndisp |-> 1]
=============================================================================
