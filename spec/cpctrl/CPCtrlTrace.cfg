SPECIFICATION TSpec
CONSTANTS
  MCCfg <- NoCfg
  Gate = FALSE
  EnvGate = FALSE
  CmdKinds = {}
  MaxCmd = 0
  HSScript <- NoScript
  MaxHS = 0
INVARIANTS RspOnce RspAfterAll StageOrder EachUnitOnce Sane NoPanic
CONSTRAINT Mark
POSTCONDITION Accepted
CHECK_DEADLOCK FALSE
