------------------------------ MODULE CPCtrl ------------------------------
(***************************************************************************)
(* Control choreography of the command processor                           *)
(* (amd/timing/cp/ctrlMiddleware.go, cpMiddleware.go, commandprocessor.go).*)
(*                                                                         *)
(* The CP looks at the HEAD of its ToDriver port only and, per kind of     *)
(* request, runs a multi-stage exchange with the units behind it:          *)
(*   flush        caches(flush)                                  -> rsp    *)
(*   copy         DMA engine (only while no cache answer is owed) -> rsp    *)
(*   launch       a free dispatcher, MapWG to a CU, completion   -> rsp    *)
(*   drain        RDMA engine(drain)                             -> rsp    *)
(*   shoot        CUs(flush) -> ATs(discard) -> caches(flush,              *)
(*                invalidate+discard+pause) -> TLBs(flush)        -> rsp    *)
(*   mig          PMC                                            -> rsp    *)
(*   restart      caches(restart) -> TLBs(restart) -> ATs(restart)         *)
(*                -> CUs(restart)                                -> rsp    *)
(*   rdmarestart  RDMA engine(restart)                           -> rsp    *)
(* The stages are driven by five acknowledgement counters; numCacheACK is  *)
(* shared by flush, shoot and restart, numCUAck/numTLBAck by shoot and     *)
(* restart.  One action per handler (= per message handled); a handler's   *)
(* port operations (several Sends + one RetrieveIncoming) are one step.    *)
(* The environment is explicit: the driver (requests, takes responses),    *)
(* and the units, which receive the CP's messages in any order, answer     *)
(* after any delay and in any order (per unit and kind: oldest first).     *)
(* Messages carry a ghost `tag` = the driver request on whose behalf they  *)
(* were sent; the real messages carry nothing of the kind - the CP only    *)
(* counts.                                                                 *)
(***************************************************************************)
EXTENDS Integers, Sequences, FiniteSets, TLC

CONSTANTS MCCfg,       \* MC only: [ncu, nat, ntlb, ncache, ndisp] numbers of units behind the CP, dispatchers
          Gate,        \* FALSE: as implemented.  TRUE: the intended design - a request that uses the shared
                       \*        counters is not started while another one that uses them is in progress
          EnvGate,     \* MC only: TRUE = the environment never has a cache flush outstanding together with a
                       \*        shootdown or a GPU restart (the discipline under which the code as implemented is sound)
          CmdKinds,    \* MC only: kinds of the command stream (subset of {"flush","copy","launch"})
          MaxCmd,      \* MC only: bound on command-stream requests
          HSScript,    \* MC only: the handshake commands this GPU receives per migration, in order
          MaxHS        \* MC only: bound on migration handshakes

VARIABLE cfg           \* shape of the GPU of this run (constant during a run; a trace sets it in its Reset line)
NCU == cfg.ncu  NAT == cfg.nat  NTLB == cfg.ntlb  NCache == cfg.ncache  NDisp == cfg.ndisp

Ports == {"cu", "at", "cache", "tlb", "rdma", "pmc", "dma"}
Units(p) == CASE p = "cu" -> 1..NCU [] p = "at" -> 1..NAT [] p = "tlb" -> 1..NTLB [] p = "cache" -> 1..NCache
              [] OTHER -> {1}
Stages(k) == CASE k = "flush" -> <<"cache">> [] k = "copy" -> <<"dma">> [] k = "drain" -> <<"rdma">>
               [] k = "rdmarestart" -> <<"rdma">> [] k = "mig" -> <<"pmc">>
               [] k = "shoot" -> <<"cu", "at", "cache", "tlb">>
               [] k = "restart" -> <<"cache", "tlb", "at", "cu">>
               [] OTHER -> <<>>

VARIABLES
  drvIn, drvOut,      \* ToDriver port buffers: Seq(req) / Seq(rsp)
  out, inq,           \* [port -> Seq(msg)] outgoing / incoming buffers of the internal ports
  numCU, numATF, numATR, numTLB, numCache,   \* numCUAck, numAddrTranslationFlushAck, ...RestartAck, numTLBAck, numCacheACK
  shoot,              \* shootDownInProcess
  curShoot, curFlush, \* currShootdownRequest / currFlushRequest (NoReq = nil)
  kern,               \* [launch id -> "map" | "wait" | "rsp"]: kernels owned by a dispatcher
  dmaMap,             \* ids of copies forwarded to the DMA engine (bottomMemCopy*ReqIDToTopReqMap)
  \* ---- environment
  pend,               \* [port -> Seq(msg)] what the units have received and not answered (arrival order)
  hsPos, hsBusy, nHS, \* position in HSScript, a handshake command is outstanding, handshakes started
  \* ---- history / ghost
  reqs,               \* [id -> req] every request issued
  accepted,           \* Seq(id) in the order the CP took them from the port
  rsps,               \* Seq([k, id]) responses sent to the driver
  sentU, ackU,        \* [id -> [port -> set of units]] stage progress of request id
  dup,                \* set of <<id, port, unit>> addressed twice for one request
  curRestart          \* ghost: the restart request the later restart stages belong to

cpv  == <<drvIn, drvOut, out, inq, numCU, numATF, numATR, numTLB, numCache, shoot, curShoot, curFlush, kern, dmaMap>>
envv == <<pend, hsPos, hsBusy, nHS>>
hisv == <<reqs, accepted, rsps, sentU, ackU, dup, curRestart>>
vars == <<cpv, envv, hisv, cfg>>
fvars == <<cpv, envv, hisv>>   \* subscript of the fairness conditions (the actions leave cfg alone)

NoReq == [k |-> "none", id |-> 0, x |-> 0]
\* x: digest of the payload that must travel with the message (shootdown: pid and pages; page copy: addresses,
\* size, PMC port; memory copy: address and bytes), 0 where there is none
Msg(k, u, fl, tag, x) == [k |-> k, u |-> u, fl |-> fl, tag |-> tag, x |-> x]
RspKind(k) == CASE k = "cuflush" -> "cuflushrsp" [] k = "curestart" -> "curestartrsp" [] k = "map" -> "wgdone"
                [] k = "atdiscard" -> "atrsp" [] k = "atrestart" -> "atrsp"
                [] k = "flush" -> "flushrsp" [] k = "restart" -> "restartrsp"
                [] k = "tlbflush" -> "tlbflushrsp" [] k = "tlbrestart" -> "tlbrestartrsp"
                [] k = "drain" -> "drainrsp" [] k = "rdmarestart" -> "rdmarestartrsp"
                [] k = "mig" -> "migrsp" [] k = "copy" -> "copyrsp" [] OTHER -> "?"

Init ==
  /\ cfg = MCCfg
  /\ drvIn = <<>> /\ drvOut = <<>> /\ out = [p \in Ports |-> <<>>] /\ inq = [p \in Ports |-> <<>>]
  /\ numCU = 0 /\ numATF = 0 /\ numATR = 0 /\ numTLB = 0 /\ numCache = 0 /\ shoot = FALSE
  /\ curShoot = NoReq /\ curFlush = NoReq /\ kern = <<>> /\ dmaMap = {}
  /\ pend = [p \in Ports |-> <<>>] /\ hsPos = 0 /\ hsBusy = FALSE /\ nHS = 0
  /\ reqs = <<>> /\ accepted = <<>> /\ rsps = <<>> /\ sentU = <<>> /\ ackU = <<>> /\ dup = {} /\ curRestart = 0

\* ------------------------------------------------------------------ helpers
SetToSeq(S) == CHOOSE s \in [1..Cardinality(S) -> S] : \A i, j \in 1..Cardinality(S) : i < j => s[i] < s[j]
\* messages of kind k with flags fl to every unit of port p, on behalf of request tag
ToAll(p, k, fl, tag, x) == LET s == SetToSeq(Units(p)) IN [i \in 1..Len(s) |-> Msg(k, s[i], fl, tag, x)]
Head1(s) == Head(s)
Take ==   \* the request at the head of ToDriver is taken
  /\ drvIn' = Tail(drvIn) /\ accepted' = Append(accepted, Head(drvIn).id)
\* ghost bookkeeping of a batch of messages appended to port p for request tag
NoteSent(p, tag, units) ==
  /\ sentU' = IF tag \in DOMAIN sentU THEN [sentU EXCEPT ![tag][p] = @ \cup units] ELSE sentU
  /\ dup' = IF tag \in DOMAIN sentU THEN dup \cup {<<tag, p, u>> : u \in (units \cap sentU[tag][p])} ELSE dup
NoteAck(p, m) ==
  ackU' = IF m.tag \in DOMAIN ackU THEN [ackU EXCEPT ![m.tag][p] = @ \cup {m.u}] ELSE ackU
Rsp(k, id) == [k |-> k, id |-> id]
Respond(k, id) == /\ drvOut' = Append(drvOut, Rsp(k, id)) /\ rsps' = Append(rsps, Rsp(k, id))
Busy == numCache > 0 \/ shoot \/ numTLB > 0 \/ numATR > 0 \/ numATF > 0 \/ numCU > 0   \* shared counters in use

\* ================================================== requests from the driver
\* cpMiddleware.processFlushReq
StartFlush ==
  /\ drvIn # <<>> /\ Head(drvIn).k = "flush" /\ numCache = 0
  /\ Gate => ~Busy
  /\ LET r == Head(drvIn) IN
     /\ out' = [out EXCEPT !["cache"] = @ \o ToAll("cache", "flush", "none", r.id, 0)]
     /\ numCache' = NCache /\ curFlush' = r
     /\ NoteSent("cache", r.id, Units("cache"))
     /\ IF NCache = 0 THEN Respond("flush", r.id) ELSE UNCHANGED <<drvOut, rsps>>
  /\ Take
  /\ UNCHANGED <<inq, numCU, numATF, numATR, numTLB, shoot, curShoot, kern, dmaMap, envv, reqs, ackU, curRestart>>

\* cpMiddleware.processMemCopyReq
ForwardCopy ==
  /\ drvIn # <<>> /\ Head(drvIn).k = "copy" /\ numCache = 0
  /\ LET r == Head(drvIn) IN
     /\ out' = [out EXCEPT !["dma"] = Append(@, Msg("copy", 1, "none", r.id, r.x))]
     /\ dmaMap' = dmaMap \cup {r.id}
     /\ NoteSent("dma", r.id, {1})
  /\ Take
  /\ UNCHANGED <<drvOut, inq, numCU, numATF, numATR, numTLB, numCache, shoot, curShoot, curFlush, kern, envv,
                 reqs, rsps, ackU, curRestart>>

\* cpMiddleware.processLaunchKernelReq: only needs a free dispatcher
AcceptLaunch ==
  /\ drvIn # <<>> /\ Head(drvIn).k = "launch" /\ Cardinality(DOMAIN kern) < NDisp
  /\ kern' = kern @@ (Head(drvIn).id :> "map")
  /\ Take
  /\ UNCHANGED <<drvOut, out, inq, numCU, numATF, numATR, numTLB, numCache, shoot, curShoot, curFlush, dmaMap, envv,
                 reqs, rsps, sentU, ackU, dup, curRestart>>

\* ctrlMiddleware.processRDMADrainCmd / processRDMARestartCommand / processPageMigrationReq
StartSimple(k, p) ==
  /\ drvIn # <<>> /\ Head(drvIn).k = k
  /\ LET r == Head(drvIn) IN
     /\ out' = [out EXCEPT ![p] = Append(@, Msg(k, 1, "none", r.id, r.x))]
     /\ NoteSent(p, r.id, {1})
  /\ Take
  /\ UNCHANGED <<drvOut, inq, numCU, numATF, numATR, numTLB, numCache, shoot, curShoot, curFlush, kern, dmaMap, envv,
                 reqs, rsps, ackU, curRestart>>

\* ctrlMiddleware.processShootdownCommand
StartShoot ==
  /\ drvIn # <<>> /\ Head(drvIn).k = "shoot" /\ ~shoot
  /\ Gate => ~Busy
  /\ LET r == Head(drvIn) IN
     /\ curShoot' = r /\ shoot' = TRUE /\ numCU' = numCU + NCU
     /\ out' = [out EXCEPT !["cu"] = @ \o ToAll("cu", "cuflush", "none", r.id, 0)]
     /\ NoteSent("cu", r.id, Units("cu"))
  /\ Take
  /\ UNCHANGED <<drvOut, inq, numATF, numATR, numTLB, numCache, curFlush, kern, dmaMap, envv, reqs, rsps, ackU, curRestart>>

\* ctrlMiddleware.processGPURestartReq
StartRestart ==
  /\ drvIn # <<>> /\ Head(drvIn).k = "restart"
  /\ Gate => ~Busy
  /\ LET r == Head(drvIn) IN
     /\ out' = [out EXCEPT !["cache"] = @ \o ToAll("cache", "restart", "none", r.id, 0)]
     /\ numCache' = numCache + NCache /\ curRestart' = r.id
     /\ NoteSent("cache", r.id, Units("cache"))
  /\ Take
  /\ UNCHANGED <<drvOut, inq, numCU, numATF, numATR, numTLB, shoot, curShoot, curFlush, kern, dmaMap, envv, reqs, rsps, ackU>>

\* ==================================================== answers from the units
RecvRDMA ==
  /\ inq["rdma"] # <<>>
  /\ LET m == Head(inq["rdma"]) IN
     /\ Respond(IF m.k = "drainrsp" THEN "drain" ELSE "rdmarestart", m.tag) /\ NoteAck("rdma", m)
  /\ inq' = [inq EXCEPT !["rdma"] = Tail(@)]
  /\ UNCHANGED <<drvIn, out, numCU, numATF, numATR, numTLB, numCache, shoot, curShoot, curFlush, kern, dmaMap, envv,
                 reqs, accepted, sentU, dup, curRestart>>

RecvPMC ==
  /\ inq["pmc"] # <<>>
  /\ Respond("mig", Head(inq["pmc"]).tag) /\ NoteAck("pmc", Head(inq["pmc"]))
  /\ inq' = [inq EXCEPT !["pmc"] = Tail(@)]
  /\ UNCHANGED <<drvIn, out, numCU, numATF, numATR, numTLB, numCache, shoot, curShoot, curFlush, kern, dmaMap, envv,
                 reqs, accepted, sentU, dup, curRestart>>

\* cpMiddleware.processMemCopyRsp (unknown id: the code panics - no action)
RecvDMA ==
  /\ inq["dma"] # <<>> /\ Head(inq["dma"]).tag \in dmaMap
  /\ Respond("copy", Head(inq["dma"]).tag) /\ NoteAck("dma", Head(inq["dma"]))
  /\ dmaMap' = dmaMap \ {Head(inq["dma"]).tag}
  /\ inq' = [inq EXCEPT !["dma"] = Tail(@)]
  /\ UNCHANGED <<drvIn, out, numCU, numATF, numATR, numTLB, numCache, shoot, curShoot, curFlush, kern, envv,
                 reqs, accepted, sentU, dup, curRestart>>

\* ctrlMiddleware.processCUPipelineFlushRsp / processCUPipelineRestartRsp
RecvCU ==
  /\ inq["cu"] # <<>> /\ Head(inq["cu"]).k \in {"cuflushrsp", "curestartrsp"} /\ numCU > 0
  /\ LET m == Head(inq["cu"]) IN
     /\ numCU' = numCU - 1 /\ NoteAck("cu", m)
     /\ IF m.k = "cuflushrsp"
        THEN /\ IF numCU = 1
                THEN /\ out' = [out EXCEPT !["at"] = @ \o ToAll("at", "atdiscard", "none", curShoot.id, 0)]
                     /\ numATF' = numATF + NAT /\ NoteSent("at", curShoot.id, Units("at"))
                ELSE UNCHANGED <<out, numATF, sentU, dup>>
             /\ UNCHANGED <<drvOut, rsps>>
        ELSE /\ IF numCU = 1 THEN Respond("restart", curRestart) ELSE UNCHANGED <<drvOut, rsps>>
             /\ UNCHANGED <<out, numATF, sentU, dup>>
  /\ inq' = [inq EXCEPT !["cu"] = Tail(@)]
  /\ UNCHANGED <<drvIn, numATR, numTLB, numCache, shoot, curShoot, curFlush, kern, dmaMap, envv, reqs, accepted, curRestart>>

\* ctrlMiddleware.processRspFromATs: the answer is a flush answer while flush answers are owed,
\* else a restart answer while restart answers are owed (neither: the code panics - no action)
RecvAT ==
  /\ inq["at"] # <<>> /\ (numATF > 0 \/ numATR > 0)
  /\ LET m == Head(inq["at"]) IN
     /\ NoteAck("at", m)
     /\ IF numATF > 0
        THEN /\ numATF' = numATF - 1
             /\ IF numATF = 1     \* flushAndResetL1Cache / flushAndResetL2Cache
                THEN /\ out' = [out EXCEPT !["cache"] = @ \o ToAll("cache", "flush", "inv", curShoot.id, 0)]
                     /\ numCache' = numCache + NCache /\ NoteSent("cache", curShoot.id, Units("cache"))
                ELSE UNCHANGED <<out, numCache, sentU, dup>>
             /\ UNCHANGED <<numATR, numCU>>
        ELSE /\ numATR' = numATR - 1
             /\ IF numATR = 1
                THEN /\ out' = [out EXCEPT !["cu"] = @ \o ToAll("cu", "curestart", "none", curRestart, 0)]
                     /\ numCU' = numCU + NCU /\ NoteSent("cu", curRestart, Units("cu"))
                ELSE UNCHANGED <<out, numCU, sentU, dup>>
             /\ UNCHANGED <<numATF, numCache>>
  /\ inq' = [inq EXCEPT !["at"] = Tail(@)]
  /\ UNCHANGED <<drvIn, drvOut, numTLB, shoot, curShoot, curFlush, kern, dmaMap, envv, reqs, accepted, rsps, curRestart>>

\* ctrlMiddleware.processCacheFlushRsp / processCacheRestartRsp
RecvCache ==
  /\ inq["cache"] # <<>> /\ numCache > 0
  /\ LET m == Head(inq["cache"]) IN
     /\ numCache' = numCache - 1 /\ NoteAck("cache", m)
     /\ IF m.k = "flushrsp"
        THEN IF numCache = 1
             THEN IF shoot
                  THEN \* processCacheFlushCausedByTLBShootdown
                       /\ curFlush' = NoReq
                       /\ out' = [out EXCEPT !["tlb"] = @ \o ToAll("tlb", "tlbflush", "none", curShoot.id, curShoot.x)]
                       /\ numTLB' = numTLB + NTLB /\ NoteSent("tlb", curShoot.id, Units("tlb"))
                       /\ UNCHANGED <<drvOut, rsps>>
                  ELSE \* processRegularCacheFlush (currFlushRequest = nil: nil dereference - no action)
                       /\ curFlush # NoReq
                       /\ Respond("flush", curFlush.id) /\ curFlush' = NoReq
                       /\ UNCHANGED <<out, numTLB, sentU, dup>>
             ELSE UNCHANGED <<out, numTLB, curFlush, drvOut, rsps, sentU, dup>>
        ELSE /\ IF numCache = 1
                THEN /\ out' = [out EXCEPT !["tlb"] = @ \o ToAll("tlb", "tlbrestart", "none", curRestart, 0)]
                     /\ numTLB' = numTLB + NTLB /\ NoteSent("tlb", curRestart, Units("tlb"))
                ELSE UNCHANGED <<out, numTLB, sentU, dup>>
             /\ UNCHANGED <<curFlush, drvOut, rsps>>
  /\ inq' = [inq EXCEPT !["cache"] = Tail(@)]
  /\ UNCHANGED <<drvIn, numCU, numATF, numATR, shoot, curShoot, kern, dmaMap, envv, reqs, accepted, curRestart>>

\* ctrlMiddleware.processTLBFlushRsp / processTLBRestartRsp
RecvTLB ==
  /\ inq["tlb"] # <<>> /\ numTLB > 0
  /\ LET m == Head(inq["tlb"]) IN
     /\ numTLB' = numTLB - 1 /\ NoteAck("tlb", m)
     /\ IF m.k = "tlbflushrsp"
        THEN /\ IF numTLB = 1 THEN Respond("shoot", curShoot.id) /\ shoot' = FALSE
                             ELSE UNCHANGED <<drvOut, rsps, shoot>>
             /\ UNCHANGED <<out, numATR, sentU, dup>>
        ELSE /\ IF numTLB = 1
                THEN /\ out' = [out EXCEPT !["at"] = @ \o ToAll("at", "atrestart", "none", curRestart, 0)]
                     /\ numATR' = numATR + NAT /\ NoteSent("at", curRestart, Units("at"))
                ELSE UNCHANGED <<out, numATR, sentU, dup>>
             /\ UNCHANGED <<drvOut, rsps, shoot>>
  /\ inq' = [inq EXCEPT !["tlb"] = Tail(@)]
  /\ UNCHANGED <<drvIn, numCU, numATF, numCache, curShoot, curFlush, kern, dmaMap, envv, reqs, accepted, curRestart>>

\* ---------------------------------------------------------------- dispatcher (one work-group per kernel)
SendMap(id, u) ==
  /\ id \in DOMAIN kern /\ kern[id] = "map"
  /\ out' = [out EXCEPT !["cu"] = Append(@, Msg("map", u, "none", id, 0))]
  /\ kern' = [kern EXCEPT ![id] = "wait"]
  /\ UNCHANGED <<drvIn, drvOut, inq, numCU, numATF, numATR, numTLB, numCache, shoot, curShoot, curFlush, dmaMap, envv, hisv>>
RecvWGDone ==
  /\ inq["cu"] # <<>> /\ Head(inq["cu"]).k = "wgdone"
  /\ Head(inq["cu"]).tag \in DOMAIN kern /\ kern[Head(inq["cu"]).tag] = "wait"
  /\ kern' = [kern EXCEPT ![Head(inq["cu"]).tag] = "rsp"]
  /\ inq' = [inq EXCEPT !["cu"] = Tail(@)]
  /\ UNCHANGED <<drvIn, drvOut, out, numCU, numATF, numATR, numTLB, numCache, shoot, curShoot, curFlush, dmaMap, envv, hisv>>
LaunchRsp(id) ==
  /\ id \in DOMAIN kern /\ kern[id] = "rsp"
  /\ Respond("launch", id)
  /\ kern' = [i \in (DOMAIN kern) \ {id} |-> kern[i]]
  /\ UNCHANGED <<drvIn, out, inq, numCU, numATF, numATR, numTLB, numCache, shoot, curShoot, curFlush, dmaMap, envv,
                 reqs, accepted, sentU, ackU, dup, curRestart>>

CPNext ==
  \/ StartFlush \/ ForwardCopy \/ AcceptLaunch \/ StartShoot \/ StartRestart
  \/ StartSimple("drain", "rdma") \/ StartSimple("rdmarestart", "rdma") \/ StartSimple("mig", "pmc")
  \/ RecvRDMA \/ RecvPMC \/ RecvDMA \/ RecvCU \/ RecvAT \/ RecvCache \/ RecvTLB
  \/ RecvWGDone \/ \E id \in DOMAIN kern : LaunchRsp(id) \/ \E u \in Units("cu") : SendMap(id, u)

\* =============================================================== environment
StageRec == [p \in Ports |-> {}]
EnvReq(r) ==
  /\ r.id \notin DOMAIN reqs
  /\ drvIn' = Append(drvIn, r) /\ reqs' = reqs @@ (r.id :> r)
  /\ sentU' = sentU @@ (r.id :> StageRec) /\ ackU' = ackU @@ (r.id :> StageRec)
  /\ UNCHANGED <<drvOut, out, inq, numCU, numATF, numATR, numTLB, numCache, shoot, curShoot, curFlush, kern, dmaMap,
                 pend, accepted, rsps, dup, curRestart>>

IsHS(k) == k \in {"drain", "shoot", "mig", "restart", "rdmarestart"}
EnvTakeRsp ==
  /\ drvOut # <<>> /\ drvOut' = Tail(drvOut)
  /\ hsBusy' = IF IsHS(Head(drvOut).k) THEN FALSE ELSE hsBusy
  /\ UNCHANGED <<drvIn, out, inq, numCU, numATF, numATR, numTLB, numCache, shoot, curShoot, curFlush, kern, dmaMap,
                 pend, hsPos, nHS, hisv>>

\* a unit picks up any message addressed to it
UnitTake(p, i) ==
  /\ i \in 1..Len(out[p])
  /\ pend' = [pend EXCEPT ![p] = Append(@, out[p][i])]
  /\ out' = [out EXCEPT ![p] = SubSeq(@, 1, i - 1) \o SubSeq(@, i + 1, Len(@))]
  /\ UNCHANGED <<drvIn, drvOut, inq, numCU, numATF, numATR, numTLB, numCache, shoot, curShoot, curFlush, kern, dmaMap,
                 hsPos, hsBusy, nHS, hisv>>
\* ... and answers it (per unit and kind the oldest first)
Oldest(p, i) == \A j \in 1..(i - 1) : ~(pend[p][j].u = pend[p][i].u /\ pend[p][j].k = pend[p][i].k)
UnitRsp(p, i) ==
  /\ i \in 1..Len(pend[p]) /\ Oldest(p, i)
  /\ inq' = [inq EXCEPT ![p] = Append(@, Msg(RspKind(pend[p][i].k), pend[p][i].u, "none", pend[p][i].tag, 0))]
  /\ pend' = [pend EXCEPT ![p] = SubSeq(@, 1, i - 1) \o SubSeq(@, i + 1, Len(@))]
  /\ UNCHANGED <<drvIn, drvOut, out, numCU, numATF, numATR, numTLB, numCache, shoot, curShoot, curFlush, kern, dmaMap,
                 hsPos, hsBusy, nHS, hisv>>

\* ------------------------------------------------------------------ MC next
NextId == Cardinality(DOMAIN reqs) + 1
NumHS == IF nHS = 0 THEN 0 ELSE (nHS - 1) * Len(HSScript) + (IF hsPos = 0 THEN Len(HSScript) ELSE hsPos)
NumCmd == Cardinality(DOMAIN reqs) - NumHS    \* requests of the command stream (any kind in CmdKinds)
OpenKinds == {reqs[i].k : i \in {j \in DOMAIN reqs : \A n \in 1..Len(rsps) : rsps[n].id # j}}
Conflicts(k) == \/ (k = "flush" /\ OpenKinds \cap {"shoot", "restart"} # {})
                \/ (k \in {"shoot", "restart"} /\ "flush" \in OpenKinds)
MCEnv ==
  \/ /\ NumCmd < MaxCmd /\ \E k \in CmdKinds : (EnvGate => ~Conflicts(k))
                                              /\ EnvReq([k |-> k, id |-> NextId, x |-> IF k = "copy" THEN NextId ELSE 0])
     /\ UNCHANGED <<hsPos, hsBusy, nHS>>
  \/ \* the driver's migration handshake: one command at a time, in protocol order
     /\ ~hsBusy /\ HSScript # <<>>
     /\ EnvGate => ~Conflicts(HSScript[hsPos + 1])
     /\ IF hsPos = 0 THEN nHS < MaxHS /\ nHS' = nHS + 1 ELSE UNCHANGED nHS
     /\ EnvReq([k |-> HSScript[hsPos + 1], id |-> NextId, x |-> IF HSScript[hsPos + 1] \in {"shoot", "mig"} THEN NextId ELSE 0])
     /\ hsPos' = (hsPos + 1) % Len(HSScript) /\ hsBusy' = TRUE

EnvServe ==
  \/ EnvTakeRsp
  \/ \E p \in Ports : \/ \E i \in 1..Len(out[p]) : UnitTake(p, i)
                      \/ \E i \in 1..Len(pend[p]) : UnitRsp(p, i)

Next == (CPNext \/ EnvServe \/ MCEnv) /\ UNCHANGED cfg
Spec == Init /\ [][Next]_vars
FairSpec == Spec /\ WF_fvars(CPNext) /\ WF_fvars(EnvServe)
\* (CPNext and EnvServe as wholes: the CP's tick runs every handler, the units eventually serve everything)
FairSpec2 == Spec
  /\ WF_fvars(StartFlush) /\ WF_fvars(ForwardCopy) /\ WF_fvars(AcceptLaunch) /\ WF_fvars(StartShoot) /\ WF_fvars(StartRestart)
  /\ WF_fvars(StartSimple("drain", "rdma")) /\ WF_fvars(StartSimple("rdmarestart", "rdma")) /\ WF_fvars(StartSimple("mig", "pmc"))
  /\ WF_fvars(RecvRDMA) /\ WF_fvars(RecvPMC) /\ WF_fvars(RecvDMA) /\ WF_fvars(RecvCU) /\ WF_fvars(RecvAT)
  /\ WF_fvars(RecvCache) /\ WF_fvars(RecvTLB) /\ WF_fvars(RecvWGDone)
  /\ WF_fvars(\E id \in DOMAIN kern : LaunchRsp(id) \/ \E u \in Units("cu") : SendMap(id, u))
  /\ WF_fvars(EnvTakeRsp)
  /\ \A p \in Ports : WF_fvars(\E i \in 1..Len(out[p]) : UnitTake(p, i)) /\ WF_fvars(\E i \in 1..Len(pend[p]) : UnitRsp(p, i))

\* -------------------------------------------------------------- properties
RspsOf(id) == {i \in 1..Len(rsps) : rsps[i].id = id}
Complete(id, p) == ackU[id][p] = Units(p)

\* the driver is answered at most once per request, with the kind of the request, only for a request it issued
RspOnce == \A i \in 1..Len(rsps) :
             /\ rsps[i].id \in DOMAIN reqs /\ reqs[rsps[i].id].k = rsps[i].k
             /\ \A j \in 1..Len(rsps) : i # j => rsps[i].id # rsps[j].id
\* ... and only after every unit of every stage acknowledged a message sent for THIS request
RspAfterAll == \A i \in 1..Len(rsps) :
                 LET id == rsps[i].id IN id \in DOMAIN reqs =>
                   \A s \in 1..Len(Stages(reqs[id].k)) : Complete(id, Stages(reqs[id].k)[s])
\* a stage is started only after the previous stage is complete (CUs before ATs before caches before TLBs; restart in reverse)
StageOrder == \A id \in DOMAIN reqs :
                \A s \in 2..Len(Stages(reqs[id].k)) :
                  sentU[id][Stages(reqs[id].k)[s]] # {} => Complete(id, Stages(reqs[id].k)[s - 1])
\* every unit is addressed at most once per request and stage, and only units of the request's stages
EachUnitOnce == dup = {} /\ \A id \in DOMAIN reqs : \A p \in Ports :
                  sentU[id][p] # {} => \E s \in 1..Len(Stages(reqs[id].k)) : Stages(reqs[id].k)[s] = p
\* a copy is handed to the DMA engine only while no cache answer is owed (checked where it is forwarded, see NoCopyDuringFlush')
\* one shootdown at a time; counters never go negative; the flush being served is known while its answers are owed
Sane == /\ numCU >= 0 /\ numATF >= 0 /\ numATR >= 0 /\ numTLB >= 0 /\ numCache >= 0
        /\ Cardinality(DOMAIN kern) <= NDisp
\* requests are taken in arrival order (head of the port)
InOrder == \A i \in 1..Len(accepted) : accepted[i] = i

Idle == /\ drvIn = <<>> /\ drvOut = <<>> /\ \A p \in Ports : out[p] = <<>> /\ inq[p] = <<>> /\ pend[p] = <<>>
        /\ kern = <<>>
\* nothing is lost: when everything has drained every request was answered and the CP is back to rest
AllServed == Idle => /\ \A id \in DOMAIN reqs : RspsOf(id) # {}
                     /\ numCU = 0 /\ numATF = 0 /\ numATR = 0 /\ numTLB = 0 /\ numCache = 0 /\ ~shoot /\ dmaMap = {}
\* no step may be left to the CP only through a panic of the code (an answer nobody owes)
Stuck == \/ (inq["at"] # <<>> /\ numATF = 0 /\ numATR = 0)
         \/ (inq["cache"] # <<>> /\ Head(inq["cache"]).k = "flushrsp" /\ numCache = 1 /\ ~shoot /\ curFlush = NoReq)
         \/ (inq["cache"] # <<>> /\ numCache = 0) \/ (inq["tlb"] # <<>> /\ numTLB = 0)
         \/ (inq["cu"] # <<>> /\ Head(inq["cu"]).k # "wgdone" /\ numCU = 0)
NoPanic == ~Stuck

Progress == \A id \in 1..(MaxCmd + MaxHS * Len(HSScript)) : (id \in DOMAIN reqs) ~> (RspsOf(id) # {})
=============================================================================
