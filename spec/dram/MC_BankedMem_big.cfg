SPECIFICATION Spec
CONSTANTS
  Config <- DesignT2
  PortCap = 2
  PostCap = 2
  Payloads <- MCPayloads
  MaxReq = 3
INVARIANTS TypeOK OneRspEach ReadSeesLatestEarlierWrite SameAddrInArrivalOrder MaskedWriteTouchesOnlyEnabled AllAnswered
PROPERTIES FlatSpec
CHECK_DEADLOCK FALSE
