SPECIFICATION Spec
CONSTANTS
  NB = 2
  IL = 2
  RowSz = 2
  Width = 2
  Track = TRUE
  Deviations <- NoDev
  PortCap = 2
  PostCap = 2
  Payloads <- MCPayloads
  MaxReq = 3
INVARIANTS TypeOK OneRspEach ReadSeesLatestEarlierWrite SameAddrInArrivalOrder MaskedWriteTouchesOnlyEnabled AllAnswered
PROPERTIES FlatSpec
CHECK_DEADLOCK FALSE
