SPECIFICATION TSpec
CONSTANTS
  NonStop = FALSE
INVARIANTS InvOneRspEach InvReadValue
CONSTRAINT Mark
POSTCONDITION Accepted
CHECK_DEADLOCK FALSE
