SPECIFICATION SSpec
CONSTANTS
  Config <- ImplT1
  PortCap = 3
  PostCap = 1
  Payloads <- MCPayloads
  MaxReq = 6
INVARIANTS TypeOK OneRspEach
CHECK_DEADLOCK FALSE
