----------------------------- MODULE BankedMem -----------------------------
(***************************************************************************)
(* The banked DRAM model amd/timing/mem/simplebankedmemory (comp.go),      *)
(* shaped like the code, refining FlatMem.                                 *)
(*                                                                         *)
(* One action per sub-step of middleware.Tick and per message:             *)
(*   Drain       drainTopPort: Top.incoming -> pendingReqs                 *)
(*   Dispatch    dispatchPending: one pending request -> its bank, either  *)
(*               directly into the bank pipeline (row hit / no row         *)
(*               tracking) or into the bank's delay queue (row miss)       *)
(*   Expire      tickDelayQueues: head of a delay queue -> pipeline        *)
(*   Exit        pipeline.Tick: an item leaves the pipeline for the        *)
(*               post-pipeline buffer                                      *)
(*   Commit      finalizeRead/finalizeWrite, first half: the functional    *)
(*               effect on Comp.Storage (item.committed)                   *)
(*   SendRsp     second half: the response is sent on Top                  *)
(* plus the environment (EnvReq, EnvTake).  Time is abstracted: row-miss   *)
(* delay, stage latency, pipeline depth, buffer capacities and the order   *)
(* of sub-steps within a tick are environment nondeterminism ("may         *)
(* influence latency only"), so any tick of the implementation is one      *)
(* interleaving of these actions.                                          *)
(*                                                                         *)
(* Deviations (DESIGN.md 2.2): what the pinned code does beyond the        *)
(* intended design; with dev = {} every invariant holds.            *)
(*   "RowHitBypassesDelayQueue"  a row hit enters the pipeline although    *)
(*        earlier requests of the same bank still wait in the delay queue  *)
(*   "PassesBlockedHit"          a row miss of the same bank is dispatched *)
(*        past an older row hit that is blocked in pendingReqs             *)
(*   "LaneOvertake"              a pipeline wider than 1 lets an item of   *)
(*        one lane leave before an older item of another lane              *)
(***************************************************************************)
EXTENDS MemOps

CONSTANTS Config,     \* configuration of the model-checked instance (MC only; a trace brings its own)
          PortCap,    \* capacity of Top.incoming and Top.outgoing
          PostCap,    \* capacity of a post-pipeline buffer
          Payloads,   \* requests the environment may issue (MC only)
          MaxReq      \* bound on the number of requests (MC only)

\* The configuration is part of the state (it never changes during a run), so that one TLC run can
\* validate recorded runs of many configurations:
\*   cfg = [nb     |-> number of banks,
\*          il     |-> interleave size in bytes,
\*          rowsz  |-> row-buffer size in bank-local bytes,
\*          width  |-> lanes of a bank pipeline,
\*          track  |-> BOOLEAN, row-buffer tracking on (rowBufferSizeLog2 > 0 /\ rowMissDelay > 0),
\*          dev    |-> subset of the three deviation names above]
VARIABLES
  cfg,
  topIn,    \* Seq of ids       Top.incoming
  pending,  \* Seq of ids       middleware.pendingReqs
  delayQ,   \* [bank -> Seq of ids]            bank.delayQueue
  pipe,     \* [bank -> Seq of [id, lane]]     bank.pipeline, in accept order
  post,     \* [bank -> Seq of ids]            bank.postPipelineBuf
  lastRow,  \* [bank -> row | -1]              bank.lastRowAddr / rowValid
  done,     \* set of ids whose functional effect happened (item.committed)
  rdata,    \* [id -> data] read data latched at commit (item.readData)
  storage,  \* Comp.Storage
  topOut,   \* Seq of [to, k, d]  Top.outgoing
  \* history
  reqs,     \* Seq of payloads in arrival order (request id = index)
  loc,      \* Seq of [b, r]: bank and row of request i
  rsps,     \* Seq of [to, k, d] in send order
  wasHit    \* pending ids that were a row hit at some moment while pending (dispatchPending may have
            \* found them blocked by a full pipeline and kept them)

vars == <<cfg, topIn, pending, delayQ, pipe, post, lastRow, done, rdata, storage, topOut, reqs, loc, rsps, wasHit>>

Banks == 0..(cfg.nb - 1)

\* interleavedBankSelector.Select and the bank-local row computation of dispatchPending
BankOf(a) == (a \div cfg.il) % cfg.nb
LocalOf(a) == ((a \div cfg.il) \div cfg.nb) * cfg.il + (a % cfg.il)
RowOf(a) == LocalOf(a) \div cfg.rowsz
\* assumption on the environment: a request does not cross an interleave block
InBlock(p, ba) == (ba % cfg.il) + p.n <= cfg.il

RemoveAt(s, i) == [j \in 1..(Len(s) - 1) |-> IF j < i THEN s[j] ELSE s[j + 1]]

Init ==
  /\ cfg = Config
  /\ topIn = <<>> /\ pending = <<>>
  /\ delayQ = [b \in Banks |-> <<>>] /\ pipe = [b \in Banks |-> <<>>] /\ post = [b \in Banks |-> <<>>]
  /\ lastRow = [b \in Banks |-> -1]
  /\ done = {} /\ rdata = <<>> /\ storage = <<>> /\ topOut = <<>>
  /\ reqs = <<>> /\ loc = <<>> /\ rsps = <<>> /\ wasHit = {}

\* -------------------------------------------------------------- environment
EnvReq(p, ba) ==
  /\ WellFormed(p) /\ InBlock(p, ba)
  /\ Len(topIn) < PortCap
  /\ reqs' = Append(reqs, p)
  /\ loc' = Append(loc, [b |-> BankOf(ba), r |-> RowOf(ba)])
  /\ topIn' = Append(topIn, Len(reqs) + 1)
  /\ UNCHANGED <<pending, delayQ, pipe, post, lastRow, done, rdata, storage, topOut, rsps, wasHit, cfg>>

EnvTake ==
  /\ topOut # <<>> /\ topOut' = Tail(topOut)
  /\ UNCHANGED <<topIn, pending, delayQ, pipe, post, lastRow, done, rdata, storage, reqs, loc, rsps, wasHit, cfg>>

\* ---------------------------------------------------------------- component
Hit(id) == cfg.track /\ lastRow[loc[id].b] = loc[id].r

Drain ==
  /\ topIn # <<>>
  /\ pending' = Append(pending, Head(topIn)) /\ topIn' = Tail(topIn)
  /\ wasHit' = IF Hit(Head(topIn)) THEN wasHit \cup {Head(topIn)} ELSE wasHit
  /\ UNCHANGED <<delayQ, pipe, post, lastRow, done, rdata, storage, topOut, reqs, loc, rsps, cfg>>

\* May pending[i] be dispatched although pending[j] (j < i) is still there?
\* Design: only if they go to different banks.  As implemented, a blocked
\* row hit (pipeline full) is skipped and a later miss of the same bank goes
\* to the delay queue.
MayPass(i, j) ==
  \/ loc[pending[j]].b # loc[pending[i]].b
  \/ /\ "PassesBlockedHit" \in cfg.dev
     /\ cfg.track /\ pending[j] \in wasHit /\ ~Hit(pending[i])

Dispatch(i, lane) ==
  /\ i \in 1..Len(pending)
  /\ \A j \in 1..(i - 1) : MayPass(i, j)
  /\ LET id == pending[i]
         b  == loc[id].b IN
     /\ \/ \* straight into the pipeline: no row tracking, or a row hit with nothing older waiting
           /\ \/ ~cfg.track
              \/ Hit(id) /\ (delayQ[b] = <<>> \/ "RowHitBypassesDelayQueue" \in cfg.dev)
           /\ pipe' = [pipe EXCEPT ![b] = Append(@, [id |-> id, lane |-> lane])]
           /\ UNCHANGED delayQ
        \/ \* into the delay queue: a row miss, or a row hit behind queued requests
           /\ cfg.track /\ (~Hit(id) \/ delayQ[b] # <<>>)
           /\ lane = 1
           /\ delayQ' = [delayQ EXCEPT ![b] = Append(@, id)]
           /\ UNCHANGED pipe
     /\ lastRow' = IF cfg.track THEN [lastRow EXCEPT ![b] = loc[id].r] ELSE lastRow
  /\ pending' = RemoveAt(pending, i)
  /\ wasHit' = (wasHit \ {pending[i]}) \cup
               {pending[j] : j \in {j \in 1..Len(pending) : j # i /\ cfg.track
                                                           /\ loc[pending[j]].b = loc[pending[i]].b
                                                           /\ loc[pending[j]].r = loc[pending[i]].r}}
  /\ UNCHANGED <<topIn, post, done, rdata, storage, topOut, reqs, loc, rsps, cfg>>

Expire(b, lane) ==
  /\ delayQ[b] # <<>>
  /\ pipe' = [pipe EXCEPT ![b] = Append(@, [id |-> Head(delayQ[b]), lane |-> lane])]
  /\ delayQ' = [delayQ EXCEPT ![b] = Tail(@)]
  /\ UNCHANGED <<topIn, pending, post, lastRow, done, rdata, storage, topOut, reqs, loc, rsps, wasHit, cfg>>

Exit(b, k) ==
  /\ k \in 1..Len(pipe[b])
  /\ \A j \in 1..(k - 1) : pipe[b][j].lane # pipe[b][k].lane     \* a lane is a FIFO
  /\ k = 1 \/ "LaneOvertake" \in cfg.dev
  /\ Len(post[b]) < PostCap
  /\ post' = [post EXCEPT ![b] = Append(@, pipe[b][k].id)]
  /\ pipe' = [pipe EXCEPT ![b] = RemoveAt(@, k)]
  /\ UNCHANGED <<topIn, pending, delayQ, lastRow, done, rdata, storage, topOut, reqs, loc, rsps, wasHit, cfg>>

Commit(b) ==
  /\ post[b] # <<>>
  /\ LET id == Head(post[b])
         p  == reqs[id] IN
     /\ id \notin done
     /\ done' = done \cup {id}
     /\ IF p.k = "r"
        THEN rdata' = rdata @@ (id :> ReadOf(storage, p)) /\ UNCHANGED storage
        ELSE storage' = ApplyWrite(storage, p) /\ UNCHANGED rdata
  /\ UNCHANGED <<topIn, pending, delayQ, pipe, post, lastRow, topOut, reqs, loc, rsps, wasHit, cfg>>

\* Exit immediately followed by Commit, as one step.  Commits of one bank happen in the order of its post-pipeline
\* buffer and commits of different banks touch disjoint bytes, so committing at the moment of the exit loses no
\* behaviour as far as responses and the final store are concerned; trace validation uses it to cut the search.
ExitAndCommit(b, k) ==
  /\ k \in 1..Len(pipe[b])
  /\ \A j \in 1..(k - 1) : pipe[b][j].lane # pipe[b][k].lane
  /\ k = 1 \/ "LaneOvertake" \in cfg.dev
  /\ Len(post[b]) < PostCap
  /\ \A j \in 1..Len(post[b]) : post[b][j] \in done
  /\ LET id == pipe[b][k].id
         p  == reqs[id] IN
     /\ post' = [post EXCEPT ![b] = Append(@, id)]
     /\ done' = done \cup {id}
     /\ IF p.k = "r"
        THEN rdata' = rdata @@ (id :> ReadOf(storage, p)) /\ UNCHANGED storage
        ELSE storage' = ApplyWrite(storage, p) /\ UNCHANGED rdata
  /\ pipe' = [pipe EXCEPT ![b] = RemoveAt(@, k)]
  /\ UNCHANGED <<topIn, pending, delayQ, lastRow, topOut, reqs, loc, rsps, wasHit, cfg>>

SendRsp(b) ==
  /\ post[b] # <<>> /\ Head(post[b]) \in done
  /\ Len(topOut) < PortCap
  /\ LET id == Head(post[b])
         r  == [to |-> id, k |-> reqs[id].k, d |-> IF reqs[id].k = "r" THEN rdata[id] ELSE <<>>] IN
     /\ topOut' = Append(topOut, r)
     /\ rsps' = Append(rsps, r)
  /\ post' = [post EXCEPT ![b] = Tail(@)]
  /\ UNCHANGED <<topIn, pending, delayQ, pipe, lastRow, done, rdata, storage, reqs, loc, wasHit, cfg>>

Lanes == 1..cfg.width

CompNext ==
  \/ Drain
  \/ \E i \in 1..Len(pending), lane \in Lanes : Dispatch(i, lane)
  \/ \E b \in Banks : \/ \E lane \in Lanes : Expire(b, lane)
                      \/ \E k \in 1..Len(pipe[b]) : Exit(b, k)
                      \/ Commit(b) \/ SendRsp(b)

EnvNext ==
  \/ (Len(reqs) < MaxReq /\ \E p \in Payloads : EnvReq(p, p.a))
  \/ EnvTake

Next == CompNext \/ EnvNext

Fairness ==
  /\ WF_vars(Drain) /\ WF_vars(EnvTake)
  /\ WF_vars(\E i \in 1..Len(pending), lane \in Lanes : Dispatch(i, lane))
  /\ \A b \in 0..(Config.nb - 1) :
                      /\ WF_vars(\E lane \in Lanes : Expire(b, lane))
                      /\ WF_vars(\E k \in 1..Len(pipe[b]) : Exit(b, k))
                      /\ WF_vars(Commit(b)) /\ WF_vars(SendRsp(b))

Spec == Init /\ [][Next]_vars
FairSpec == Spec /\ Fairness

\* ------------------------------------------------------------ the flat view
RECURSIVE FlatUpTo(_)
FlatUpTo(i) == IF i = 0 THEN <<>>
               ELSE IF reqs[i].k = "w" THEN ApplyWrite(FlatUpTo(i - 1), reqs[i])
               ELSE Touch(FlatUpTo(i - 1), reqs[i])
ExpOf(i) == IF reqs[i].k = "r" THEN ReadOf(FlatUpTo(i - 1), reqs[i]) ELSE <<>>
Answered == {rsps[j].to : j \in 1..Len(rsps)}

F == INSTANCE FlatMem WITH
       freqs <- reqs,
       fmem  <- FlatUpTo(Len(reqs)),
       fexp  <- [i \in 1..Len(reqs) |-> ExpOf(i)],
       fout  <- (1..Len(reqs)) \ Answered,
       frsp  <- rsps

\* BankedMem implements FlatMem (checked as a TLC PROPERTY)
FlatSpec == F!FInit /\ [][F!FStep(Payloads)]_(F!fvars)

\* -------------------------------------------------------------- invariants
Overlap(i, j) == BytesOf(reqs[i]) \cap BytesOf(reqs[j]) # {}

\* exactly one response each (the "at least one" half is AllAnswered / Progress)
OneRspEach ==
  /\ \A i, j \in 1..Len(rsps) : i # j => rsps[i].to # rsps[j].to
  /\ \A i \in 1..Len(rsps) : rsps[i].to \in 1..Len(reqs) /\ rsps[i].k = reqs[rsps[i].to].k

\* a read returns, per byte, the most recent earlier-arrived write (0 if none)
ReadSeesLatestEarlierWrite ==
  /\ \A i \in 1..Len(rsps) : rsps[i].k = "r" => rsps[i].d = ExpOf(rsps[i].to)
  /\ \A id \in DOMAIN rdata : rdata[id] = ExpOf(id)

\* requests to the same address take effect in arrival order (the order of two reads has no effect to speak of)
Conflict(i, j) == Overlap(i, j) /\ (reqs[i].k = "w" \/ reqs[j].k = "w")
SameAddrInArrivalOrder ==
  \A i, j \in 1..Len(reqs) : (i < j /\ Conflict(i, j) /\ j \in done) => i \in done

\* the store is the flat memory of the committed writes: masked writes modify only their enabled bytes
RECURSIVE FlatDone(_)
FlatDone(i) == IF i = 0 THEN <<>>
               ELSE IF reqs[i].k = "w" /\ i \in done THEN ApplyWrite(FlatDone(i - 1), reqs[i])
               ELSE FlatDone(i - 1)
MaskedWriteTouchesOnlyEnabled ==
  LET f == FlatDone(Len(reqs)) IN
  \A x \in (DOMAIN f) \cup (DOMAIN storage) : Get(storage, x) = Get(f, x)

Quiescent ==
  /\ topIn = <<>> /\ pending = <<>> /\ topOut = <<>>
  /\ \A b \in Banks : delayQ[b] = <<>> /\ pipe[b] = <<>> /\ post[b] = <<>>

\* nothing left to do => everything answered and the store is the flat memory
AllAnswered ==
  Quiescent => /\ Answered = 1..Len(reqs)
               /\ LET f == FlatUpTo(Len(reqs)) IN
                  \A x \in (DOMAIN f) \cup (DOMAIN storage) : Get(storage, x) = Get(f, x)

\* every request is eventually answered (under fairness)
Progress == \A i \in 1..MaxReq : [](Len(reqs) >= i => <>(i \in Answered))

InFlight == {topIn[i] : i \in 1..Len(topIn)} \cup {pending[i] : i \in 1..Len(pending)}
            \cup UNION {{delayQ[b][i] : i \in 1..Len(delayQ[b])} : b \in Banks}
            \cup UNION {{pipe[b][i].id : i \in 1..Len(pipe[b])} : b \in Banks}
            \cup UNION {{post[b][i] : i \in 1..Len(post[b])} : b \in Banks}

TypeOK ==
  /\ Len(topIn) <= PortCap /\ Len(topOut) <= PortCap
  /\ \A b \in Banks : Len(post[b]) <= PostCap
  /\ Len(loc) = Len(reqs)
  /\ InFlight \cup Answered = 1..Len(reqs)        \* no request is lost or invented
  /\ InFlight \cap Answered = {}
=============================================================================
