---------------------------- MODULE MC_BankedMem ----------------------------
(* Model-checking instances of BankedMem: 2 banks, 2-byte interleave, 2-byte  *)
(* rows (addresses 0..7: bank 0 = {0,1 | 4,5}, bank 1 = {2,3 | 6,7}, the bar   *)
(* separating the two rows of a bank).                                         *)
EXTENDS BankedMem

W1 == [k |-> "w", a |-> 0, n |-> 2, d |-> <<1, 2>>, m |-> <<1, 1>>]   \* full write
W2 == [k |-> "w", a |-> 0, n |-> 2, d |-> <<3, 4>>, m |-> <<0, 1>>]   \* masked write, same address
R1 == [k |-> "r", a |-> 0, n |-> 2, d |-> <<>>, m |-> <<>>]           \* read, same address
R2 == [k |-> "r", a |-> 1, n |-> 1, d |-> <<>>, m |-> <<>>]           \* read overlapping one byte
X  == [k |-> "w", a |-> 4, n |-> 1, d |-> <<5>>, m |-> <<1>>]         \* same bank, other row
Y  == [k |-> "r", a |-> 4, n |-> 2, d |-> <<>>, m |-> <<>>]           \* same bank, other row
Z  == [k |-> "w", a |-> 2, n |-> 2, d |-> <<6, 7>>, m |-> <<1, 0>>]   \* other bank

MCPayloads == {W1, W2, R1, R2, X, Y, Z}
MCSmall == {W1, W2, R1, X}
AsImplemented == {"RowHitBypassesDelayQueue", "PassesBlockedHit", "LaneOvertake"}
Cfg(width, track, dev) == [nb |-> 2, il |-> 2, rowsz |-> 2, width |-> width, track |-> track, dev |-> dev]
\* the intended design
DesignT1 == Cfg(1, TRUE, {})          \* row tracking, one lane
DesignT2 == Cfg(2, TRUE, {})          \* row tracking, two lanes
DesignN2 == Cfg(2, FALSE, {})         \* no row tracking, two lanes
\* one deviation at a time (TLC must find the counterexample)
BypassT1 == Cfg(1, TRUE, {"RowHitBypassesDelayQueue"})
PassT1   == Cfg(1, TRUE, {"PassesBlockedHit"})
LaneN2   == Cfg(2, FALSE, {"LaneOvertake"})
\* the pinned code
ImplT1 == Cfg(1, TRUE, AsImplemented)
ImplN2 == Cfg(2, FALSE, AsImplemented)
=============================================================================
