---------------------------- MODULE MC_BankedMem ----------------------------
(* Model-checking instances of BankedMem: 2 banks, 2-byte interleave, 2-byte  *)
(* rows (addresses 0..7: bank 0 = {0,1 | 4,5}, bank 1 = {2,3 | 6,7}, the bar   *)
(* separating the two rows of a bank).                                         *)
EXTENDS BankedMem

W1 == [k |-> "w", a |-> 0, n |-> 2, d |-> <<1, 2>>, m |-> <<1, 1>>]   \* full write
W2 == [k |-> "w", a |-> 0, n |-> 2, d |-> <<3, 4>>, m |-> <<0, 1>>]   \* masked write, same address
R1 == [k |-> "r", a |-> 0, n |-> 2, d |-> <<>>, m |-> <<>>]           \* read, same address
R2 == [k |-> "r", a |-> 1, n |-> 1, d |-> <<>>, m |-> <<>>]           \* read overlapping one byte
X  == [k |-> "w", a |-> 4, n |-> 1, d |-> <<5>>, m |-> <<1>>]         \* same bank, other row
Y  == [k |-> "r", a |-> 4, n |-> 2, d |-> <<>>, m |-> <<>>]           \* same bank, other row
Z  == [k |-> "w", a |-> 2, n |-> 2, d |-> <<6, 7>>, m |-> <<1, 0>>]   \* other bank

MCPayloads == {W1, W2, R1, R2, X, Y, Z}
MCSmall == {W1, W2, R1, X}
NoDev == {}
AsImplemented == {"RowHitBypassesDelayQueue", "PassesBlockedHit", "LaneOvertake"}
DevBypass == {"RowHitBypassesDelayQueue"}
DevPass == {"PassesBlockedHit"}
DevLane == {"LaneOvertake"}
=============================================================================
