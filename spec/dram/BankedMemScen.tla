---------------------------- MODULE BankedMemScen ----------------------------
(* BankedMem with a history variable naming the step taken.  `tlc -simulate`  *)
(* behaviours (and the counterexamples of the deviation configurations)       *)
(* become environment scenarios for the real component: EnvReq steps are the   *)
(* requests, every component step lets one cycle pass, EnvTake steps are the   *)
(* cycles at which the environment takes a response.                           *)
EXTENDS MC_BankedMem
VARIABLE act

SInit == Init /\ act = [a |-> "Init"]
SNext ==
  \/ Drain /\ act' = [a |-> "Comp", e |-> "Drain"]
  \/ \E i \in 1..Len(pending), lane \in Lanes : Dispatch(i, lane) /\ act' = [a |-> "Comp", e |-> "Dispatch"]
  \/ \E b \in Banks : \/ \E lane \in Lanes : Expire(b, lane) /\ act' = [a |-> "Comp", e |-> "Expire"]
                      \/ \E k \in 1..Len(pipe[b]) : Exit(b, k) /\ act' = [a |-> "Comp", e |-> "Exit"]
                      \/ Commit(b) /\ act' = [a |-> "Comp", e |-> "Commit"]
                      \/ SendRsp(b) /\ act' = [a |-> "Comp", e |-> "SendRsp"]
  \/ (Len(reqs) < MaxReq /\ \E p \in Payloads : EnvReq(p, p.a) /\ act' = [a |-> "EnvReq", p |-> p])
  \/ EnvTake /\ act' = [a |-> "EnvTake"]
SSpec == SInit /\ [][SNext]_<<vars, act>>
=============================================================================
