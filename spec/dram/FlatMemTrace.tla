--------------------------- MODULE FlatMemTrace ---------------------------
(***************************************************************************)
(* Is a Top-port event log of the real simplebankedmemory.Comp a behaviour *)
(* of FlatMem?  Deterministic: one log line = one action, every response   *)
(* is compared with the flat byte array by arrival order.                  *)
(*                                                                         *)
(*   Reset    a new run starts (configuration logged, ignored here: the    *)
(*            property holds "regardless of" it)                           *)
(*   EnvReq   Top HookPosPortMsgRecvd            -> FArrive                *)
(*   Drain    Top HookPosPortMsgRetrieveIncoming (drainTopPort; FIFO)      *)
(*   Rsp      Top HookPosPortMsgSend             -> FRespond               *)
(*   EnvTake  Top HookPosPortMsgRetrieveOutgoing (FIFO)                    *)
(*   Quiesce  engine idle, nothing in any port: everything must have been  *)
(*            answered and Comp.Storage (logged) must equal the flat array *)
(*   GiveUp / Panic / Alien  have no action: the trace is rejected there   *)
(*                                                                         *)
(* NonStop = FALSE: the trace is rejected at the first line no action      *)
(* explains (high-water mark).  NonStop = TRUE: that line is printed as    *)
(* <<"TRACEFAIL", line, reason>>, the rest of that run is skipped and      *)
(* validation resumes at the next Reset, so that one TLC run classifies    *)
(* hundreds of concatenated runs.                                          *)
(***************************************************************************)
EXTENDS FlatMem, TraceLib, Json

CONSTANT NonStop

TraceLog == ndJsonDeserialize("trace.ndjson")
N == Len(TraceLog)

VARIABLES l,        \* position in TraceLog
          bad,      \* the current run was rejected (NonStop only)
          srcOf,    \* Seq: requester of request i
          ndrained, \* number of requests the component took from Top.incoming
          outq      \* ids of the responses sitting in Top.outgoing
tvars == <<fvars, l, bad, srcOf, ndrained, outq>>

ASSUME HWInit

Ev == TraceLog[l]
PayloadOf(ev) == [k |-> ev.k, a |-> ev.a, n |-> ev.n, d |-> ev.d, m |-> ev.m]

\* ------------------------------------------------------------------ guards
OkEnvReq(ev)  == ev.id = Len(freqs) + 1 /\ WellFormed(PayloadOf(ev))
OkDrain(ev)   == ev.id = ndrained + 1 /\ ev.id <= Len(freqs)
OkRsp(ev)     == /\ RspOwed(ev.id) /\ RspKind(ev.id, ev.k) /\ RspValue(ev.id, ev.k, ev.d)
                 /\ ev.dst = srcOf[ev.id]
OkTake(ev)    == outq # <<>> /\ Head(outq) = ev.id
StoreOk(ev)   == \A i \in 1..Len(ev.store) :
                   \A j \in 1..Len(ev.store[i][2]) : ev.store[i][2][j] = Get(fmem, ev.store[i][1] + j - 1)
OkQuiesce(ev) == fout = {} /\ outq = <<>> /\ ndrained = Len(freqs) /\ StoreOk(ev)

Ok(ev) == CASE ev.e = "EnvReq"  -> OkEnvReq(ev)
            [] ev.e = "Drain"   -> OkDrain(ev)
            [] ev.e = "Rsp"     -> OkRsp(ev)
            [] ev.e = "EnvTake" -> OkTake(ev)
            [] ev.e = "Quiesce" -> OkQuiesce(ev)
            [] ev.e = "Reset"   -> TRUE
            [] OTHER            -> FALSE

\* which clause of the property the rejected line breaks
Why(ev) == CASE ev.e = "Rsp" /\ ~RspOwed(ev.id)                 -> "OneRspEach"
             [] ev.e = "Rsp" /\ ~RspKind(ev.id, ev.k)           -> "RspKind"
             [] ev.e = "Rsp" /\ ~RspValue(ev.id, ev.k, ev.d)    -> "ReadSeesLatestEarlierWrite"
             [] ev.e = "Rsp"                                     -> "RspDestination"
             [] ev.e = "Quiesce" /\ fout # {}                    -> "OneRspEach_missing"
             [] ev.e = "Quiesce" /\ ~StoreOk(ev)                 -> "FinalStorage"
             [] ev.e = "Quiesce"                                 -> "PortNotDrained"
             [] ev.e = "Drain"                                   -> "DrainOrder"
             [] ev.e = "EnvTake"                                 -> "TakeOrder"
             [] ev.e = "EnvReq"                                  -> "EnvReqMalformed"
             [] OTHER                                            -> ev.e

\* ----------------------------------------------------------------- actions
Is(e) == l <= N /\ Ev.e = e /\ ~bad /\ Ok(Ev) /\ l' = l + 1 /\ bad' = bad

TInit == FInit /\ l = 1 /\ bad = FALSE /\ srcOf = <<>> /\ ndrained = 0 /\ outq = <<>>

TEnvReq == Is("EnvReq") /\ FArrive(PayloadOf(Ev))
           /\ srcOf' = Append(srcOf, Ev.src) /\ UNCHANGED <<ndrained, outq>>
TDrain  == Is("Drain") /\ ndrained' = ndrained + 1 /\ UNCHANGED <<fvars, srcOf, outq>>
TRsp    == Is("Rsp") /\ FRespond(Ev.id, Ev.k, Ev.d)
           /\ outq' = Append(outq, Ev.id) /\ UNCHANGED <<srcOf, ndrained>>
TTake   == Is("EnvTake") /\ outq' = Tail(outq) /\ UNCHANGED <<fvars, srcOf, ndrained>>
TQuiesce == Is("Quiesce") /\ UNCHANGED <<fvars, srcOf, ndrained, outq>>

TReset == /\ l <= N /\ Ev.e = "Reset" /\ l' = l + 1 /\ bad' = FALSE
          /\ freqs' = <<>> /\ fmem' = <<>> /\ fexp' = <<>> /\ fout' = {} /\ frsp' = <<>>
          /\ srcOf' = <<>> /\ ndrained' = 0 /\ outq' = <<>>

\* NonStop: note the first unexplained line of a run, skip the rest of the run
TFail == /\ NonStop /\ l <= N /\ ~bad /\ ~Ok(Ev)
         /\ PrintT(<<"TRACEFAIL", l, Why(Ev)>>)
         /\ bad' = TRUE /\ l' = l + 1 /\ UNCHANGED <<fvars, srcOf, ndrained, outq>>
TSkip == /\ NonStop /\ l <= N /\ bad /\ Ev.e # "Reset"
         /\ l' = l + 1 /\ UNCHANGED <<fvars, bad, srcOf, ndrained, outq>>

TNext == TEnvReq \/ TDrain \/ TRsp \/ TTake \/ TQuiesce \/ TReset \/ TFail \/ TSkip
TSpec == TInit /\ [][TNext]_tvars

\* redundant with the guards (kept as TLC invariants so that a mistake in a guard cannot hide a violation)
InvOneRspEach == \A i, j \in 1..Len(frsp) : i # j => frsp[i].to # frsp[j].to
InvReadValue  == bad \/ \A i \in 1..Len(frsp) : frsp[i].k = "r" => frsp[i].d = fexp[frsp[i].to]

Mark == HWNote(l)
Accepted == HWReport(N)
=============================================================================
