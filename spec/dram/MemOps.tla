------------------------------- MODULE MemOps -------------------------------
(* Byte-array operators shared by FlatMem (the property) and BankedMem (the   *)
(* implementation-shaped model).  Memories are functions from the touched     *)
(* byte addresses to values; every other byte is 0.                           *)
EXTENDS Integers, Sequences, FiniteSets, TLC

Get(m, x) == IF x \in DOMAIN m THEN m[x] ELSE 0
BytesOf(p) == {p.a + j - 1 : j \in 1..p.n}
Enabled(p) == {p.a + j - 1 : j \in {i \in 1..p.n : p.m[i] = 1}}

\* masked merge: exactly the enabled bytes change
ApplyWrite(m, p) ==
  LET en == Enabled(p) IN
  [x \in (DOMAIN m) \cup BytesOf(p) |-> IF x \in en THEN p.d[x - p.a + 1] ELSE Get(m, x)]
ReadOf(m, p) == [j \in 1..p.n |-> Get(m, p.a + j - 1)]
Touch(m, p) == [x \in (DOMAIN m) \cup BytesOf(p) |-> Get(m, x)]

WellFormed(p) ==
  /\ p.k \in {"r", "w"} /\ p.n >= 1 /\ p.a >= 0
  /\ p.k = "w" => Len(p.d) = p.n /\ Len(p.m) = p.n

=============================================================================
