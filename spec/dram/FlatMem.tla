------------------------------ MODULE FlatMem ------------------------------
(***************************************************************************)
(* The property C17 itself: a memory is a flat byte array.                 *)
(*                                                                         *)
(* Every request takes effect the moment it arrives (arrival order is the  *)
(* linearisation order the property demands: "the most recent              *)
(* earlier-arrived write", "requests to the same address take effect in    *)
(* arrival order").  A write updates exactly its enabled bytes; the value  *)
(* a read must return is fixed at its arrival; each request is answered    *)
(* exactly once, at any later time (latency is free).                      *)
(*                                                                         *)
(* A payload is [k |-> "r"|"w", a |-> address, n |-> size,                 *)
(*               d |-> <<bytes>>, m |-> <<0/1 byte enables>>]              *)
(* (d = m = <<>> for reads; a write without a mask has m all 1).           *)
(* Request ids are arrival indexes 1, 2, 3, ...                            *)
(***************************************************************************)
EXTENDS MemOps

VARIABLES freqs,   \* Seq of payloads in arrival order
          fmem,    \* function byte address -> value, defined on the bytes touched so far (0 elsewhere)
          fexp,    \* Seq: for request i the data its response must carry (<<>> for a write)
          fout,    \* set of ids that still wait for their response
          frsp     \* Seq of [to, k, d]: responses in the order they were sent
fvars == <<freqs, fmem, fexp, fout, frsp>>

FInit == freqs = <<>> /\ fmem = <<>> /\ fexp = <<>> /\ fout = {} /\ frsp = <<>>

FArrive(p) ==
  /\ WellFormed(p)
  /\ freqs' = Append(freqs, p)
  /\ fmem' = IF p.k = "w" THEN ApplyWrite(fmem, p) ELSE Touch(fmem, p)
  /\ fexp' = Append(fexp, IF p.k = "r" THEN ReadOf(fmem, p) ELSE <<>>)
  /\ fout' = fout \cup {Len(freqs) + 1}
  /\ UNCHANGED frsp

\* guards of a response, named after the clause of the property they stand for
RspOwed(id)        == id \in fout                          \* exactly one response each, none for unknown ids
RspKind(id, k)     == id \in 1..Len(freqs) /\ freqs[id].k = k
RspValue(id, k, d) == id \in 1..Len(freqs) /\ (k = "r" => d = fexp[id])  \* latest earlier-arrived write, per byte

FRespond(id, k, d) ==
  /\ RspOwed(id) /\ RspKind(id, k) /\ RspValue(id, k, d)
  /\ fout' = fout \ {id}
  /\ frsp' = Append(frsp, [to |-> id, k |-> k, d |-> d])
  /\ UNCHANGED <<freqs, fmem, fexp>>

\* one step of the flat memory whose environment draws requests from the set P
FStep(P) == (\E p \in P : FArrive(p)) \/ (\E id \in fout : FRespond(id, freqs[id].k, fexp[id]))
=============================================================================
