SPECIFICATION Spec
CONSTANTS
  Config <- DesignT1
  PortCap = 2
  PostCap = 1
  Payloads <- MCSmall
  MaxReq = 4
INVARIANTS TypeOK OneRspEach ReadSeesLatestEarlierWrite SameAddrInArrivalOrder MaskedWriteTouchesOnlyEnabled AllAnswered
PROPERTIES FlatSpec
CHECK_DEADLOCK FALSE
