SPECIFICATION TSpec
CONSTANTS
  Config = 0
  PortCap = 1000000
  PostCap = 1000000
  Payloads = {}
  MaxReq = 0
CHECK_DEADLOCK FALSE
