SPECIFICATION TSpec
CONSTANTS
  NB <- TNB
  IL <- TIL
  RowSz <- TRowSz
  Width <- TWidth
  Track <- TTrack
  Deviations <- TDev
  PortCap = 1000000
  PostCap = 1000000
  Payloads = {}
  MaxReq = 0
CONSTRAINT Mark
POSTCONDITION Accepted
CHECK_DEADLOCK FALSE
