SPECIFICATION SSpec
CONSTANTS
  Config <- BypassT1
  PortCap = 2
  PostCap = 1
  Payloads <- MCSmall
  MaxReq = 3
INVARIANTS ReadSeesLatestEarlierWrite SameAddrInArrivalOrder
CHECK_DEADLOCK FALSE
