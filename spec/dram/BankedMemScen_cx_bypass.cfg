SPECIFICATION SSpec
CONSTANTS
  NB = 2
  IL = 2
  RowSz = 2
  Width = 1
  Track = TRUE
  Deviations <- DevBypass
  PortCap = 3
  PostCap = 1
  Payloads <- MCSmall
  MaxReq = 3
INVARIANTS ReadSeesLatestEarlierWrite SameAddrInArrivalOrder
CHECK_DEADLOCK FALSE
