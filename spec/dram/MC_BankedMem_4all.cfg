SPECIFICATION Spec
CONSTANTS
  Config <- DesignT1
  PortCap = 2
  PostCap = 1
  Payloads <- MCPayloads
  MaxReq = 4
INVARIANTS TypeOK OneRspEach ReadSeesLatestEarlierWrite SameAddrInArrivalOrder MaskedWriteTouchesOnlyEnabled AllAnswered
CHECK_DEADLOCK FALSE
