SPECIFICATION SSpec
CONSTANTS
  NB = 2
  IL = 2
  RowSz = 2
  Width = 2
  Track = FALSE
  Deviations <- AsImplemented
  PortCap = 3
  PostCap = 1
  Payloads <- MCPayloads
  MaxReq = 6
INVARIANTS TypeOK OneRspEach
CHECK_DEADLOCK FALSE
