SPECIFICATION FairSpec
CONSTANTS
  NB = 2
  IL = 2
  RowSz = 2
  Width = 2
  Track = TRUE
  Deviations <- NoDev
  PortCap = 1
  PostCap = 1
  Payloads <- MCSmall
  MaxReq = 2
PROPERTIES Progress
CHECK_DEADLOCK FALSE
