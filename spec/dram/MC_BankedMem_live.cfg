SPECIFICATION FairSpec
CONSTANTS
  Config <- DesignT2
  PortCap = 1
  PostCap = 1
  Payloads <- MCSmall
  MaxReq = 2
PROPERTIES Progress
CHECK_DEADLOCK FALSE
