--------------------------- MODULE BankedMemTrace ---------------------------
(***************************************************************************)
(* Are recorded runs of the real component behaviours of BankedMem under a *)
(* given set of deviations?  Port events are logged; the sub-steps inside  *)
(* the component (Dispatch, Expire, Exit, Commit) are not observable       *)
(* through the port and are chosen by TLC (search; Exit and Commit are     *)
(* taken as one step, see BankedMem!ExitAndCommit).                        *)
(*                                                                         *)
(* Used (a) to bind the implementation-shaped model to the code: every     *)
(* small replayed run must be a behaviour of BankedMem with the            *)
(* as-implemented deviations, and (b) to classify a run that FlatMemTrace  *)
(* rejected: the smallest deviation set under which this module accepts it *)
(* is the signature of the finding; if none does, the failure is new.      *)
(*                                                                         *)
(* The log holds many runs, each starting with a Reset line that carries   *)
(* the configuration and a list `devs` of deviation sets (hypotheses).     *)
(* There is one initial state per (run, hypothesis); a behaviour that      *)
(* explains its run up to and including the Quiesce line prints            *)
(* <<"RUNOK", line of the Reset, index of the hypothesis>>.  Runs and      *)
(* hypotheses are independent of each other, so TLC may use many workers.  *)
(***************************************************************************)
EXTENDS BankedMem, Json

TraceLog == ndJsonDeserialize("trace.ndjson")
N == Len(TraceLog)
RECURSIVE Pow2(_)
Pow2(n) == IF n = 0 THEN 1 ELSE 2 * Pow2(n - 1)

VARIABLES l,     \* position in TraceLog
          run,   \* line of the Reset that started this run
          hyp,   \* index of the hypothesis in that Reset's devs
          rk,    \* Seq: for request i the rank of its response among the responses of the run (logged with the
                 \* request as `rl` by a join of the log with itself; larger than every rank if it has no response)
          srcOf  \* Seq: requester of request i
tvars == <<vars, l, run, hyp, rk, srcOf>>

RunStarts == {i \in 1..N : TraceLog[i].e = "Reset"}
SetOf(s) == {s[i] : i \in 1..Len(s)}
CfgOf(r, devs) == [nb |-> r.banks, il |-> Pow2(r.ilog), rowsz |-> Pow2(r.rowlog), width |-> r.width,
                   track |-> (r.track = 1), dev |-> SetOf(devs)]

Ev == TraceLog[l]
Is(e) == l <= N /\ Ev.e = e /\ l' = l + 1 /\ UNCHANGED <<run, hyp>>
Keep == UNCHANGED <<rk, srcOf>>
PayloadOf(ev) == [k |-> ev.k, a |-> ev.a, n |-> ev.n, d |-> ev.d, m |-> ev.m]

TInit ==
  \E r \in RunStarts : \E h \in 1..Len(TraceLog[r].devs) :
    /\ run = r /\ hyp = h /\ l = r + 1 /\ rk = <<>> /\ srcOf = <<>>
    /\ cfg = CfgOf(TraceLog[r], TraceLog[r].devs[h])
    /\ topIn = <<>> /\ pending = <<>>
    /\ delayQ = [b \in 0..(TraceLog[r].banks - 1) |-> <<>>]
    /\ pipe = [b \in 0..(TraceLog[r].banks - 1) |-> <<>>]
    /\ post = [b \in 0..(TraceLog[r].banks - 1) |-> <<>>]
    /\ lastRow = [b \in 0..(TraceLog[r].banks - 1) |-> -1]
    /\ done = {} /\ rdata = <<>> /\ storage = <<>> /\ topOut = <<>>
    /\ reqs = <<>> /\ loc = <<>> /\ rsps = <<>> /\ wasHit = {}

TEnvReq == Is("EnvReq") /\ Ev.id = Len(reqs) + 1 /\ EnvReq(PayloadOf(Ev), Ev.ba) /\ rk' = Append(rk, Ev.rl) /\ srcOf' = Append(srcOf, Ev.src)
TDrain  == Is("Drain") /\ topIn # <<>> /\ Head(topIn) = Ev.id /\ Drain /\ Keep
TRsp    == /\ Is("Rsp")
           /\ \E b \in Banks : /\ post[b] # <<>> /\ Head(post[b]) = Ev.id
                               /\ SendRsp(b)
                               /\ Ev.k = reqs[Ev.id].k
                               /\ Ev.k = "r" => Ev.d = rdata[Ev.id]
                               /\ Ev.dst = srcOf[Ev.id]
           /\ Keep
TTake   == Is("EnvTake") /\ topOut # <<>> /\ Head(topOut).to = Ev.id /\ EnvTake /\ Keep
TQuiesce == /\ Is("Quiesce") /\ Quiescent /\ Answered = 1..Len(reqs)
            /\ \A i \in 1..Len(Ev.store) :
                 \A j \in 1..Len(Ev.store[i][2]) : Ev.store[i][2][j] = Get(storage, Ev.store[i][1] + j - 1)
            /\ PrintT(<<"RUNOK", run, hyp>>)
            /\ UNCHANGED vars /\ Keep

\* Unobservable sub-steps.  Banks do not interact (requests that share a byte share a bank), so it is enough to let
\* the bank work whose response is the next one in the log: every other interleaving is equivalent to one of these.
NextRsp[i \in 1..(N + 1)] ==
  IF i > N THEN 0
  ELSE IF TraceLog[i].e = "Reset" THEN 0
  ELSE IF TraceLog[i].e = "Rsp" THEN i
  ELSE NextRsp[i + 1]
FocusBank == IF l > N \/ NextRsp[l] = 0 THEN -1
             ELSE LET id == TraceLog[NextRsp[l]].id IN
                  IF id \in 1..Len(loc) THEN loc[id].b ELSE -1

\* Lanes matter only through LaneOvertake ("an item may leave if no older item shares its lane").  Trace validation
\* over-approximates that deviation: every item gets a lane of its own, so any item may overtake any older one (the
\* real pipeline has cfg.width lanes).  Entry order and the row-order deviations then no longer matter, so under
\* LaneOvertake requests of a bank are dispatched oldest first.
LanesInUse(b) == {pipe[b][i].lane : i \in 1..Len(pipe[b])}
MaxOf(S) == IF S = {} THEN 0 ELSE CHOOSE x \in S : \A y \in S : y <= x
LaneFor(b) == IF "LaneOvertake" \notin cfg.dev THEN 1 ELSE 1 + MaxOf(LanesInUse(b))
OldestOfBank(i) == \A j \in 1..(i - 1) : loc[pending[j]].b # loc[pending[i]].b

\* Dead ends and equivalent interleavings are not explored.  The post-pipeline buffer and the port are FIFOs, so the
\* next request to leave a pipeline is the one whose response is next in the log (FocusId), and it may as well leave
\* right before that response; once it can leave nothing else needs to happen first.  Unless LaneOvertake is assumed
\* the pipeline and the delay queue are FIFOs too, so they are entered in the order of the responses as well.
FocusId == IF l > N \/ NextRsp[l] = 0 THEN 0 ELSE TraceLog[NextRsp[l]].id
Waiting(b) == {id \in 1..Len(reqs) : loc[id].b = b /\ id \notin done}           \* arrived, not yet out of the pipeline
InPipe(b) == {pipe[b][i].id : i \in 1..Len(pipe[b])}
CanLeave(b) == {k \in 1..Len(pipe[b]) : /\ pipe[b][k].id = FocusId
                                        /\ \A j \in 1..(k - 1) : pipe[b][j].lane # pipe[b][k].lane
                                        /\ k = 1 \/ "LaneOvertake" \in cfg.dev}
MayEnter(b, id) == "LaneOvertake" \in cfg.dev \/ \A x \in (Waiting(b) \ InPipe(b)) \ {id} : rk[x] > rk[id]
MayQueue(b, id) == "LaneOvertake" \in cfg.dev \/ \A i \in 1..Len(delayQ[b]) : rk[delayQ[b][i]] < rk[id]

TInternal ==
  /\ FocusBank >= 0 /\ UNCHANGED <<l, run, hyp, rk, srcOf>>
  /\ LET b == FocusBank IN
     IF CanLeave(b) # {}
     THEN \E k \in CanLeave(b) : ExitAndCommit(b, k)
     ELSE \/ \E i \in 1..Len(pending) :
               /\ loc[pending[i]].b = b
               /\ "LaneOvertake" \in cfg.dev => OldestOfBank(i)
               /\ \/ Dispatch(i, LaneFor(b)) /\ pipe'[b] # pipe[b]        \* straight into the pipeline
                  \/ Dispatch(i, 1) /\ delayQ'[b] # delayQ[b]             \* into the delay queue (wants lane = 1)
               /\ IF Len(delayQ'[b]) > Len(delayQ[b]) THEN MayQueue(b, pending[i]) ELSE MayEnter(b, pending[i])
          \/ delayQ[b] # <<>> /\ MayEnter(b, Head(delayQ[b])) /\ Expire(b, LaneFor(b))

TNext == TEnvReq \/ TDrain \/ TRsp \/ TTake \/ TQuiesce \/ TInternal
TSpec == TInit /\ [][TNext]_tvars
=============================================================================
