--------------------------- MODULE BankedMemTrace ---------------------------
(***************************************************************************)
(* Is a Top-port event log of ONE run of the real component a behaviour of *)
(* BankedMem under a given set of deviations?  Port events are logged; the *)
(* sub-steps inside the component (Dispatch, Expire, Exit, Commit) are not *)
(* observable through the port and are chosen by TLC (search).             *)
(*                                                                         *)
(* Used (a) to bind the implementation-shaped model to the code: every     *)
(* small replayed run must be a behaviour of BankedMem with the            *)
(* as-implemented deviations, and (b) to classify a run that FlatMemTrace  *)
(* rejected: the smallest deviation set under which this module accepts it *)
(* is the signature of the finding; if none does, the failure is new.      *)
(*                                                                         *)
(* Configuration and deviation set are read from the Reset line (line 1);   *)
(* further runs of the same configuration may follow (Reset).              *)
(***************************************************************************)
EXTENDS BankedMem, TraceLib, Json

TraceLog == ndJsonDeserialize("trace.ndjson")
N == Len(TraceLog)
RECURSIVE Pow2(_)
Pow2(n) == IF n = 0 THEN 1 ELSE 2 * Pow2(n - 1)

TNB == TraceLog[1].banks
TIL == Pow2(TraceLog[1].ilog)
TRowSz == Pow2(TraceLog[1].rowlog)
TWidth == TraceLog[1].width
TTrack == TraceLog[1].track = 1
TDev == {TraceLog[1].dev[i] : i \in 1..Len(TraceLog[1].dev)}

VARIABLES l
tvars == <<vars, l>>

ASSUME HWInit

Ev == TraceLog[l]
Is(e) == l <= N /\ Ev.e = e /\ l' = l + 1
PayloadOf(ev) == [k |-> ev.k, a |-> ev.a, n |-> ev.n, d |-> ev.d, m |-> ev.m]

TInit == Init /\ l = 2 /\ TraceLog[1].e = "Reset"

TEnvReq == Is("EnvReq") /\ Ev.id = Len(reqs) + 1 /\ EnvReq(PayloadOf(Ev), Ev.ba)
TDrain  == Is("Drain") /\ topIn # <<>> /\ Head(topIn) = Ev.id /\ Drain
TRsp    == /\ Is("Rsp")
           /\ \E b \in Banks : /\ post[b] # <<>> /\ Head(post[b]) = Ev.id
                               /\ SendRsp(b)
                               /\ Ev.k = reqs[Ev.id].k
                               /\ Ev.k = "r" => Ev.d = rdata[Ev.id]
TTake   == Is("EnvTake") /\ topOut # <<>> /\ Head(topOut).to = Ev.id /\ EnvTake
TQuiesce == /\ Is("Quiesce") /\ Quiescent /\ Answered = 1..Len(reqs)
            /\ \A i \in 1..Len(Ev.store) :
                 \A j \in 1..Len(Ev.store[i][2]) : Ev.store[i][2][j] = Get(storage, Ev.store[i][1] + j - 1)
            /\ UNCHANGED vars

\* a further run of the same configuration (runs are grouped by configuration)
TReset == /\ Is("Reset") /\ Quiescent
          /\ Ev.banks = TNB /\ Ev.ilog = TraceLog[1].ilog /\ Ev.rowlog = TraceLog[1].rowlog
          /\ Ev.width = TWidth /\ Ev.track = TraceLog[1].track
          /\ topIn' = <<>> /\ pending' = <<>>
          /\ delayQ' = [b \in Banks |-> <<>>] /\ pipe' = [b \in Banks |-> <<>>] /\ post' = [b \in Banks |-> <<>>]
          /\ lastRow' = [b \in Banks |-> -1]
          /\ done' = {} /\ rdata' = <<>> /\ storage' = <<>> /\ topOut' = <<>>
          /\ reqs' = <<>> /\ loc' = <<>> /\ rsps' = <<>> /\ wasHit' = {}

\* unobservable sub-steps
TInternal ==
  /\ l <= N /\ UNCHANGED l
  /\ \/ \E i \in 1..Len(pending), lane \in Lanes : Dispatch(i, lane)
     \/ \E b \in Banks : \/ \E lane \in Lanes : Expire(b, lane)
                         \/ \E k \in 1..Len(pipe[b]) : Exit(b, k)
                         \/ Commit(b)

TNext == TEnvReq \/ TDrain \/ TRsp \/ TTake \/ TQuiesce \/ TReset \/ TInternal
TSpec == TInit /\ [][TNext]_tvars

Mark == HWNote(l)
Accepted == HWReport(N)
=============================================================================
