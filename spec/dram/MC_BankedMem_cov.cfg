SPECIFICATION Spec
CONSTANTS
  Config <- DesignT2
  PortCap = 2
  PostCap = 1
  Payloads <- MCSmall
  MaxReq = 3
INVARIANTS TypeOK OneRspEach ReadSeesLatestEarlierWrite SameAddrInArrivalOrder MaskedWriteTouchesOnlyEnabled AllAnswered
PROPERTIES FlatSpec
CHECK_DEADLOCK FALSE
