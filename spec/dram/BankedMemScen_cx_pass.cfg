SPECIFICATION SSpec
CONSTANTS
  Config <- PassT1
  PortCap = 2
  PostCap = 1
  Payloads <- MCSmall
  MaxReq = 4
INVARIANTS ReadSeesLatestEarlierWrite SameAddrInArrivalOrder
CHECK_DEADLOCK FALSE
