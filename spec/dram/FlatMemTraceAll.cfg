SPECIFICATION TSpec
CONSTANTS
  NonStop = TRUE
INVARIANTS InvOneRspEach InvReadValue
CONSTRAINT Mark
POSTCONDITION Accepted
CHECK_DEADLOCK FALSE
