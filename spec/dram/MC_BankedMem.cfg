SPECIFICATION Spec
CONSTANTS
  Config <- DesignT1
  PortCap = 2
  PostCap = 1
  Payloads <- MCPayloads
  MaxReq = 3
INVARIANTS TypeOK OneRspEach ReadSeesLatestEarlierWrite SameAddrInArrivalOrder MaskedWriteTouchesOnlyEnabled AllAnswered
PROPERTIES FlatSpec
CHECK_DEADLOCK FALSE
