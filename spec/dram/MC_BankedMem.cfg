SPECIFICATION Spec
CONSTANTS
  NB = 2
  IL = 2
  RowSz = 2
  Width = 1
  Track = TRUE
  Deviations <- NoDev
  PortCap = 2
  PostCap = 1
  Payloads <- MCPayloads
  MaxReq = 3
INVARIANTS TypeOK OneRspEach ReadSeesLatestEarlierWrite SameAddrInArrivalOrder MaskedWriteTouchesOnlyEnabled AllAnswered
PROPERTIES FlatSpec
CHECK_DEADLOCK FALSE
